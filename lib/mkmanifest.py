#!/usr/bin/env python3
"""Regenerates MANIFEST.json from the table below (kept as code so it is always schema-valid)."""
import json
import os
import subprocess

VERIF = os.path.dirname(os.path.dirname(os.path.abspath(__file__)))

CHECKS = {
    "C01": dict(cat="proof", technique="Lean 4 theorem (stack-path + rightmost-derivation invariant over the driver model) + verified certificates evaluated on the implementation's automaton/table + differential correspondence",
                text="Kernel-checked theorem C01_sound: for every table passing the decidable certificates gramWF/certA/certT, every input and fuel, an accepting run's reductions are a rightmost derivation of exactly the input. The certificates are evaluated by the compiled Lean model on the implementation's own LR0Closure and GTable for every generated grammar, so for each grammar explored the claim about all inputs rests on the theorem.",
                note="Trusted: Lean kernel; compiled ymodel evaluates the certificates; Go harness dump; the driver model is tied to the generated code by execution of compiled parsers (C08 check). Axioms: propext, Quot.sound, Classical.choice at most.",
                ref="DESIGN.md §5 C01"),
    "C02": dict(cat="proof", technique="Lean 4 theorems (completeness simulation over lookahead-annotated items; Bool-certificate bridges) + completeness certificate certC evaluated on the implementation's table + Earley oracle",
                text="Kernel-checked: the completeness simulation Y.sim (a conflict-free, closed, lookahead-annotated item system drives the parser through every derivation) and the bridges from Bool checks to its hypotheses (LA_in_table, firstOf_sets). Per grammar: LALR(1)-ness is decided by the verified lookahead oracle on the implementation's automaton, certC is evaluated on the implementation's GTable, and every Earley-recognised sentence up to a bound plus sampled sentences must be accepted by the driver model on that table (and no non-sentence).",
                note="Partial: the glue from certC to the hypotheses of Y.sim is validated per grammar rather than stated as one theorem. Trusted: Lean kernel, ymodel, harness, Earley oracle in cfg.py.",
                ref="DESIGN.md §5 C02"),
    "C03": dict(cat="proof", technique="Lean 4 theorem LALR propagation fixpoint = union over canonical LR(1) states with the same core (LA_iff) used as verified oracle for the implementation's DeRemer-Pennello output",
                text="Kernel-checked LA_iff: the least solution of the LALR(1) propagation rules over the LR(0) automaton equals the union of the lookaheads of the canonical LR(1) states reached by the state's access paths; LA_in_table: a table passing the Bool closure check contains every such fact. Per grammar the implementation's (state, rule) lookahead sets are compared as sets with the fixpoint computed on the implementation's own automaton, and its conflict warnings (cell level) with the unresolved conflicts predicted from those lookaheads.",
                note="The DeRemer-Pennello algorithm itself is validated per grammar, not verified for all grammars. Trusted: Lean kernel, ymodel, harness hook VerifLookaheads.",
                ref="DESIGN.md §5 C03"),
    "C04": dict(cat="proof", technique="Lean 4 theorems about the Go decision functions translated to Lean on every run (go/ast translator) + specification-function recomputation of every two-way conflict cell + precedence-climbing reference on operator grammars",
                text="ResolveConflict and UseDefaultResolveConflict are translated statement by statement from LALR/Table.go into Gen/Resolve.lean on every run; the precedence/associativity theorems (higher level wins, %left reduces, %right shifts, %nonassoc errors, default shift, reduce/reduce picks the earlier rule) are proved about that generated text, so an edit of the functions is re-proved or breaks the build. Every two-way conflict cell of every generated grammar is recomputed from the property's rule; whole expressions of random operator tables are grouped against a precedence-climbing reference.",
                note="Reduce/reduce cells where both rules carry a precedence are treated as unspecified. End-to-end grouping is by execution. Trusted: translator (fails closed), Lean kernel, harness.",
                ref="DESIGN.md §5 C04"),
    "C05": dict(cat="proof", technique="Lean 4 theorems on the row-displacement placement invariant (first-fit, non-overlap, cell recovery) + packed-lookup certificate on the implementation's five arrays + differential run of PackTable/UnPackTable on random matrices",
                text="Kernel-checked abstract core of row displacement: first-fit finds a free displacement, placing preserves the non-overlap invariant, and under the invariant every cell of every placed row is recovered through owner check + value. Per grammar every (state, symbol) cell is looked up through the implementation's packed arrays with the generated Action logic and compared with GTable; random matrices go through the real PackTable/UnPackTable; the Lean mirror of split+pack must reproduce the implementation's arrays byte for byte.",
                note="Partial: the refinement from the array-based mirror to the abstract placement view is by correspondence, not yet a theorem. Trusted: Lean kernel, ymodel, harness.",
                ref="DESIGN.md §5 C05"),
    "C06": dict(cat="proof", technique="Lean 4 theorem (never crash, tokens requested = shifted + 1) over the driver model on certified tables + valid-item/viable-prefix theorems + Earley viable-prefix oracle",
                text="Kernel-checked C06_safe: on every certified table, for every input and fuel the driver ends in accept, syntaxError or outOfFuel, never in a crash (no out-of-range state, symbol, slice or goto), and at a syntax error exactly shifted+1 tokens were requested. St0_valid/valid_viable: items of canonical LR(0) states are valid, hence consumed input is a viable prefix. Per grammar: all strings up to a bound and mutated sentences through the driver on the implementation's table; for conflict-free grammars the error must come exactly at the first token that cannot continue a sentence (Earley oracle).",
                note="Partial: termination on every conflict-free grammar is covered by step-bounded execution only; the per-backend error channel is checked by execution of the generated parsers (C08 runs).",
                ref="DESIGN.md §5 C06"),
    "C09": dict(cat="proof", technique="Lean 4 certificate theorems on the implementation's automaton + byte-identical executable Lean mirror of the worklist construction + independent canonical-collection reference",
                text="The implementation's LR0Closure is compared, as a set of item sets with transitions, with an independently computed canonical LR(0) collection (no duplicates, none missing or extra, state 0 = closure of the start item, items sorted); the Lean mirror of ComputeIClosure/ComputeAllGoto must reproduce states and gotos with the implementation's numbering; certA (backward consistency, goto completeness, justification) passes on every automaton.",
                note="Theorems for this property are being extended (closure correctness of the mirror).",
                ref="DESIGN.md §5 C09"),
}

NOT_YET = {
}


def main():
    hooks = subprocess.run(["git", "-C", "/repo", "log", "--format=%H %s"], stdout=subprocess.PIPE).stdout.decode().split("\n")
    hook_commits = [l.split()[0] for l in hooks if l and l.split(" ", 1)[1].startswith("verif:")]
    props = [json.loads(l)["id"] for l in open(os.path.join(VERIF, "properties.jsonl"))]
    m = {
        "version": 1,
        "setup_cmd": "./bin/setup",
        "hooks": {
            "guard": "verif",
            "enable": "go build -tags verif (the harness module replaces github.com/acekingke/yaccgo with /repo)",
            "baseline_off_cmd": json.load(open("/root/.vp/BASELINE.json"))["cmd"] if os.path.exists("/root/.vp/BASELINE.json") else "cd /repo && go test -vet=off -count=1 ./...",
            "source_commits": hook_commits,
            "add_only": True,
        },
        "engines": [
            {"name": "lean", "path": "lean", "serves_properties": sorted(CHECKS), "kind_free_text": "Lean 4.33 project: models, certificates, theorems; core-only executable ymodel"},
            {"name": "harness", "path": "harness", "serves_properties": sorted(CHECKS), "kind_free_text": "Go harness calling the real packages in-process (build tag verif)"},
            {"name": "orchestrator", "path": "bin/check", "serves_properties": sorted(CHECKS), "kind_free_text": "Python 3 stdlib orchestrator, generators, reference oracles"},
        ],
        "checks": [],
        "not_applicable": [],
        "notes": "See DESIGN.md. Every check: regenerate translated Lean fragments, lake build + axiom audit (proof_ok), rebuild harness against /repo's working tree, correspondence + certificates (tie_ok), property predicate on the implementation (prop_ok).",
    }
    for pid in props:
        if pid in CHECKS:
            c = CHECKS[pid]
            m["checks"].append({
                "property_id": pid,
                "quick_cmd": "./bin/check %s --tier quick" % pid,
                "thorough_cmd": "./bin/check %s --tier thorough" % pid,
                "evidence_file": "evidence/%s.json" % pid,
                "replay_cmd_template": "./bin/check %s --replay {path}" % pid,
                "engine": "lean",
                "level_claimed": {"category": c["cat"], "text": c["text"], "design_ref": c["ref"]},
                "level_note": c["note"],
                "technique": c["technique"],
            })
        else:
            m["not_applicable"].append({"property_id": pid, "reason": NOT_YET.get(pid, "check not built yet (work in progress; the design claims it, see DESIGN.md §5)")})
    with open(os.path.join(VERIF, "MANIFEST.json"), "w") as f:
        json.dump(m, f, indent=1)
    print("MANIFEST: %d checks, %d not claimed" % (len(m["checks"]), len(m["not_applicable"])))


if __name__ == "__main__":
    main()
