import Yv.Model.GenTab
import Yv.Proofs.CertFacts
import Yv.Proofs.CanonFacts
import Yv.Proofs.DSound
/-! Facts about the list-based table generator `Y.GT.genTableL`: every cell it writes passes the
    per-cell check of `certT`; without conflicts every cell holds the unique candidate. -/
namespace Y.GT
open Core (Action)

/-! ## the pairwise fold -/

theorem foldl_sel {res : Action → Action → Action} (hR : ResSel res) (L : List Action) :
    ∀ (rest : List Action) (a : Action), (∀ x ∈ rest, x ∈ L) → (a ∈ L ∨ a.ty = 2) →
      (rest.foldl res a ∈ L ∨ (rest.foldl res a).ty = 2) := by
  intro rest
  induction rest with
  | nil => intro a _ h; exact h
  | cons b bs ih =>
    intro a hsub ha
    simp only [List.foldl_cons]
    apply ih _ (fun x hx => hsub x (List.mem_cons_of_mem _ hx))
    rcases hR a b with e | e | e
    · rw [e]; exact ha
    · rw [e]; exact Or.inl (hsub b List.mem_cons_self)
    · exact Or.inr e

/-- the winner of a cell is one of the candidates or an error marker -/
theorem foldCell_sel {res : Action → Action → Action} (hR : ResSel res) {l : List Action}
    {w : Action} (h : foldCell res l = some w) : w ∈ l ∨ w.ty = 2 := by
  cases l with
  | nil => cases h
  | cons a rest =>
    simp only [foldCell, Option.some.injEq] at h
    subst h
    exact foldl_sel hR (a :: rest) rest a (fun x hx => List.mem_cons_of_mem _ hx)
      (Or.inl List.mem_cons_self)

theorem foldCell_single (res : Action → Action → Action) (a : Action) :
    foldCell res [a] = some a := rfl

theorem foldCell_nil (res : Action → Action → Action) : foldCell res [] = none := rfl

theorem foldCell_none {res : Action → Action → Action} {l : List Action}
    (h : foldCell res l = none) : l = [] := by
  cases l with
  | nil => rfl
  | cons a rest => cases h

/-! ## candidates -/

theorem mem_candsOn {cs : List (Sym × Action)} {s : Sym} {w : Action} :
    w ∈ candsOn cs s ↔ (s, w) ∈ cs := by
  unfold candsOn
  simp only [List.mem_map, List.mem_filter, beq_iff_eq]
  constructor
  · rintro ⟨c, ⟨hc, he⟩, hw⟩
    obtain ⟨x, y⟩ := c
    simp only at he hw
    subst he; subst hw
    exact hc
  · intro h
    exact ⟨(s, w), ⟨h, rfl⟩, rfl⟩

theorem mem_shiftsL {P : PrecData} {A : Auto} {q : Nat} {s : Sym} {w : Action} :
    (s, w) ∈ shiftsL P A q ↔ ∃ e ∈ A.gts q, s = e.1 ∧ w = P.shiftAct e.1 e.2 := by
  unfold shiftsL
  simp only [List.mem_map, Prod.mk.injEq]
  constructor
  · rintro ⟨e, he, h1, h2⟩
    exact ⟨e, he, h1.symm, h2.symm⟩
  · rintro ⟨e, he, h1, h2⟩
    exact ⟨e, he, h1.symm, h2.symm⟩

theorem mem_redsOf {G : Grammar} {P : PrecData} {t : LATab} {q : Nat} {it : Item} {s : Sym}
    {w : Action} :
    (s, w) ∈ redsOf G P t q it ↔
      ∃ rl, G.rules[it.r]? = some rl ∧ it.d = rl.rhs.length ∧ s ∈ t.get q it ∧ w = P.redAct it.r := by
  unfold redsOf
  split
  · rename_i rl hr
    split
    · rename_i hd
      have hd' : it.d = rl.rhs.length := by simpa using hd
      simp only [List.mem_map, Prod.mk.injEq]
      constructor
      · rintro ⟨a, ha, h1, h2⟩
        exact ⟨rl, hr, hd', h1 ▸ ha, h2.symm⟩
      · rintro ⟨rl', hr', _, hs, hw⟩
        exact ⟨s, hs, rfl, hw.symm⟩
    · rename_i hd
      constructor
      · intro h; cases h
      · rintro ⟨rl', hr', hd', _, _⟩
        rw [hr] at hr'; cases hr'
        exact absurd (by simpa using hd') hd
  · rename_i hr
    constructor
    · intro h; cases h
    · rintro ⟨rl', hr', _⟩
      rw [hr] at hr'; cases hr'

theorem mem_reducesL {G : Grammar} {P : PrecData} {A : Auto} {t : LATab} {q : Nat} {s : Sym}
    {w : Action} :
    (s, w) ∈ reducesL G P A t q ↔
      ∃ it ∈ A.its q, ∃ rl, G.rules[it.r]? = some rl ∧ it.d = rl.rhs.length ∧ s ∈ t.get q it ∧
        w = P.redAct it.r := by
  unfold reducesL
  simp only [List.mem_flatMap, mem_redsOf]

theorem mem_candsL {G : Grammar} {P : PrecData} {A : Auto} {t : LATab} {q : Nat} {s : Sym}
    {w : Action} :
    (s, w) ∈ candsL G P A t q ↔
      (∃ e ∈ A.gts q, s = e.1 ∧ w = P.shiftAct e.1 e.2) ∨
      (∃ it ∈ A.its q, ∃ rl, G.rules[it.r]? = some rl ∧ it.d = rl.rhs.length ∧ s ∈ t.get q it ∧
        w = P.redAct it.r) := by
  unfold candsL
  rw [List.mem_append, mem_shiftsL, mem_reducesL]

theorem shiftAct_ty (P : PrecData) (x : Sym) (p : Nat) : (P.shiftAct x p).ty = 0 := rfl
theorem shiftAct_idx (P : PrecData) (x : Sym) (p : Nat) : (P.shiftAct x p).idx = (p : Int) := rfl

theorem redAct_ty (P : PrecData) (r : Nat) : (P.redAct r).ty = 1 := by
  unfold PrecData.redAct; split <;> rfl

theorem redAct_idx (P : PrecData) (r : Nat) : (P.redAct r).idx = -(r : Int) := by
  unfold PrecData.redAct; split <;> rfl

theorem decode_shift (P : PrecData) (n : Nat) (x : Sym) (p : Nat) (hp : p ≠ 0) :
    decode n (some (P.shiftAct x p)) = (p : Int) := by
  have h0 : ((p : Int) != 0) = true := by
    simp only [bne_iff_ne, ne_eq]; omega
  simp only [decode, shiftAct_ty, shiftAct_idx, h0, if_true]
  rfl

theorem decode_red (P : PrecData) (n : Nat) (r : Nat) :
    decode n (some (P.redAct r)) = if r = 0 then accCode n else -(r : Int) := by
  have h1 : ((1 : Int) == 2) = false := by decide
  simp only [decode, redAct_ty, redAct_idx, h1]
  by_cases hr : r = 0
  · subst hr; simp
  · have : (-(r : Int) != 0) = true := by simp only [bne_iff_ne, ne_eq]; omega
    simp [this, hr]

theorem decode_err (n : Nat) (w : Action) (h : w.ty = 2) : decode n (some w) = errCode n := by
  simp [decode, h]

/-! ## goto lists without repeated symbols -/

theorem find_of_nodup : ∀ {l : List (Sym × Nat)} {e : Sym × Nat}, (l.map Prod.fst).Nodup → e ∈ l →
    l.find? (fun c => c.1 == e.1) = some e
  | [], _, _, he => by cases he
  | x :: xs, e, hn, he => by
    simp only [List.map_cons, List.nodup_cons] at hn
    rw [List.find?_cons]
    by_cases hx : x.1 = e.1
    · have hxe : x = e := by
        rcases List.mem_cons.mp he with h | h
        · exact h.symm
        · exact absurd (List.mem_map.mpr ⟨e, h, hx.symm⟩) hn.1
      simp [hxe]
    · have hb : (x.1 == e.1) = false := by simpa using hx
      rw [hb]
      rcases List.mem_cons.mp he with h | h
      · exact absurd (by rw [h]) hx
      · exact find_of_nodup hn.2 h

theorem goto_of_nodup {A : Auto} {q : Nat} {e : Sym × Nat}
    (hn : ((A.gts q).map Prod.fst).Nodup) (he : e ∈ A.gts q) : A.goto q e.1 = some e.2 := by
  unfold Auto.goto
  rw [find_of_nodup hn he]; rfl

theorem filter_of_nodup : ∀ {l : List (Sym × Nat)} {e : Sym × Nat}, (l.map Prod.fst).Nodup → e ∈ l →
    l.filter (fun c => c.1 == e.1) = [e]
  | [], _, _, he => by cases he
  | x :: xs, e, hn, he => by
    simp only [List.map_cons, List.nodup_cons] at hn
    rw [List.filter_cons]
    by_cases hx : x.1 = e.1
    · have hxe : x = e := by
        rcases List.mem_cons.mp he with h | h
        · exact h.symm
        · exact absurd (List.mem_map.mpr ⟨e, h, hx.symm⟩) hn.1
      have hnil : xs.filter (fun c => c.1 == e.1) = [] := by
        rw [List.filter_eq_nil_iff]
        intro c hc hce
        have : c.1 = x.1 := by rw [hx]; simpa using hce
        exact hn.1 (List.mem_map.mpr ⟨c, hc, this⟩)
      simp [hxe, hnil]
    · have hb : (x.1 == e.1) = false := by simpa using hx
      rw [hb]
      rcases List.mem_cons.mp he with h | h
      · exact absurd (by rw [h]) hx
      · simpa using filter_of_nodup hn.2 h

/-! ## side conditions as propositions -/

structure GotosOK (nS : Nat) (A : Auto) : Prop where
  nodup : ∀ q, q < A.n → ((A.gts q).map Prod.fst).Nodup
  sym : ∀ q, q < A.n → ∀ e ∈ A.gts q, 2 ≤ e.1 ∧ e.1 < nS

theorem gotosOK_ok {nS : Nat} {A : Auto} (h : gotosOK nS A = true) : GotosOK nS A := by
  unfold gotosOK at h
  refine ⟨fun q hq => ?_, fun q hq e he => ?_⟩
  · have := all_range h q hq
    simp only [Bool.and_eq_true] at this
    exact nodupB_ok this.1
  · have := all_range h q hq
    simp only [Bool.and_eq_true, List.all_eq_true, decide_eq_true_eq] at this
    exact this.2 e he

structure LAOK (G : Grammar) (A : Auto) (t : LATab) : Prop where
  term : ∀ q, q < A.n → ∀ it ∈ A.its q, it.d = (G.rhsOf it.r).length → ∀ a ∈ t.get q it, G.isT a = true
  start : ∀ q, q < A.n → ∀ it ∈ A.its q, it.d = (G.rhsOf it.r).length → it.r = 0 →
    ∀ a ∈ t.get q it, a = 1

theorem laOK_ok {G : Grammar} {A : Auto} {t : LATab} (h : laOK G A t = true) : LAOK G A t := by
  unfold laOK at h
  have key : ∀ q, q < A.n → ∀ it ∈ A.its q, it.d = (G.rhsOf it.r).length → ∀ a ∈ t.get q it,
      G.isT a = true ∧ (it.r ≠ 0 ∨ a = 1) := by
    intro q hq it hit hd a ha
    have := List.all_eq_true.mp (all_range h q hq) it hit
    simp only [Bool.or_eq_true, bne_iff_ne, ne_eq, List.all_eq_true, Bool.and_eq_true,
      beq_iff_eq] at this
    rcases this with h1 | h1
    · exact absurd hd h1
    · exact h1 a ha
  refine ⟨fun q hq it hit hd a ha => (key q hq it hit hd a ha).1, fun q hq it hit hd hr a ha => ?_⟩
  rcases (key q hq it hit hd a ha).2 with h1 | h1
  · exact absurd hr h1
  · exact h1

theorem laOK_of {G : Grammar} {A : Auto} {t : LATab}
    (h : ∀ q, q < A.n → ∀ it ∈ A.its q, ∀ a ∈ t.get q it, G.isT a = true ∧ (it.r = 0 → a = 1)) :
    laOK G A t = true := by
  unfold laOK
  simp only [List.all_eq_true, List.mem_range, Bool.or_eq_true, bne_iff_ne, ne_eq,
    Bool.and_eq_true, beq_iff_eq]
  intro q hq it hit
  right
  intro a ha
  obtain ⟨h1, h2⟩ := h q hq it hit a ha
  refine ⟨h1, ?_⟩
  by_cases hr : it.r = 0
  · exact Or.inr (h2 hr)
  · exact Or.inl hr

theorem isT_pos {G : Grammar} {a : Nat} (h : G.isT a = true) : 1 ≤ a ∧ a ≤ G.nT := by
  unfold Grammar.isT at h
  simpa using h

theorem isT_of_le {G : Grammar} {a : Sym} (h : ¬ a ≤ G.nT) : G.isT a = false := by
  unfold Grammar.isT
  simp [h]

/-! ## the per-cell check of `certT` -/

/-- the test `certT` performs on the value `v` of cell `(q, a)` -/
def cellChk (G : Grammar) (A : Auto) (q a : Nat) (v : Int) : Bool :=
  if v = errCode A.n then true
  else if a = 0 then false
  else if v = accCode A.n then a == 1 && (A.its q).contains ⟨0, 1⟩
  else if 0 < v then a != 1 && A.goto q a == some v.toNat
  else
    decide (1 ≤ (-v).toNat) && decide ((-v).toNat < G.rules.length) && G.isT a &&
      (A.its q).contains ⟨(-v).toNat, (G.rhsOf (-v).toNat).length⟩

theorem certT_intro {G : Grammar} {nS : Nat} {A : Auto} {T : Dense}
    (hlen : T.length = A.n) (hrow : ∀ row ∈ T, row.length = nS)
    (hcell : ∀ q a, q < A.n → a < nS → ∃ v, cell T q a = some v ∧ cellChk G A q a v = true)
    (hnt : ∀ q, q < A.n → ∀ e ∈ A.gts q, G.isT e.1 = false → cell T q e.1 = some (e.2 : Int)) :
    certT G nS A T = true := by
  unfold certT
  simp only [Bool.and_eq_true, List.all_eq_true, List.mem_range, decide_eq_true_eq]
  refine ⟨⟨⟨hlen, hrow⟩, ?_⟩, ?_⟩
  · intro q hq a ha
    obtain ⟨v, hc, hk⟩ := hcell q a hq ha
    simp only [hc]
    exact hk
  · intro q hq e he
    cases hT : G.isT e.1 with
    | true => rfl
    | false =>
      rw [hnt q hq e he hT]
      simp

theorem cellChk_err (G : Grammar) (A : Auto) (q a : Nat) : cellChk G A q a (errCode A.n) = true := by
  unfold cellChk; simp

theorem cellChk_acc {G : Grammar} {A : Auto} {q : Nat} (h : (⟨0, 1⟩ : Item) ∈ A.its q) :
    cellChk G A q 1 (accCode A.n) = true := by
  have hne : accCode A.n ≠ errCode A.n := by unfold accCode errCode; omega
  unfold cellChk
  simp [hne, h]

theorem cellChk_shift {G : Grammar} {A : Auto} {q a p : Nat} (hp : p < A.n) (hp0 : p ≠ 0)
    (ha0 : a ≠ 0) (ha1 : a ≠ 1) (hg : A.goto q a = some p) : cellChk G A q a (p : Int) = true := by
  have h1 : (p : Int) ≠ errCode A.n := by unfold errCode; omega
  have h2 : (p : Int) ≠ accCode A.n := by unfold accCode; omega
  unfold cellChk
  simp [h1, h2, Nat.pos_of_ne_zero hp0, ha0, ha1, hg]

theorem cellChk_red {G : Grammar} {A : Auto} {q a r : Nat} (hr1 : 1 ≤ r) (hr : r < G.rules.length)
    (ha : G.isT a = true) (hit : (⟨r, (G.rhsOf r).length⟩ : Item) ∈ A.its q) :
    cellChk G A q a (-(r : Int)) = true := by
  have h1 : -(r : Int) ≠ errCode A.n := by unfold errCode; omega
  have h2 : -(r : Int) ≠ accCode A.n := by unfold accCode; omega
  have h3 : ¬ (0 : Int) < -(r : Int) := by omega
  have h4 : a ≠ 0 := Nat.ne_of_gt (isT_pos ha).1
  have h5 : (- -(r : Int)).toNat = r := by simp
  unfold cellChk
  simp only [h1, h2, h3, h4, if_false, h5]
  simp [hr1, hr, ha, hit]

/-! ## the cells of the generated table -/

theorem genTable_length (res : Action → Action → Action) (G : Grammar) (nS : Nat) (P : PrecData)
    (A : Auto) (t : LATab) : (genTableL res G nS P A t).length = A.n := by
  simp [genTableL]

theorem genTable_row (res : Action → Action → Action) (G : Grammar) (nS : Nat) (P : PrecData)
    (A : Auto) (t : LATab) : ∀ row ∈ genTableL res G nS P A t, row.length = nS := by
  intro row hr
  unfold genTableL at hr
  obtain ⟨q, _, rfl⟩ := List.mem_map.mp hr
  simp [genRowL]

theorem cell_genTable (res : Action → Action → Action) (G : Grammar) (nS : Nat) (P : PrecData)
    (A : Auto) (t : LATab) {q a : Nat} (hq : q < A.n) (ha : a < nS) :
    cell (genTableL res G nS P A t) q a = some (cellOf res A.n (candsL G P A t q) a) := by
  unfold cell genTableL genRowL
  simp [hq, ha]

/-- what a candidate action of state `q` on symbol `a` decodes to, and that it passes `cellChk` -/
theorem cand_chk {G : Grammar} {nS : Nat} {P : PrecData} {A : Auto} {t : LATab}
    (hG : GOK G nS) (hA : AOK G A) (hE : GotosOK nS A) (hL : LAOK G A t)
    {q a : Nat} (hq : q < A.n) {w : Action} (hw : (a, w) ∈ candsL G P A t q) :
    cellChk G A q a (decode A.n (some w)) = true := by
  rcases mem_candsL.mp hw with ⟨e, he, rfl, rfl⟩ | ⟨it, hit, rl, hr, hd, ha, rfl⟩
  · have hg := goto_of_nodup (hE.nodup q hq) he
    obtain ⟨hp, hp0, _⟩ := hA.edge q hq e.1 e.2 hg
    obtain ⟨h2, _⟩ := hE.sym q hq e he
    rw [decode_shift P A.n e.1 e.2 hp0]
    exact cellChk_shift hp hp0 (Nat.ne_of_gt (Nat.lt_of_lt_of_le (by decide : 0 < 2) h2))
      (Nat.ne_of_gt (Nat.lt_of_lt_of_le (by decide : 1 < 2) h2)) hg
  · have hrhs : G.rhsOf it.r = rl.rhs := D.rhsOf_eq hr
    have hd' : it.d = (G.rhsOf it.r).length := by rw [hrhs]; exact hd
    have hT : G.isT a = true := hL.term q hq it hit hd' a ha
    have hit' : (⟨it.r, (G.rhsOf it.r).length⟩ : Item) ∈ A.its q := by
      rw [← hd']; exact hit
    rw [decode_red]
    by_cases h0 : it.r = 0
    · rw [if_pos h0]
      have ha1 : a = 1 := hL.start q hq it hit hd' h0 a ha
      obtain ⟨rl0, hr0, _, hl0⟩ := hG.r0
      rw [h0] at hit'
      rw [D.rhsOf_eq hr0, hl0] at hit'
      rw [ha1]
      exact cellChk_acc hit'
    · rw [if_neg h0]
      exact cellChk_red (Nat.pos_of_ne_zero h0) (rule_lt hr) hT hit'

/-- every cell of the generated table passes the per-cell check of `certT` -/
theorem genCell_chk {res : Action → Action → Action} (hR : ResSel res) {G : Grammar} {nS : Nat}
    {P : PrecData} {A : Auto} {t : LATab}
    (hG : GOK G nS) (hA : AOK G A) (hE : GotosOK nS A) (hL : LAOK G A t)
    {q : Nat} (hq : q < A.n) (a : Nat) :
    cellChk G A q a (cellOf res A.n (candsL G P A t q) a) = true := by
  unfold cellOf
  cases hf : foldCell res (candsOn (candsL G P A t q) a) with
  | none => exact cellChk_err G A q a
  | some w =>
    rcases foldCell_sel hR hf with hm | he
    · exact cand_chk hG hA hE hL hq (mem_candsOn.mp hm)
    · rw [decode_err A.n w he]; exact cellChk_err G A q a

/-- lookaheads are terminals: no reduction candidate on a nonterminal -/
theorem reduces_nonterminal {G : Grammar} {P : PrecData} {A : Auto} {t : LATab}
    (hL : LAOK G A t) {q : Nat} (hq : q < A.n) {X : Sym} (hX : G.isT X = false) :
    (reducesL G P A t q).filter (fun c => c.1 == X) = [] := by
  rw [List.filter_eq_nil_iff]
  intro c hc hcx
  obtain ⟨s, w⟩ := c
  have hs : s = X := by simpa using hcx
  subst hs
  obtain ⟨it, hit, rl, hr, hd, ha, _⟩ := mem_reducesL.mp hc
  have hd' : it.d = (G.rhsOf it.r).length := by rw [D.rhsOf_eq hr]; exact hd
  rw [hL.term q hq it hit hd' s ha] at hX
  cases hX

theorem shifts_on {P : PrecData} {A : Auto} {q : Nat} {e : Sym × Nat}
    (hn : ((A.gts q).map Prod.fst).Nodup) (he : e ∈ A.gts q) :
    (shiftsL P A q).filter (fun c => c.1 == e.1) = [(e.1, P.shiftAct e.1 e.2)] := by
  unfold shiftsL
  rw [List.filter_map]
  have : ((fun c : Sym × Action => c.1 == e.1) ∘ fun e : Sym × Nat => (e.1, P.shiftAct e.1 e.2)) =
      fun c : Sym × Nat => c.1 == e.1 := rfl
  rw [this, filter_of_nodup hn he]
  rfl

/-- the goto part: a nonterminal edge is the only candidate of its cell -/
theorem genCell_nt {res : Action → Action → Action} {G : Grammar} {nS : Nat}
    {P : PrecData} {A : Auto} {t : LATab} (hA : AOK G A) (hE : GotosOK nS A) (hL : LAOK G A t)
    {q : Nat} (hq : q < A.n) {e : Sym × Nat} (he : e ∈ A.gts q) (hX : G.isT e.1 = false) :
    cellOf res A.n (candsL G P A t q) e.1 = (e.2 : Int) := by
  have hg := goto_of_nodup (hE.nodup q hq) he
  obtain ⟨_, hp0, _⟩ := hA.edge q hq e.1 e.2 hg
  unfold cellOf candsOn candsL
  rw [List.filter_append, shifts_on (hE.nodup q hq) he, reduces_nonterminal hL hq hX]
  simp only [List.append_nil, List.map_cons, List.map_nil, foldCell_single]
  exact decode_shift P A.n e.1 e.2 hp0

/-! ## no conflicts: every candidate is the value of its cell -/

theorem foldl_max_ge {α : Type} (f : α → Nat) : ∀ (l : List α) (m : Nat),
    m ≤ l.foldl (fun m x => max m (f x)) m ∧ ∀ x ∈ l, f x ≤ l.foldl (fun m x => max m (f x)) m := by
  intro l
  induction l with
  | nil => intro m; exact ⟨Nat.le_refl _, fun x hx => by cases hx⟩
  | cons y ys ih =>
    intro m
    simp only [List.foldl_cons]
    obtain ⟨h1, h2⟩ := ih (max m (f y))
    refine ⟨Nat.le_trans (Nat.le_max_left _ _) h1, fun x hx => ?_⟩
    rcases List.mem_cons.mp hx with rfl | hx
    · exact Nat.le_trans (Nat.le_max_right _ _) h1
    · exact h2 x hx

theorem foldl_mono_ge {α : Type} (g : Nat → α → Nat) (hg : ∀ m x, m ≤ g m x) :
    ∀ (l : List α) (m : Nat), m ≤ l.foldl g m := by
  intro l
  induction l with
  | nil => intro m; exact Nat.le_refl _
  | cons y ys ih => intro m; exact Nat.le_trans (hg m y) (ih _)

/-- `maxCandsL` bounds the number of candidates of every cell -/
theorem maxCandsL_le {G : Grammar} {nS : Nat} {P : PrecData} {A : Auto} {t : LATab} {k : Nat}
    (h : maxCandsL G nS P A t ≤ k) {q s : Nat} (hq : q < A.n) (hs : s < nS) :
    (candsOn (candsL G P A t q) s).length ≤ k := by
  unfold maxCandsL at h
  -- generalise the outer fold
  have key : ∀ (l : List Nat) (m : Nat), q ∈ l →
      (candsOn (candsL G P A t q) s).length ≤
        l.foldl (fun m q => (List.range nS).foldl
          (fun m s => max m (candsOn (candsL G P A t q) s).length) m) m := by
    intro l
    induction l with
    | nil => intro m hm; cases hm
    | cons y ys ih =>
      intro m hm
      simp only [List.foldl_cons]
      rcases List.mem_cons.mp hm with rfl | hm
      · refine Nat.le_trans ?_ (foldl_mono_ge _ ?_ ys _)
        · exact (foldl_max_ge (fun s => (candsOn (candsL G P A t q) s).length) (List.range nS) m).2 s
            (List.mem_range.mpr hs)
        · intro m x
          exact (foldl_max_ge (fun s => (candsOn (candsL G P A t x) s).length) (List.range nS) m).1
      · exact ih _ hm
  exact Nat.le_trans (key _ 0 (List.mem_range.mpr hq)) h

theorem eq_single_of_le_one {α : Type} {l : List α} {x : α} (hl : l.length ≤ 1) (hx : x ∈ l) :
    l = [x] := by
  match l, hl, hx with
  | [y], _, hx => rw [List.mem_singleton.mp hx]
  | _ :: _ :: _, hl, _ => simp at hl

/-- without conflicts the cell of a candidate holds that candidate -/
theorem genCell_unique {res : Action → Action → Action} {G : Grammar} {nS : Nat}
    {P : PrecData} {A : Auto} {t : LATab} (hM : maxCandsL G nS P A t ≤ 1)
    {q a : Nat} (hq : q < A.n) (ha : a < nS) {w : Action} (hw : (a, w) ∈ candsL G P A t q) :
    cellOf res A.n (candsL G P A t q) a = decode A.n (some w) := by
  unfold cellOf
  rw [eq_single_of_le_one (maxCandsL_le hM hq ha) (mem_candsOn.mpr hw), foldCell_single]

/-! ## the implementation's resolution is a selection -/

theorem rc_sel (a b x : Action) (h : Core.resolveConflict a b = some x) : x = a ∨ x = b ∨ x.ty = 2 := by
  unfold Core.resolveConflict at h
  by_cases hc : (b.ty == 1 && a.ty == 0) = true
  · simp only [hc, if_true] at h
    repeat' split at h
    all_goals (first | (cases h; done) | (cases h; simp))
  · simp only [hc] at h
    repeat' split at h
    all_goals (first | (cases h; done) | (cases h; simp))

theorem ud_sel (a b : Action) : Core.useDefault a b = a ∨ Core.useDefault a b = b := by
  unfold Core.useDefault
  repeat' split
  all_goals simp

/-- the mirror of the implementation's resolution returns one of its arguments or the %nonassoc
    error marker -/
theorem pairWinner_sel : ResSel Core.pairWinner := by
  intro a b
  unfold Core.pairWinner
  cases h : Core.resolveConflict a b with
  | none =>
    rcases ud_sel a b with e | e
    · exact Or.inl e
    · exact Or.inr (Or.inl e)
  | some x => exact rc_sel a b x h

end Y.GT
