import Yv.Model.YLex
/-! Prototype: functional model of Parser/Parser.go (token stream → AST), with the F13 repair
    (`nextToken` answers EOF for ever once the lexer has stopped). Loops carry fuel. -/
namespace YParse
open YLex

structure Ident where
  name : String
  value : Int
  tag : String
  alias : String
deriving Repr

structure PrecDef where
  name : String
  assoc : Nat            -- 1 left, 2 right, 3 nonassoc
deriving Repr

structure TypeDef where
  name : String
  tag : String
deriving Repr

structure Elem where
  ty : Nat               -- 1 symbol, 2 action
  el : String
deriving Repr

structure RuleDef where
  lhs : String
  rhs : List Elem := []
  precSym : String := ""
deriving Repr

structure Decl where
  code : String := ""
  union : String := ""
  start : String := "start"
  tokDefs : List (List Ident) := []
  precDefs : List (List PrecDef) := []
  typeDefs : List TypeDef := []
deriving Repr

def zeroTok : Tok := ⟨.zero, "", 0⟩

structure P where
  toks : Array Tok
  idx : Nat := 0
  inputLen : Nat
  cur : Tok := zeroTok
  a0 : Tok := zeroTok
  a1 : Tok := zeroTok
  peek : Nat := 0
  defs : List String := []

def P.next (p : P) : P :=
  let p := if p.peek > 0 then { p with peek := p.peek - 1 }
    else match p.toks[p.idx]? with
      | some t => { p with a0 := t, idx := p.idx + 1 }
      | none => { p with a0 := ⟨.eof, "", p.inputLen⟩ }
  { p with cur := if p.peek == 0 then p.a0 else if p.peek == 1 then p.a1 else zeroTok }

def P.backup (p : P) : P := { p with peek := p.peek + 1 }
def P.backup2 (p : P) (t1 : Tok) : P := { p with a1 := t1, peek := 2 }
def P.is (p : P) (k : Kind) : Bool := p.cur.kind == k
def P.expect (p : P) (k : Kind) : P := if p.is k then p.next else p

def opName (v : String) : String := "$operator" ++ v
def firstByte (v : String) : Int := match v.toList with | c :: _ => c.toNat | [] => 0

def atoi (s : String) : Int := match s.toInt? with | some n => n | none => 0

/-- optional `<tag>` after a directive -/
def optTag (p : P) : P × String :=
  if p.is .langle then
    let p := p.next
    let tag := p.cur.value
    let p := p.next
    (p.expect .rangle, tag)
  else (p, "")

def tokendefLoop : Nat → P → String → List Ident → P × List Ident
  | 0, p, _, acc => (p, acc)
  | fuel+1, p, tag, acc =>
    if p.is .identifier then
      let name := p.cur.value
      let p := p.next
      let (p, value, alias) :=
        if p.is .number then (p, atoi p.cur.value, "")
        else if p.is .charater || p.is .stringKind then (p, (0 : Int), p.cur.value)
        else (p.backup, (0 : Int), "")
      let p := { p with defs := name :: p.defs }
      tokendefLoop fuel p.next tag (acc ++ [⟨name, value, tag, alias⟩])
    else if p.is .charater then
      let v := p.cur.value
      let p := { p with defs := opName v :: p.defs }
      tokendefLoop fuel p.next tag (acc ++ [⟨opName v, firstByte v, tag, v⟩])
    else (p, acc)

def parseTokendef (fuel : Nat) (p : P) : P × List Ident :=
  let (p, tag) := optTag p.next
  tokendefLoop fuel p tag []

def precLoop : Nat → P → String → Nat → List Ident → List PrecDef → P × List Ident × List PrecDef
  | 0, p, _, _, ids, res => (p, ids, res)
  | fuel+1, p, tag, assoc, ids, res =>
    let p := p.next
    if p.is .identifier || p.is .charater then
      let v := p.cur.value
      let (name, value) : String × Int := if p.is .charater then (opName v, firstByte v) else (v, 0)
      let (p, ids) := if p.defs.contains name then (p, ids)
        else ({ p with defs := name :: p.defs }, ids ++ [⟨name, value, tag, ""⟩])
      precLoop fuel p tag assoc ids (res ++ [⟨name, assoc⟩])
    else (p, ids, res)

def parsePrecList (fuel : Nat) (p : P) : P × List Ident × List PrecDef :=
  let assoc := if p.is .leftAssoc then 1 else if p.is .rightAssoc then 2 else 3
  let (p, tag) := optTag p.next
  precLoop fuel p.backup tag assoc [] []

def typeLoop : Nat → P → String → List TypeDef → P × List TypeDef
  | 0, p, _, acc => (p, acc)
  | fuel+1, p, tag, acc =>
    if p.is .identifier then typeLoop fuel p.next tag (acc ++ [⟨p.cur.value, tag⟩])
    else (p, acc)

def parseTypeList (fuel : Nat) (p : P) : P × List TypeDef :=
  let (p, tag) := optTag p.next
  typeLoop fuel p tag []

def declLoop : Nat → P → Decl → Option (P × Decl)
  | 0, _, _ => none
  | fuel+1, p, d =>
    if p.is .eof || p.is .section then some (p, d)
    else if p.is .error then none
    else
      let d := if p.is .unionDir then { d with union := p.cur.value } else d
      let d := if p.is .codeQuote then { d with code := d.code ++ p.cur.value } else d
      if p.is .tokenDir then
        let (p, ids) := parseTokendef fuel p
        declLoop fuel p { d with tokDefs := d.tokDefs ++ [ids] }
      else if p.is .leftAssoc || p.is .rightAssoc || p.is .noneAssoc || p.is .precedence then
        let (p, ids, precs) := parsePrecList fuel p
        let d := if ids.isEmpty then d else { d with tokDefs := d.tokDefs ++ [ids] }
        declLoop fuel p { d with precDefs := d.precDefs ++ [precs] }
      else if p.is .typeDir then
        let (p, tys) := parseTypeList fuel p
        declLoop fuel p { d with typeDefs := d.typeDefs ++ tys }
      else
        let (p, d) := if p.is .startDir then
            let p := p.next
            (p, { d with start := if p.is .identifier then p.cur.value else "" })
          else (p, d)
        declLoop fuel p.next d

/-- result of parseRule: `none` = Go's nil (stop), `some rules` otherwise; new token definitions on the side -/
structure RR where
  p : P
  rules : Option (List RuleDef)
  ids : List Ident

def ruleLoop : Nat → P → String → RuleDef → List Elem → List RuleDef → List Ident → RR
  | 0, p, _, _, _, res, ids => ⟨p, some res, ids⟩
  | fuel+1, p, left, rule, rp, res, ids =>
    let t1 := p.cur
    let p := p.next
    let t2 := p.cur
    let p := p.backup2 t1
    if t1.kind == .ruleEnd || (t1.kind == .identifier && t2.kind == .ruleDefine) then
      let p := p.next
      let p := if p.is .ruleEnd then p.next else p
      ⟨p, some (res ++ [rule]), ids⟩
    else
      let p := p.next
      match p.cur.kind with
      | .charater =>
        let name := opName p.cur.value
        let rp := rp ++ [⟨1, name⟩]
        let (p, ids) := if p.defs.contains name then (p, ids)
          else ({ p with defs := name :: p.defs }, ids ++ [⟨name, firstByte p.cur.value, "", ""⟩])
        ruleLoop fuel p.next left { rule with rhs := rp } rp res ids
      | .identifier =>
        let rp := rp ++ [⟨1, p.cur.value⟩]
        ruleLoop fuel p.next left { rule with rhs := rp } rp res ids
      | .actionQuote =>
        let rp := rp ++ [⟨2, p.cur.value⟩]
        ruleLoop fuel p.next left { rule with rhs := rp } rp res ids
      | .ruleOr =>
        ruleLoop fuel p.next left { lhs := left } [] (res ++ [rule]) ids
      | .precDir =>
        let p := p.next
        if p.is .identifier then
          ruleLoop fuel p.next left { rule with precSym := p.cur.value, rhs := rp } rp res ids
        else if p.is .charater then
          ruleLoop fuel p.next left { rule with precSym := opName p.cur.value, rhs := rp } rp res ids
        else ⟨p, none, []⟩            -- `return nil`: the pending token definitions are dropped
      | _ => ⟨p, some (res ++ [rule]), ids⟩

def parseRule (fuel : Nat) (p : P) : RR :=
  if p.is .identifier then
    let left := p.cur.value
    let p := p.next.expect .ruleDefine
    ruleLoop fuel p left { lhs := left } [] [] []
  else ⟨p.backup, none, []⟩

def rulesLoop : Nat → P → List RuleDef → List (List Ident) → P × List RuleDef × List (List Ident)
  | 0, p, rs, tds => (p, rs, tds)
  | fuel+1, p, rs, tds =>
    let r := parseRule fuel p
    match r.rules with
    | none => (r.p, rs, tds)
    | some l => rulesLoop fuel r.p (rs ++ l) (if r.ids.isEmpty then tds else tds ++ [r.ids])

structure Root where
  decl : Decl
  rules : List RuleDef
  rest : String

def parse (src : String) : Option Root :=
  let (toks, _) := lexAll src
  let fuel := 2 * toks.size + 10
  let p : P := { toks := toks, inputLen := src.length }
  match declLoop fuel p.next {} with
  | none => none
  | some (p, d) =>
    if !p.is .section then none
    else
      let (p, rs, tds) := rulesLoop fuel p.next [] []
      if !p.is .section && !p.is .eof then none
      else some { decl := { d with tokDefs := d.tokDefs ++ tds }, rules := rs,
                  rest := String.ofList (src.toList.drop p.cur.endAt) }

end YParse
