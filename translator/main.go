// tiny Go -> Lean translator for loop-free decision functions over *Action
package main

import (
	"fmt"
	"go/ast"
	"go/parser"
	"go/token"
	"os"
	"strings"
)

var consts = map[string]int{}

func collectConsts(f *ast.File, prefix string) {
	for _, d := range f.Decls {
		gd, ok := d.(*ast.GenDecl)
		if !ok || gd.Tok != token.CONST {
			continue
		}
		iota := 0
		isIota := false
		for _, sp := range gd.Specs {
			vs := sp.(*ast.ValueSpec)
			if len(vs.Values) == 1 {
				if id, ok := vs.Values[0].(*ast.Ident); ok && id.Name == "iota" {
					isIota = true
				} else {
					isIota = false
				}
			}
			if isIota {
				for _, n := range vs.Names {
					consts[prefix+n.Name] = iota
				}
			}
			iota++
		}
	}
}

func lname(s string) string { return strings.ToLower(s[:1]) + s[1:] }

func expr(e ast.Expr) string {
	switch x := e.(type) {
	case *ast.Ident:
		if v, ok := consts[x.Name]; ok {
			return fmt.Sprint(v)
		}
		return x.Name
	case *ast.BasicLit:
		return x.Value
	case *ast.ParenExpr:
		return "(" + expr(x.X) + ")"
	case *ast.SelectorExpr:
		if id, ok := x.X.(*ast.Ident); ok {
			if v, ok := consts[id.Name+"."+x.Sel.Name]; ok {
				return fmt.Sprint(v)
			}
		}
		return expr(x.X) + "." + lname(x.Sel.Name)
	case *ast.UnaryExpr:
		if x.Op == token.SUB {
			return "(-" + expr(x.X) + ")"
		}
		if x.Op == token.AND {
			return expr(x.X)
		}
	case *ast.BinaryExpr:
		op := map[token.Token]string{token.EQL: "=", token.NEQ: "≠", token.GTR: ">", token.LSS: "<", token.GEQ: "≥", token.LEQ: "≤", token.LAND: "∧", token.LOR: "∨"}[x.Op]
		if op == "" {
			panic("unsupported op " + x.Op.String())
		}
		return "(" + expr(x.X) + " " + op + " " + expr(x.Y) + ")"
	case *ast.CompositeLit:
		var fs []string
		for _, el := range x.Elts {
			kv := el.(*ast.KeyValueExpr)
			k := kv.Key.(*ast.Ident).Name
			if k == "Sym" {
				continue
			}
			fs = append(fs, lname(k)+" := "+expr(kv.Value))
		}
		return "{ " + strings.Join(fs, ", ") + " : Action }"
	}
	panic(fmt.Sprintf("unsupported expr %T", e))
}

// translate statement list with continuation duplication; two result shapes
func stmts(list []ast.Stmt, ind string, twoResults bool) string {
	if len(list) == 0 {
		panic("function may fall off its end")
	}
	s, rest := list[0], list[1:]
	switch x := s.(type) {
	case *ast.ReturnStmt:
		if twoResults {
			if id, ok := x.Results[0].(*ast.Ident); ok && id.Name == "nil" {
				return ind + ".error ()"
			}
			return ind + ".ok " + expr(x.Results[0])
		}
		return ind + expr(x.Results[0])
	case *ast.AssignStmt:
		if len(x.Lhs) != len(x.Rhs) || (x.Tok != token.ASSIGN && x.Tok != token.DEFINE) {
			panic("unsupported assignment form")
		}
		out := ""
		if len(x.Lhs) == 1 {
			out += ind + "let " + expr(x.Lhs[0]) + " := " + expr(x.Rhs[0]) + "\n"
		} else {
			// Go evaluates every right-hand side before it assigns: bind them to temporaries first
			for i := range x.Rhs {
				out += ind + fmt.Sprintf("let tmp%d_ := ", i) + expr(x.Rhs[i]) + "\n"
			}
			for i := range x.Lhs {
				out += ind + "let " + expr(x.Lhs[i]) + fmt.Sprintf(" := tmp%d_\n", i)
			}
		}
		return out + stmts(rest, ind, twoResults)
	case *ast.SwitchStmt:
		// a tag-less `switch { case c1: …; case c2: …; default: … }` is an if-chain; no case falls through
		if x.Init != nil || x.Tag != nil {
			panic("unsupported switch form (tag or init statement)")
		}
		var dflt []ast.Stmt
		haveDefault := false
		type arm struct {
			cond ast.Expr
			body []ast.Stmt
		}
		var arms []arm
		for _, cs := range x.Body.List {
			cc := cs.(*ast.CaseClause)
			for _, st := range cc.Body {
				if br, ok := st.(*ast.BranchStmt); ok {
					panic("unsupported branch statement in switch: " + br.Tok.String())
				}
			}
			if cc.List == nil {
				if len(arms) != len(x.Body.List)-1 {
					panic("default clause must be the last one")
				}
				dflt, haveDefault = cc.Body, true
				continue
			}
			var cond ast.Expr = cc.List[0]
			for _, e := range cc.List[1:] {
				cond = &ast.BinaryExpr{X: cond, Op: token.LOR, Y: e}
			}
			arms = append(arms, arm{cond, cc.Body})
		}
		var build func(i int, ind string) string
		build = func(i int, ind string) string {
			if i == len(arms) {
				if haveDefault {
					return stmts(append(append([]ast.Stmt{}, dflt...), rest...), ind, twoResults)
				}
				return stmts(rest, ind, twoResults)
			}
			body := append(append([]ast.Stmt{}, arms[i].body...), rest...)
			return ind + "if " + expr(arms[i].cond) + " then\n" + stmts(body, ind+"  ", twoResults) + "\n" + ind + "else\n" + build(i+1, ind+"  ")
		}
		return build(0, ind)
	case *ast.IfStmt:
		thenB := append(append([]ast.Stmt{}, x.Body.List...), rest...)
		var elseB []ast.Stmt
		switch e := x.Else.(type) {
		case nil:
			elseB = rest
		case *ast.BlockStmt:
			elseB = append(append([]ast.Stmt{}, e.List...), rest...)
		case *ast.IfStmt:
			elseB = append([]ast.Stmt{e}, rest...)
		}
		return ind + "if " + expr(x.Cond) + " then\n" + stmts(thenB, ind+"  ", twoResults) + "\n" + ind + "else\n" + stmts(elseB, ind+"  ", twoResults)
	}
	panic(fmt.Sprintf("unsupported stmt %T", s))
}

// usage: ytranslate <repo> <outdir>.  Each generated file is produced independently; a file that
// cannot be regenerated is REMOVED (so every proof that imports it breaks) and reported as
// "FAILED <file>: reason"; the exit status is non-zero if any file failed.
func main() {
	repo, outdir := os.Args[1], os.Args[2]
	failed := false
	run := func(name string, f func()) {
		defer func() {
			if e := recover(); e != nil {
				fmt.Printf("FAILED %s: unsupported construct (failing closed): %v\n", name, e)
				os.Remove(outdir + "/" + name + ".lean")
				failed = true
			}
		}()
		f()
	}
	run("Resolve", func() { genResolve(repo, outdir) })
	run("Facts", func() { genFacts(repo, outdir) })
	run("Action", func() { genAction(repo, outdir) })
	run("Driver", func() { genDriver(repo, outdir) })
	run("TsDriver", func() { genTsDriver(repo, outdir) })
	if failed {
		os.Exit(1)
	}
}

func genResolve(repo, outdir string) {
	fset := token.NewFileSet()
	sym, err := parser.ParseFile(fset, repo+"/Symbol/symbol.go", nil, 0)
	if err != nil {
		panic(err)
	}
	collectConsts(sym, "symbol.")
	tab, err := parser.ParseFile(fset, repo+"/LALR/Table.go", nil, 0)
	if err != nil {
		panic(err)
	}
	collectConsts(tab, "")
	var sb strings.Builder
	sb.WriteString("-- GENERATED from LALR/Table.go and Symbol/symbol.go; do not edit\nnamespace Gen\n\nstructure Action where\n  actionType : Int\n  actionIndex : Int\n  precType : Int\n  prec : Int\nderiving DecidableEq, Repr\n\n")
	for _, k := range []string{"SHIFT", "REDUCE", "ERROR", "symbol.LEFT", "symbol.RIGHT", "symbol.NONE"} {
		fmt.Fprintf(&sb, "def %s : Int := %d\n", strings.ReplaceAll(k, "symbol.", ""), consts[k])
	}
	sb.WriteString("\n")
	for _, d := range tab.Decls {
		fd, ok := d.(*ast.FuncDecl)
		if !ok {
			continue
		}
		switch fd.Name.Name {
		case "ResolveConflict":
			sb.WriteString("def resolveConflict (" + paramNames(fd) + " : Action) : Except Unit Action :=\n" + stmts(fd.Body.List, "  ", true) + "\n\n")
		case "UseDefaultResolveConflict":
			sb.WriteString("def useDefaultResolveConflict (" + paramNames(fd) + " : Action) : Action :=\n" + stmts(fd.Body.List, "  ", false) + "\n\n")
		}
	}
	sb.WriteString("end Gen\n")
	writeIfChanged(outdir+"/Resolve.lean", sb.String())
}

// paramNames: the two *Action parameters of a resolution function, as declared
func paramNames(fd *ast.FuncDecl) string {
	var names []string
	for _, f := range fd.Type.Params.List {
		for _, n := range f.Names {
			names = append(names, n.Name)
		}
	}
	if len(names) != 2 {
		panic("resolution function must have two parameters")
	}
	return strings.Join(names, " ")
}

// writeIfChanged keeps the file's mtime when nothing changed so that lake does not rebuild.
func writeIfChanged(path, content string) {
	if old, err := os.ReadFile(path); err == nil && string(old) == content {
		return
	}
	if err := os.WriteFile(path, []byte(content), 0644); err != nil {
		panic(err)
	}
}
