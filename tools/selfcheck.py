#!/usr/bin/env python3
"""Consistency of MANIFEST.json, evidence files and schemas (run before `vp check`)."""
import json, sys, os
sys.path.insert(0, "/opt/veriftools/pyvenv/lib/python3.11/site-packages")
try:
    import jsonschema
except Exception:
    jsonschema = None
m = json.load(open("/verif/MANIFEST.json"))
bad = 0
if jsonschema:
    jsonschema.validate(m, json.load(open("/root/.vp/MANIFEST.schema.json")))
    es = json.load(open("/root/.vp/EVIDENCE.schema.json"))
for c in m["checks"]:
    f = os.path.join("/verif", c["evidence_file"])
    if not os.path.exists(f):
        print("missing evidence", c["property_id"]); bad += 1; continue
    e = json.load(open(f))
    if jsonschema:
        try:
            jsonschema.validate(e, es)
        except Exception as ex:
            print("invalid evidence", c["property_id"], str(ex)[:200]); bad += 1
    if e["level"] != c["level_claimed"]["category"]:
        print("level mismatch", c["property_id"], e["level"], c["level_claimed"]["category"]); bad += 1
    if e["level"] == "proof" and e["coverage"].get("obligations") != e["coverage"].get("discharged"):
        print("undischarged", c["property_id"]); bad += 1
    if e.get("violations"):
        print("violations recorded", c["property_id"], e["violations"]); bad += 1
print("selfcheck:", "OK" if not bad else "%d problems" % bad)
sys.exit(1 if bad else 0)
