//go:build verif

package main

import (
	"bufio"
	"encoding/hex"
	"fmt"
	"os"
	"sort"

	builder "github.com/acekingke/yaccgo/Builder"
	parser "github.com/acekingke/yaccgo/Parser"
	utils "github.com/acekingke/yaccgo/Utils"
)

// cmdEmit: per grammar, the data the emitters of the constant block, the table text, the translate
// switch and the two trace tables read (sorted identifier table, symbols, dense rows, packed arrays,
// action codes, rule names) and the text they produce (Go with the packed table, Go with the plain
// table, TypeScript).
func cmdEmit() {
	w := bufio.NewWriterSize(realStdout, 1<<20)
	defer w.Flush()
	h := func(s string) string {
		if s == "" {
			return "-"
		}
		return hex.EncodeToString([]byte(s))
	}
	readCases(os.Stdin, func(c Case) {
		fmt.Fprintf(w, "ECASE %s\n", c.ID)
		defer fmt.Fprintf(w, "EEND\n")
		wk, _, cls, msg := build(c.Src)
		if wk == nil {
			fmt.Fprintf(w, "REFUSE %s %s\n", cls, oneLine(msg))
			return
		}
		v := wk.VistorNode.(*parser.RootVistor)
		for _, id := range v.SortedIdsymtabl() {
			t := 0
			if id.IDTyp == parser.TERMID {
				t = 1
			}
			fmt.Fprintf(w, "EID %s %d %d\n", h(id.Name), t, id.Value)
		}
		for _, s := range v.G.Symbols {
			nt := 0
			if s.IsNonTerminator {
				nt = 1
			}
			fmt.Fprintf(w, "ESYM %d %d %d %s\n", s.ID, nt, s.Value, h(s.Name))
		}
		for i, r := range v.GTable {
			fmt.Fprintf(w, "EROW %d %s\n", i, ints(r))
		}
		need := 0
		if v.NeedPacked {
			need = 1
		}
		fmt.Fprintf(w, "ENEED %d\n", need)
		fmt.Fprintf(w, "EARR act %s\n", ints(v.ActionTable))
		fmt.Fprintf(w, "EARR off %s\n", ints(v.OffsetTable))
		fmt.Fprintf(w, "EARR check %s\n", ints(v.CheckTable))
		fmt.Fprintf(w, "EARR actdef %s\n", ints(v.ActionDef))
		fmt.Fprintf(w, "EARR gotodef %s\n", ints(v.GoToDef))
		fmt.Fprintf(w, "ECODES %d %d\n", v.GenErrorCode(), v.GenAcceptCode())
		for i, r := range v.VerifRules() {
			fmt.Fprintf(w, "ERULE %d %s %d", i+1, h(r.Left), len(r.Right))
			for _, s := range r.Right {
				fmt.Fprintf(w, " %s", h(s))
			}
			fmt.Fprintf(w, "\n")
		}
		emit := func(variant string, pack bool, f func() map[string]string) {
			var m map[string]string
			old := utils.PackFlags
			utils.PackFlags = pack
			_, pv := capture(func() { m = f() })
			utils.PackFlags = old
			if pv != nil {
				fmt.Fprintf(w, "EP %s PANIC\n", variant)
				return
			}
			keys := []string{}
			for k := range m {
				keys = append(keys, k)
			}
			sort.Strings(keys)
			for _, k := range keys {
				fmt.Fprintf(w, "EP %s %s %s\n", variant, k, h(m[k]))
			}
		}
		emit("gop", true, func() map[string]string { return builder.VerifPartsGo(wk) })
		emit("god", false, func() map[string]string { return builder.VerifPartsGo(wk) })
		emit("ts", true, func() map[string]string { return builder.VerifPartsTs(wk) })
	})
}
