-- GENERATED from /repo by the translator (go/packages); do not edit
import Yv.Spec.GenOps
namespace Gen
open GenOps

/-- every `range` over a map in non-test code: (package, function, ranged field or, for a local, its map type) -/
def mapRangeSites : List (String × String × String) := [
  ("grammar", "*Grammar.CalculateCanTerminate", "field VnSet"),
  ("lalr", "*LALR1.CaclIncludes", "field DRSet"),
  ("lalr", "*LALR1.CalcAllReadRelations", "field DRSet"),
  ("lalr", "*LALR1.CalcFollowSet", "field ReadSet"),
  ("lalr", "*LALR1.CalcLookbacks", "field DRSet"),
  ("lalr", "*LALR1.CalcReadSet", "field DRSet"),
  ("lalr", "*LALR1.CheckAndResolveConflict", "map[int][]*lalr.Action"),
  ("lalr", "*LALR1.GenTable", "map[int][]*lalr.Action"),
  ("lalr", "*LALR1.ShowDrSet", "field DRSet"),
  ("lalr", "*LALR1.ShowFollowSet", "field FollowSet"),
  ("lalr", "*LALR1.ShowLookAheadSet", "field LookAheadSet"),
  ("lalr", "*LALR1.ShowReadSet", "field ReadSet"),
  ("parser", "sortedIds", "map[string]*parser.Idendity"),
  ("utils", "PackTable", "map[int][]int")
]

/-- calls made by TemplateGenFromString, in source order -/
def calls_TemplateGenFromString : List String := ["parser.ParseAndBuild(input)", "fmt.Errorf(\"parse error: %s\", err)", "NewTemplateBuilder(w)", "b.buildConstPart()", "b.buildUionAndCode()", "b.buildAnalyTable()", "b.buildStateFunc()", "b.buildReduceFunc()", "b.buildTranslate()", "os.Create(file)", "fmt.Errorf(\"create file error: %s\", err)", "b.WriteFile(f)"]

def ops_TemplateGenFromString : List Op := [.fallible, .other, .fallible, .fallible, .fallible, .fallible, .fallible, .fallible, .fallible, .fallible, .fallible, .fallible, .fallible, .fallible, .fallible, .fallible, .fallible, .fallible, .fallible, .fallible, .fallible, .fallible, .fallible, .fallible, .fallible, .fallible, .fallible, .fallible, .fallible, .fallible, .fallible, .fallible, .fallible, .fallible, .fallible, .fallible, .fallible, .fallible, .fallible, .fallible, .fallible, .fallible, .fallible, .fallible, .fallible, .fallible, .fallible, .fallible, .fallible, .fallible, .create, .other, .other, .other, .other, .other, .write true, .other]

/-- calls made by TsGenFromString, in source order -/
def calls_TsGenFromString : List String := ["parser.ParseAndBuild(input)", "fmt.Errorf(\"parse error: %s\", err)", "NewTsBuilder(w)", "b.buildConstPart()", "b.buildUionAndCode()", "b.buildAnalyTable()", "b.buildStateFunc()", "b.buildReduceFunc()", "b.buildTranslate()", "os.Create(file)", "fmt.Errorf(\"create file error: %s\", err)", "f.WriteString(b.CodeHeader)", "f.WriteString(b.ConstPart)", "f.WriteString(b.UnionPart)", "f.WriteString(b.AnalyTable)", "f.WriteString(b.StateFunc)", "f.WriteString(b.ReduceFunc)", "f.WriteString(b.Translate)", "f.WriteString(b.CodeLast)", "f.Close()"]

def ops_TsGenFromString : List Op := [.fallible, .other, .fallible, .fallible, .fallible, .fallible, .fallible, .fallible, .fallible, .fallible, .fallible, .fallible, .fallible, .fallible, .fallible, .fallible, .fallible, .fallible, .fallible, .fallible, .fallible, .fallible, .fallible, .fallible, .fallible, .fallible, .fallible, .fallible, .fallible, .fallible, .fallible, .fallible, .fallible, .fallible, .fallible, .fallible, .fallible, .fallible, .create, .other, .write false, .write false, .write false, .write false, .write false, .write false, .write false, .write true, .other]

/-- calls made by WriteFile, in source order -/
def calls_WriteFile : List String := ["template.New(\"gotemplate\").Parse(chooseTemplate)", "template.New(\"gotemplate\")", "panic(err)", "f.Close()", "templ.Execute(f, b)", "panic(err)"]

def templ_goCode_same_as_go_string : Bool := true
def templ_goCode_ends_with_epilogue : Bool := true

def templ_goObject_same_as_go_string : Bool := true
def templ_goObject_ends_with_epilogue : Bool := true

end Gen
