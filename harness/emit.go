//go:build verif

package main

import (
	"bufio"
	"encoding/hex"
	"fmt"
	"os"
	"reflect"
	"sort"

	builder "github.com/acekingke/yaccgo/Builder"
	parser "github.com/acekingke/yaccgo/Parser"
	utils "github.com/acekingke/yaccgo/Utils"
)

// cmdEmit: per grammar, the data the emitters of the constant block, the table text, the translate
// switch and the two trace tables read (sorted identifier table, symbols, dense rows, packed arrays,
// action codes, rule names) and the text they produce (Go with the packed table, Go with the plain
// table, TypeScript).
func cmdEmit() {
	w := bufio.NewWriterSize(realStdout, 1<<20)
	defer w.Flush()
	h := func(s string) string {
		if s == "" {
			return "-"
		}
		return hex.EncodeToString([]byte(s))
	}
	readCases(os.Stdin, func(c Case) {
		fmt.Fprintf(w, "ECASE %s\n", c.ID)
		defer fmt.Fprintf(w, "EEND\n")
		wk, _, cls, msg := build(c.Src)
		if wk == nil {
			fmt.Fprintf(w, "REFUSE %s %s\n", cls, oneLine(msg))
			return
		}
		v := wk.VistorNode.(*parser.RootVistor)
		for _, id := range sortedIdRecs(v) {
			fmt.Fprintf(w, "EID %s %d %d\n", h(id.name), id.term, id.value)
		}
		for _, s := range v.G.Symbols {
			nt := 0
			if s.IsNonTerminator {
				nt = 1
			}
			fmt.Fprintf(w, "ESYM %d %d %d %s\n", s.ID, nt, s.Value, h(s.Name))
		}
		for i, r := range v.GTable {
			fmt.Fprintf(w, "EROW %d %s\n", i, ints(r))
		}
		need := 0
		if v.NeedPacked {
			need = 1
		}
		fmt.Fprintf(w, "ENEED %d\n", need)
		fmt.Fprintf(w, "EARR act %s\n", ints(v.ActionTable))
		fmt.Fprintf(w, "EARR off %s\n", ints(v.OffsetTable))
		fmt.Fprintf(w, "EARR check %s\n", ints(v.CheckTable))
		fmt.Fprintf(w, "EARR actdef %s\n", ints(v.ActionDef))
		fmt.Fprintf(w, "EARR gotodef %s\n", ints(v.GoToDef))
		fmt.Fprintf(w, "ECODES %d %d\n", v.GenErrorCode(), v.GenAcceptCode())
		for i, r := range v.VerifRules() {
			fmt.Fprintf(w, "ERULE %d %s %d", i+1, h(r.Left), len(r.Right))
			for _, s := range r.Right {
				fmt.Fprintf(w, " %s", h(s))
			}
			fmt.Fprintf(w, "\n")
		}
		emit := func(variant string, pack bool, f func() map[string]string) {
			var m map[string]string
			old := utils.PackFlags
			utils.PackFlags = pack
			_, pv := capture(func() { m = f() })
			utils.PackFlags = old
			if pv != nil {
				fmt.Fprintf(w, "EP %s PANIC\n", variant)
				return
			}
			keys := []string{}
			for k := range m {
				keys = append(keys, k)
			}
			sort.Strings(keys)
			for _, k := range keys {
				fmt.Fprintf(w, "EP %s %s %s\n", variant, k, h(m[k]))
			}
		}
		emit("gop", true, func() map[string]string { return builder.VerifPartsGo(wk) })
		emit("god", false, func() map[string]string { return builder.VerifPartsGo(wk) })
		emit("ts", true, func() map[string]string { return builder.VerifPartsTs(wk) })
	})
}

type idRec struct {
	name  string
	term  int
	value int
}

// sortedIdRecs: the identifier table in the order the emitters walk it.  The accessor is looked up by name so that the
// harness also builds against a tree that does not have it (then: the terminals of the grammar by name — the emitters of
// such a tree walk a map, whose order is not defined anyway).
func sortedIdRecs(v *parser.RootVistor) []idRec {
	var out []idRec
	if m := reflect.ValueOf(v).MethodByName("SortedIdsymtabl"); m.IsValid() && m.Type().NumIn() == 0 && m.Type().NumOut() == 1 {
		l := m.Call(nil)[0]
		for i := 0; i < l.Len(); i++ {
			e := reflect.Indirect(l.Index(i))
			t := 0
			if int(e.FieldByName("IDTyp").Int()) == int(parser.TERMID) {
				t = 1
			}
			out = append(out, idRec{e.FieldByName("Name").String(), t, int(e.FieldByName("Value").Int())})
		}
		return out
	}
	for _, sy := range v.G.Symbols {
		if !sy.IsNonTerminator && sy.Name != "$" {
			out = append(out, idRec{sy.Name, 1, sy.Value})
		}
	}
	sort.Slice(out, func(i, j int) bool { return out[i].name < out[j].name })
	return out
}
