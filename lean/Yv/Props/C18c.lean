import Yv.Props.C18b
import Yv.Model.ListingSets
/-! # C18 (text half, remaining sections) — the transition / direct-read / read / follow sections of
    `yaccgo debug` show exactly their entries

`setLineStr` / `followLineStr` / `trShiftStr` (Yv/Model/ListingSets.lean) are the lines of the sections
`Show Direct Read SET`, `Show Reads SET`, `Show FollowSet SET` and `SHOW TRANS`.

* `set_line_injective` — a line `q--name--> [x y  ]` determines the state, the symbol and the list of
  elements.  Hypotheses on the spellings: injective, no blank in a name.  (No condition on `-`, `>`, `[`,
  `]`: the digits of the state end at the first `-`, exactly two `-` follow, the name with `-->` ends at the
  first blank, every element is closed by a blank and the closing ` ]` is cut from the right.)
* `follow_line_injective` — the same for `q--name--> [x y]`; here the names must also be nonempty (to tell
  `[]` from the one-element list of an empty name).
* `C18_listing_sets`, `C18_listing_follow` — one line per entry; the line of `(q, a, s)` is in the section
  iff `(q, a, s)` is an entry.
* `C18_listing_trans` — one line per transition, each the line of an entry; `tr_shift_injective` — the
  line of a shift / goto transition determines the state and the symbol (injective spellings only). -/
namespace Y.Props
open Y

/-! ## characters -/

/-- the characters of `setStr` -/
def setL (names : Nat → String) : List Sym → List Char
  | [] => []
  | a :: as => (names a).toList ++ ' ' :: setL names as

/-- the characters of `joinStr` -/
def joinL (names : Nat → String) : List Sym → List Char
  | [] => []
  | a :: as => (names a).toList ++ laL names as

theorem setStr_toList (names : Nat → String) : ∀ xs, (setStr names xs).toList = setL names xs := by
  intro xs
  induction xs with
  | nil => rfl
  | cons x xs ih =>
    rw [setStr, setL, String.toList_append, String.toList_append, ih, blank_toList]
    simp

theorem joinStr_cons_toList (names : Nat → String) :
    ∀ xs x, (joinStr names (x :: xs)).toList = (names x).toList ++ laL names xs := by
  intro xs
  induction xs with
  | nil => intro x; simp [joinStr, laL]
  | cons y ys ih =>
    intro x
    have e : joinStr names (x :: y :: ys) = names x ++ " " ++ joinStr names (y :: ys) := rfl
    rw [e, String.toList_append, String.toList_append, ih y, blank_toList, laL]
    simp

theorem joinStr_toList (names : Nat → String) : ∀ xs, (joinStr names xs).toList = joinL names xs := by
  intro xs
  cases xs with
  | nil => rfl
  | cons x xs => rw [joinStr_cons_toList, joinL]

theorem digits_nd (n : Nat) : ∀ c ∈ Nat.toDigits 10 n, ¬ c = '-' := by
  intro c hc e
  subst e
  have := Nat.isDigit_of_mem_toDigits (by decide) (by decide) hc
  exact absurd this (by decide)

theorem setL_inj (names : Nat → String) (hinj : ∀ a b, names a = names b → a = b)
    (hnb : ∀ x, ∀ c ∈ (names x).toList, ¬ c = ' ') :
    ∀ (xs ys : List Sym), setL names xs = setL names ys → xs = ys := by
  intro xs
  induction xs with
  | nil =>
    intro ys h
    cases ys with
    | nil => rfl
    | cons y ys =>
      have := congrArg List.length h
      simp [setL] at this
  | cons x xs ih =>
    intro ys h
    cases ys with
    | nil =>
      have := congrArg List.length h
      simp [setL] at this
    | cons y ys =>
      simp only [setL] at h
      obtain ⟨hn, ht⟩ := split_sep (· = ' ') _ _ _ _ (hnb x) (hnb y) (by simp) (by simp) h
      rw [hinj _ _ (String.toList_inj.1 hn), ih ys (List.cons.inj ht).2]

theorem joinL_inj (names : Nat → String) (hinj : ∀ a b, names a = names b → a = b)
    (hnb : ∀ x, ∀ c ∈ (names x).toList, ¬ c = ' ') (hne : ∀ x, names x ≠ "") :
    ∀ (xs ys : List Sym), joinL names xs = joinL names ys → xs = ys := by
  have ne : ∀ x, (names x).toList ≠ [] := by
    intro x h
    exact hne x (String.toList_inj.1 h)
  intro xs ys h
  cases xs with
  | nil =>
    cases ys with
    | nil => rfl
    | cons y ys =>
      simp only [joinL] at h
      exact absurd (List.append_eq_nil_iff.1 h.symm).1 (ne y)
  | cons x xs =>
    cases ys with
    | nil =>
      simp only [joinL] at h
      exact absurd (List.append_eq_nil_iff.1 h).1 (ne x)
    | cons y ys =>
      simp only [joinL] at h
      obtain ⟨hn, ht⟩ := split_sep (· = ' ') _ _ _ _ (hnb x) (hnb y) (laL_head _ _) (laL_head _ _) h
      rw [hinj _ _ (String.toList_inj.1 hn), laL_inj names hinj hnb _ _ ht]

/-! ## the lines -/

theorem dashes_toList : "--".toList = ['-', '-'] := by decide
theorem arrowbr_toList : "--> [".toList = ['-', '-', '>', ' ', '['] := by decide
theorem closeS_toList : " ]".toList = [' ', ']'] := by decide
theorem closeF_toList : "]".toList = [']'] := by decide

theorem setLineStr_toList (names : Nat → String) (q : Nat) (a : Sym) (s : List Sym) :
    (setLineStr names q a s).toList = Nat.toDigits 10 q ++ ('-' :: '-' :: ((names a).toList ++
      ('-' :: '-' :: '>' :: ' ' :: '[' :: (setL names s ++ [' ', ']'])))) := by
  unfold setLineStr
  rw [String.toList_append, String.toList_append, String.toList_append, String.toList_append,
    String.toList_append, setStr_toList, Nat.toString_eq_repr, Nat.toList_repr,
    dashes_toList, arrowbr_toList, closeS_toList]
  simp

theorem followLineStr_toList (names : Nat → String) (q : Nat) (a : Sym) (s : List Sym) :
    (followLineStr names q a s).toList = Nat.toDigits 10 q ++ ('-' :: '-' :: ((names a).toList ++
      ('-' :: '-' :: '>' :: ' ' :: '[' :: (joinL names s ++ [']'])))) := by
  unfold followLineStr
  rw [String.toList_append, String.toList_append, String.toList_append, String.toList_append,
    String.toList_append, joinStr_toList, Nat.toString_eq_repr, Nat.toList_repr,
    dashes_toList, arrowbr_toList, closeF_toList]
  simp

/-- the common frame `q--name--> [` + body: the state, the symbol and the body are determined
    (digits up to the first `-`, two `-`, the name with `-->` up to the first blank) -/
theorem frame_inj (names : Nat → String) (hinj : ∀ a b, names a = names b → a = b)
    (hnb : ∀ x, ∀ c ∈ (names x).toList, ¬ c = ' ') (q q' : Nat) (a a' : Sym) (u u' : List Char)
    (h : Nat.toDigits 10 q ++ ('-' :: '-' :: ((names a).toList ++
          ('-' :: '-' :: '>' :: ' ' :: '[' :: u))) =
        Nat.toDigits 10 q' ++ ('-' :: '-' :: ((names a').toList ++
          ('-' :: '-' :: '>' :: ' ' :: '[' :: u')))) :
    q = q' ∧ a = a' ∧ u = u' := by
  obtain ⟨hq, ht⟩ := split_sep (· = '-') _ _ _ _ (digits_nd q) (digits_nd q') (by simp) (by simp) h
  have ht := (List.cons.inj (List.cons.inj ht).2).2
  have l3 : ∀ c ∈ ['-', '-', '>'], ¬ c = ' ' := by decide
  have h' : ((names a).toList ++ ['-', '-', '>']) ++ (' ' :: '[' :: u) =
      ((names a').toList ++ ['-', '-', '>']) ++ (' ' :: '[' :: u') := by
    simpa using ht
  obtain ⟨hl, hr⟩ := split_sep (· = ' ') _ _ _ _ (nb_app _ _ (hnb _) l3) (nb_app _ _ (hnb _) l3)
    (by simp) (by simp) h'
  exact ⟨toDigits_inj _ _ hq, hinj _ _ (String.toList_inj.1 (List.append_cancel_right hl)),
    (List.cons.inj (List.cons.inj hr).2).2⟩

/-- a line of the direct-read / read section determines the state, the symbol and the list of elements
    — for spellings that are injective and contain no blank -/
theorem set_line_injective (names : Nat → String)
    (hinj : ∀ a b, names a = names b → a = b)
    (hnb : ∀ x, ∀ c ∈ (names x).toList, ¬ c = ' ')
    (q q' : Nat) (a a' : Sym) (s s' : List Sym)
    (h : setLineStr names q a s = setLineStr names q' a' s') : q = q' ∧ a = a' ∧ s = s' := by
  have h1 := congrArg String.toList h
  rw [setLineStr_toList, setLineStr_toList] at h1
  obtain ⟨hq, ha, hu⟩ := frame_inj names hinj hnb q q' a a' _ _ h1
  exact ⟨hq, ha, setL_inj names hinj hnb _ _ (List.append_cancel_right hu)⟩

/-- a line of the follow section determines the state, the symbol and the list of elements — for
    spellings that are injective, contain no blank and are nonempty -/
theorem follow_line_injective (names : Nat → String)
    (hinj : ∀ a b, names a = names b → a = b)
    (hnb : ∀ x, ∀ c ∈ (names x).toList, ¬ c = ' ')
    (hne : ∀ x, names x ≠ "")
    (q q' : Nat) (a a' : Sym) (s s' : List Sym)
    (h : followLineStr names q a s = followLineStr names q' a' s') : q = q' ∧ a = a' ∧ s = s' := by
  have h1 := congrArg String.toList h
  rw [followLineStr_toList, followLineStr_toList] at h1
  obtain ⟨hq, ha, hu⟩ := frame_inj names hinj hnb q q' a a' _ _ h1
  exact ⟨hq, ha, joinL_inj names hinj hnb hne _ _ (List.append_cancel_right hu)⟩

/-- **C18, direct-read / read section.**  The section printed for the entries `L` (in whatever order)
    consists of exactly one line per entry, and the line of `(q, a, s)` is in the section iff
    `(q, a, s)` is an entry: nothing extra, nothing missing. -/
theorem C18_listing_sets (names : Nat → String)
    (hinj : ∀ a b, names a = names b → a = b)
    (hnb : ∀ x, ∀ c ∈ (names x).toList, ¬ c = ' ')
    (L : List (Nat × Sym × List Sym)) :
    (setView names L).length = L.length ∧
    (∀ q a s, setLineStr names q a s ∈ setView names L ↔ (q, a, s) ∈ L) := by
  refine ⟨by simp [setView], ?_⟩
  intro q a s
  unfold setView
  rw [List.mem_map]
  constructor
  · rintro ⟨⟨q', a', s'⟩, he, hl⟩
    obtain ⟨h1, h2, h3⟩ := set_line_injective names hinj hnb q' q a' a s' s hl
    rw [← h1, ← h2, ← h3]; exact he
  · intro he; exact ⟨(q, a, s), he, rfl⟩

/-- **C18, follow section.**  The same for the follow section (nonempty spellings). -/
theorem C18_listing_follow (names : Nat → String)
    (hinj : ∀ a b, names a = names b → a = b)
    (hnb : ∀ x, ∀ c ∈ (names x).toList, ¬ c = ' ')
    (hne : ∀ x, names x ≠ "")
    (L : List (Nat × Sym × List Sym)) :
    (followView names L).length = L.length ∧
    (∀ q a s, followLineStr names q a s ∈ followView names L ↔ (q, a, s) ∈ L) := by
  refine ⟨by simp [followView], ?_⟩
  intro q a s
  unfold followView
  rw [List.mem_map]
  constructor
  · rintro ⟨⟨q', a', s'⟩, he, hl⟩
    obtain ⟨h1, h2, h3⟩ := follow_line_injective names hinj hnb hne q' q a' a s' s hl
    rw [← h1, ← h2, ← h3]; exact he
  · intro he; exact ⟨(q, a, s), he, rfl⟩

/-! ## the transition section -/

/-- **C18, transition section.**  One line per transition, each the line of an entry. -/
theorem C18_listing_trans (names : Nat → String) (G : Grammar) (L : List (Nat × Bool × Nat)) :
    (transView names G L).length = L.length ∧
    ∀ l, l ∈ transView names G L ↔ ∃ e ∈ L, l = trLineStr names G e := by
  refine ⟨by simp [transView], ?_⟩
  intro l
  unfold transView
  rw [List.mem_map]
  constructor
  · rintro ⟨e, he, hl⟩; exact ⟨e, he, hl.symm⟩
  · rintro ⟨e, he, hl⟩; exact ⟨e, he, hl.symm⟩

theorem trShiftStr_toList (names : Nat → String) (q : Nat) (a : Sym) :
    (trShiftStr names q a).toList = Nat.toDigits 10 q ++ (':' :: (names a).toList) := by
  unfold trShiftStr
  rw [String.toList_append, String.toList_append, Nat.toString_eq_repr, Nat.toList_repr, colon_toList]
  simp

/-- the line of a shift / goto transition determines the state and the symbol (the digits end at the
    first `:`; no condition on the characters of the names) -/
theorem tr_shift_injective (names : Nat → String) (hinj : ∀ a b, names a = names b → a = b)
    (q q' : Nat) (a a' : Sym) (h : trShiftStr names q a = trShiftStr names q' a') :
    q = q' ∧ a = a' := by
  have h1 := congrArg String.toList h
  rw [trShiftStr_toList, trShiftStr_toList] at h1
  obtain ⟨hq, ht⟩ := split_sep (· = ':') _ _ _ _ (digits_nc q) (digits_nc q') (by simp) (by simp) h1
  exact ⟨toDigits_inj _ _ hq, hinj _ _ (String.toList_inj.1 (List.cons.inj ht).2)⟩

/-- the line of a reduce transition is the prefix of the lookahead line of the same transition -/
theorem trReduceStr_prefix (names : Nat → String) (G : Grammar) (q r : Nat) (la : List Sym) :
    laLineStr names G q r la = trReduceStr names G q r ++ " : " ++ laStr names la := rfl

/-! ## Non-vacuity -/

/-- spellings of an expression grammar: `E`=0, `+`=1, `)`=2, `-x`=3, `]`=4 -/
def setNames (n : Nat) : String :=
  match n with
  | 0 => "E" | 1 => "+" | 2 => ")" | 3 => "-x" | 4 => "]" | n + 5 => "y" ++ toString n

example : setLineStr setNames 3 0 [1, 2] = "3--E--> [+ )  ]" := by decide
example : followLineStr setNames 3 0 [1, 2] = "3--E--> [+ )]" := by decide
example : setLineStr setNames 3 0 [] = "3--E--> [ ]" := by decide
example : followLineStr setNames 3 0 [] = "3--E--> []" := by decide
example : setLineStr setNames 12 3 [4] = "12---x--> []  ]" := by decide
example : followLineStr setNames 12 3 [4] = "12---x--> []]" := by decide

example : setView exNames [(0, 4, [2, 3]), (2, 4, [1]), (1, 4, [])] =
    ["0--S--> [a b  ]", "2--S--> [$end  ]", "1--S--> [ ]"] := by decide
example : followView exNames [(0, 4, [1, 2, 3]), (2, 4, [1]), (1, 4, [])] =
    ["0--S--> [$end a b]", "2--S--> [$end]", "1--S--> []"] := by decide
example : transView exNames exG [(0, false, 4), (3, true, 2), (4, true, 1)] =
    ["0:S", "3:S--> b ", "4:S--> a  S "] := by decide

/-- the hypotheses are satisfiable: the numbered spellings `s0, s1, …` -/
example :
    (∀ a b, numNames a = numNames b → a = b) ∧
    (∀ x, ∀ c ∈ (numNames x).toList, ¬ c = ' ') ∧
    (∀ x, numNames x ≠ "") := by
  refine ⟨?_, ?_, ?_⟩
  · intro a b h
    have := congrArg String.toList h
    rw [numNames_toList, numNames_toList] at this
    exact toDigits_inj _ _ (List.cons.inj this).2
  · intro x c hc e
    subst e
    rw [numNames_toList, List.mem_cons] at hc
    rcases hc with h | h
    · exact absurd h (by decide)
    · exact absurd (Nat.isDigit_of_mem_toDigits (by decide) (by decide) h) (by decide)
  · intro x h
    have := congrArg String.toList h
    rw [numNames_toList] at this
    exact absurd this (by simp)

/-! ## the reduce line and the whole transition line -/

theorem arrow_toList : "-->".toList = ['-', '-', '>'] := by decide

theorem trReduceStr_toList (names : Nat → String) (G : Grammar) (q r : Nat) :
    (trReduceStr names G q r).toList = Nat.toDigits 10 q ++ (':' :: ((names (G.lhsOf r)).toList ++
      ('-' :: '-' :: '>' :: symsL names (G.rhsOf r)))) := by
  unfold trReduceStr
  rw [String.toList_append, String.toList_append, String.toList_append, String.toList_append,
    symsStr_toList, Nat.toString_eq_repr, Nat.toList_repr, colon_toList, arrow_toList]
  simp

/-- the line of a reduce transition determines the state and the content of the rule (the digits end at
    the first `:`, the left-hand side with `-->` at the first blank or at the end of the line) — for
    spellings that are injective and contain no blank; no condition on `:` -/
theorem tr_reduce_injective (names : Nat → String) (G : Grammar)
    (hinj : ∀ a b, names a = names b → a = b)
    (hnb : ∀ x, ∀ c ∈ (names x).toList, ¬ c = ' ')
    (q q' r r' : Nat) (h : trReduceStr names G q r = trReduceStr names G q' r') :
    q = q' ∧ G.lhsOf r = G.lhsOf r' ∧ G.rhsOf r = G.rhsOf r' := by
  have h1 := congrArg String.toList h
  rw [trReduceStr_toList, trReduceStr_toList] at h1
  obtain ⟨hq, ht⟩ := split_sep (· = ':') _ _ _ _ (digits_nc q) (digits_nc q') (by simp) (by simp) h1
  have ht := (List.cons.inj ht).2
  have l3 : ∀ c ∈ ['-', '-', '>'], ¬ c = ' ' := by decide
  have h' : ((names (G.lhsOf r)).toList ++ ['-', '-', '>']) ++ symsL names (G.rhsOf r) =
      ((names (G.lhsOf r')).toList ++ ['-', '-', '>']) ++ symsL names (G.rhsOf r') := by
    simpa using ht
  obtain ⟨hl, hr⟩ := split_sep (· = ' ') _ _ _ _ (nb_app _ _ (hnb _) l3) (nb_app _ _ (hnb _) l3)
    (symsL_head _ _) (symsL_head _ _) h'
  exact ⟨toDigits_inj _ _ hq, hinj _ _ (String.toList_inj.1 (List.append_cancel_right hl)),
    symsL_inj names hinj hnb _ _ hr⟩

/-- a shift line is never a reduce line: the name would contain a blank (non-empty right-hand side) or
    be exactly `lhs-->` (empty right-hand side) -/
theorem tr_shift_ne_reduce (names : Nat → String) (G : Grammar)
    (hnb : ∀ x, ∀ c ∈ (names x).toList, ¬ c = ' ')
    (harrow : ∀ a b, names a ≠ names b ++ "-->")
    (q q' : Nat) (a : Sym) (r : Nat) (h : trShiftStr names q a = trReduceStr names G q' r) : False := by
  have h1 := congrArg String.toList h
  rw [trShiftStr_toList, trReduceStr_toList] at h1
  obtain ⟨_, ht⟩ := split_sep (· = ':') _ _ _ _ (digits_nc q) (digits_nc q') (by simp) (by simp) h1
  have ht := (List.cons.inj ht).2
  cases hrhs : G.rhsOf r with
  | nil =>
    rw [hrhs] at ht
    apply harrow a (G.lhsOf r)
    apply String.toList_inj.1
    rw [String.toList_append, arrow_toList, ht]
    simp [symsL]
  | cons x xs =>
    rw [hrhs] at ht
    apply hnb a ' ' _ rfl
    rw [ht]
    simp [symsL]

/-- the line of a transition determines the state, the kind of the transition, the symbol of a shift /
    goto transition and the content of the rule of a reduce transition — for spellings that are
    injective, contain no blank, and of which none is another one followed by `-->` -/
theorem tr_line_injective (names : Nat → String) (G : Grammar)
    (hinj : ∀ a b, names a = names b → a = b)
    (hnb : ∀ x, ∀ c ∈ (names x).toList, ¬ c = ' ')
    (harrow : ∀ a b, names a ≠ names b ++ "-->")
    (e e' : Nat × Bool × Nat) (h : trLineStr names G e = trLineStr names G e') :
    e.1 = e'.1 ∧ e.2.1 = e'.2.1 ∧ (e.2.1 = false → e.2.2 = e'.2.2) ∧
    (e.2.1 = true → G.lhsOf e.2.2 = G.lhsOf e'.2.2 ∧ G.rhsOf e.2.2 = G.rhsOf e'.2.2) := by
  obtain ⟨q, b, x⟩ := e
  obtain ⟨q', b', x'⟩ := e'
  cases b <;> cases b' <;> simp only [trLineStr, Bool.false_eq_true, if_false, if_true] at h
  · obtain ⟨h1, h2⟩ := tr_shift_injective names hinj q q' x x' h
    exact ⟨h1, rfl, fun _ => h2, (fun hc => by cases hc)⟩
  · exact (tr_shift_ne_reduce names G hnb harrow q q' x x' h).elim
  · exact (tr_shift_ne_reduce names G hnb harrow q' q x' x h.symm).elim
  · obtain ⟨h1, h2, h3⟩ := tr_reduce_injective names G hinj hnb q q' x x' h
    exact ⟨h1, rfl, (fun hc => by cases hc), fun _ => ⟨h2, h3⟩⟩

/-- the hypothesis `harrow` is needed: with the (injective, blank-free, nonempty) spellings `A-->` = 0,
    `A` = 1 and the empty rule `A → ε`, the shift line on symbol 0 is the reduce line of that rule -/
def arrowNames (n : Nat) : String :=
  match n with
  | 0 => "A-->" | 1 => "A" | n + 2 => "z" ++ toString n

def arrowG : Grammar := { nT := 0, rules := [⟨1, []⟩] }

example : trLineStr arrowNames arrowG (7, false, 0) = trLineStr arrowNames arrowG (7, true, 0) ∧
    trLineStr arrowNames arrowG (7, false, 0) = "7:A-->" := by decide

#print axioms set_line_injective
#print axioms follow_line_injective
#print axioms C18_listing_sets
#print axioms C18_listing_follow
#print axioms C18_listing_trans
#print axioms tr_shift_injective
#print axioms trReduceStr_prefix
#print axioms tr_reduce_injective
#print axioms tr_line_injective

end Y.Props
