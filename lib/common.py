"""Shared machinery of the checks: builds (Lean project, Go harness, CLI), the line-protocol runs,
evidence/replay/known-findings handling and the final verdict logic of DESIGN.md §3.4."""
import hashlib
import json
import os
import re
import shutil
import subprocess
import sys
import tempfile
import time

VERIF = os.path.dirname(os.path.dirname(os.path.abspath(__file__)))
REPO = os.environ.get("VERIF_REPO", "/repo")
LEAN = os.path.join(VERIF, "lean")
CACHE = os.path.join(VERIF, ".cache")
BIN = os.path.join(CACHE, "bin")
YMODEL = os.path.join(LEAN, ".lake", "build", "bin", "ymodel")

GOENV = dict(os.environ, GOFLAGS="-mod=mod", GOPROXY="off", GOSUMDB="off", GOTOOLCHAIN="local",
             GOCACHE=os.environ.get("GOCACHE", os.path.join(CACHE, "gocache")))

START = time.time()


def seed():
    try:
        return int(os.environ.get("VERIF_SEED", "1"))
    except ValueError:
        return 1


def log(*a):
    print(*a, file=sys.stderr, flush=True)


def sh(cmd, cwd=None, env=None, inp=None, timeout=None, check=False):
    p = subprocess.run(cmd, cwd=cwd, env=env, input=inp, stdout=subprocess.PIPE, stderr=subprocess.PIPE,
                       timeout=timeout)
    if check and p.returncode != 0:
        raise RuntimeError("command failed: %s\n%s\n%s" % (cmd, p.stdout.decode(errors="replace")[-3000:],
                                                            p.stderr.decode(errors="replace")[-3000:]))
    return p


_tmpdirs = []


def tmpdir(prefix="yv"):
    d = tempfile.mkdtemp(prefix=prefix + "-")
    _tmpdirs.append(d)
    return d


def cleanup():
    for d in _tmpdirs:
        shutil.rmtree(d, ignore_errors=True)


# ------------------------------------------------------------------ builds

def trim_gocache(limit_mb=3000):
    """the generated parsers compiled by the X mechanism fill the Go build cache; keep it bounded"""
    gc = GOENV.get("GOCACHE", "")
    if not gc.startswith(CACHE) or not os.path.isdir(gc):
        return
    try:
        mb = int(subprocess.run(["du", "-sm", gc], stdout=subprocess.PIPE, stderr=subprocess.DEVNULL).stdout.split()[0])
    except Exception:
        return
    if mb > limit_mb:
        shutil.rmtree(gc, ignore_errors=True)
        log("[build] Go build cache was %d MB: cleared" % mb)


def build_harness():
    """(re)build the Go harness and the yaccgo CLI against /repo's working tree"""
    os.makedirs(BIN, exist_ok=True)
    trim_gocache()
    hdir = os.path.join(VERIF, "harness")
    shutil.copy(os.path.join(REPO, "go.sum"), os.path.join(hdir, "go.sum"))
    gomod = open(os.path.join(hdir, "go.mod")).read()
    want = "replace github.com/acekingke/yaccgo => %s\n" % REPO
    if want not in gomod:
        gomod = re.sub(r"replace github.com/acekingke/yaccgo => .*\n", want, gomod)
        open(os.path.join(hdir, "go.mod"), "w").write(gomod)
    t = time.time()
    p = sh(["go", "build", "-tags", "verif", "-o", os.path.join(BIN, "yharness"), "."], cwd=hdir, env=GOENV)
    if p.returncode != 0:
        return False, "harness build failed:\n" + p.stderr.decode(errors="replace")[-4000:]
    p = sh(["go", "build", "-o", os.path.join(BIN, "yaccgo"), "./yaccgo"], cwd=REPO, env=GOENV)
    if p.returncode != 0:
        return False, "yaccgo build failed:\n" + p.stderr.decode(errors="replace")[-4000:]
    log("[build] harness + cli in %.1fs" % (time.time() - t))
    return True, ""


def run_translator():
    """regenerate lean/Yv/Gen/*.lean from /repo's current sources; returns (ok, message)"""
    tdir = os.path.join(VERIF, "translator")
    if not os.path.isdir(tdir):
        return True, "no translator"
    p = sh(["go", "run", ".", REPO, os.path.join(LEAN, "Yv", "Gen")], cwd=tdir, env=GOENV)
    out = p.stdout.decode(errors="replace") + p.stderr.decode(errors="replace")
    if p.returncode != 0:
        failed = dict(re.findall(r"FAILED (\w+): (.*)", out))
        if not failed:
            failed = {"Resolve": out[-1500:], "Facts": out[-1500:], "Action": out[-1500:], "Driver": out[-1500:], "TsDriver": out[-1500:]}   # the translator itself did not run
        return False, failed
    return True, {}


def build_ymodel():
    t = time.time()
    p = sh(["lake", "build", "ymodel"], cwd=LEAN)
    if p.returncode != 0:
        return False, "ymodel build failed:\n" + (p.stdout.decode(errors="replace") + p.stderr.decode(errors="replace"))[-4000:]
    log("[build] ymodel in %.1fs" % (time.time() - t))
    return True, ""


BAD_TOKENS = re.compile(r"\b(sorry|admit|native_decide|bv_decide|implemented_by|unsafe)\b|^axiom |maxHeartbeats 0")
ALLOWED_AXIOMS = {"propext", "Classical.choice", "Quot.sound"}


def strip_comments(src):
    # remove block comments (nested /- -/) and line comments
    out = []
    i = 0
    depth = 0
    while i < len(src):
        if src.startswith("/-", i):
            depth += 1
            i += 2
        elif src.startswith("-/", i) and depth > 0:
            depth -= 1
            i += 2
        elif depth > 0:
            if src[i] == "\n":
                out.append("\n")
            i += 1
        elif src.startswith("--", i):
            while i < len(src) and src[i] != "\n":
                i += 1
        else:
            out.append(src[i])
            i += 1
    return "".join(out)


def audit_sources():
    """grep the Lean sources (comments stripped) for escape hatches"""
    hits = []
    for root, _, files in os.walk(LEAN):
        if ".lake" in root:
            continue
        for f in files:
            if f.endswith(".lean"):
                p = os.path.join(root, f)
                for n, line in enumerate(strip_comments(open(p).read()).split("\n"), 1):
                    if BAD_TOKENS.search(line):
                        hits.append("%s:%d: %s" % (os.path.relpath(p, LEAN), n, line.strip()))
    return hits


TRANSLATOR_ERROR = None
# which regenerated fragments each proof module imports
GEN_DEPS = {"Yv.Props.C04": ["Resolve"], "Yv.Props.C04gen": ["Resolve"], "Yv.Props.C14": ["Facts"], "Yv.Props.C19": ["Facts"], "Yv.Props.C05c": ["Action"], "Yv.Props.C08b": ["Driver"], "Yv.Props.EndToEnd": ["Action", "Driver"], "Yv.Props.EndToEndTerm": ["Action", "Driver"], "Yv.Props.C08c": ["TsDriver"], "Yv.Props.EndToEndTs": ["TsDriver", "Action", "Driver"]}
TIER = "quick"


def prove(theorems, modules):
    """Build the proof modules and audit the axioms of the given theorems.
    Returns dict(ok, obligations, discharged, detail, axioms)."""
    t = time.time()
    res = {"ok": False, "obligations": len(theorems), "discharged": 0, "detail": "", "axioms": {}}
    if TRANSLATOR_ERROR:
        # only the theorems that import a fragment which could not be regenerated are unproved
        needs = set()
        for m in modules:
            needs |= set(GEN_DEPS.get(m, []))
        hit = [f for f in TRANSLATOR_ERROR if f in needs]
        if hit:
            res["detail"] = "translator could not regenerate Gen/%s.lean from the current sources (fails closed): %s" % (
                hit[0], str(TRANSLATOR_ERROR[hit[0]])[:1200])
            return res
    if not theorems:
        res["ok"] = True
        return res
    p = sh(["lake", "build"] + modules, cwd=LEAN)
    if p.returncode != 0:
        txt = p.stdout.decode(errors="replace") + p.stderr.decode(errors="replace")
        errs = [l for l in txt.split("\n") if "error" in l]
        res["detail"] = "lake build failed: " + " | ".join(errs[:6])
        res["log"] = txt[-6000:]
        return res
    hits = audit_sources()
    if hits:
        res["detail"] = "escape hatch in sources: " + "; ".join(hits[:5])
        return res
    d = tmpdir("audit")
    af = os.path.join(d, "Audit.lean")
    with open(af, "w") as f:
        for m in modules:
            f.write("import %s\n" % m)
        for th in theorems:
            f.write("#print axioms %s\n" % th)
    p = sh(["lake", "env", "lean", af], cwd=LEAN)
    txt = p.stdout.decode(errors="replace") + p.stderr.decode(errors="replace")
    if p.returncode != 0:
        res["detail"] = "axiom audit failed: " + txt[-1500:]
        return res
    # parse "'X' depends on axioms: [a, b]" / "'X' does not depend on any axioms"
    found = {}
    for m in re.finditer(r"'([^']+)' depends on axioms: \[([^\]]*)\]", txt.replace("\n", " ")):
        found[m.group(1)] = [a.strip() for a in m.group(2).split(",") if a.strip()]
    for m in re.finditer(r"'([^']+)' does not depend on any axioms", txt):
        found[m.group(1)] = []
    bad = []
    for th in theorems:
        if th not in found:
            bad.append("%s: not found" % th)
        elif not set(found[th]) <= ALLOWED_AXIOMS:
            bad.append("%s: axioms %s" % (th, found[th]))
        else:
            res["discharged"] += 1
    res["axioms"] = found
    if bad:
        res["detail"] = "; ".join(bad)
        return res
    if TIER == "thorough":
        # independent re-check of the compiled proof modules by the toolchain's external checker
        lc = sh(["lake", "env", "leanchecker"] + modules, cwd=LEAN, timeout=1800)
        res["leanchecker"] = "ok" if lc.returncode == 0 else "FAILED"
        if lc.returncode != 0:
            res["detail"] = "leanchecker rejected the compiled modules: " + (lc.stdout.decode(errors="replace") + lc.stderr.decode(errors="replace"))[-1500:]
            res["discharged"] = 0
            return res
    res["ok"] = True
    log("[prove] %d theorems, axioms clean, %.1fs" % (len(theorems), time.time() - t))
    return res


# ------------------------------------------------------------------ line protocol

def run_core(cases, inputs_fn=None, timeout=900):
    """cases: list of dict(id, src). Returns dict id -> {'impl': [lines], 'model': [lines], 'inputs': [...]}.
    inputs_fn(case_id, impl_lines) -> list of symbol-id lists to run through the driver model on the
    implementation's table (added to the dump as INPUT lines)."""
    inp = "".join(json.dumps(c) + "\n" for c in cases).encode()
    p = sh([os.path.join(BIN, "yharness"), "core"], inp=inp, timeout=timeout)
    if p.returncode != 0:
        raise RuntimeError("yharness core failed: " + p.stderr.decode(errors="replace")[-2000:])
    impl_txt = p.stdout
    all_inputs = {}
    if inputs_fn is not None:
        out = []
        cur = None
        buf = []
        for line in impl_txt.decode(errors="replace").split("\n"):
            if line.startswith("CASE "):
                cur = line[5:].strip()
                buf = []
            elif line.startswith("ENDCASE"):
                ins = inputs_fn(cur, buf) or []
                all_inputs[cur] = ins
                for w in ins:
                    out.append("INPUT " + " ".join(str(x) for x in w))
                cur = None
            elif cur is not None:
                buf.append(line)
            out.append(line)
        impl_txt = "\n".join(out).encode()
    m = sh([YMODEL], inp=impl_txt, timeout=timeout)
    if m.returncode != 0:
        raise RuntimeError("ymodel failed: " + m.stderr.decode(errors="replace")[-2000:])
    res = {}
    for name, txt in (("impl", impl_txt), ("model", m.stdout)):
        cur = None
        for line in txt.decode(errors="replace").split("\n"):
            if line.startswith("CASE "):
                cur = line[5:].strip()
                res.setdefault(cur, {"impl": [], "model": [], "inputs": all_inputs.get(cur, [])})
            elif line.startswith("ENDCASE"):
                cur = None
            elif cur is not None and line:
                res[cur][name].append(line)
    return res


def split_model(lines):
    M = [l[2:] for l in lines if l.startswith("M ")]
    V = {}
    for l in lines:
        if l.startswith("V "):
            f = l.split()
            V[f[1]] = f[2:]
    return M, V


IMPL_STAGE_PREFIXES = ("STATE", "GOTO", "LA", "ROW", "PACKED", "ACT", "OFF", "CHK", "ADEF", "GDEF")


def impl_stage_lines(lines, prefixes=IMPL_STAGE_PREFIXES):
    out = []
    for l in lines:
        f = l.split()
        if f and f[0] in prefixes:
            if f[0] == "STATE":
                f = f[:2] + f[3:]  # drop the implementation's own Index field (checked separately)
            out.append(" ".join(f))
    return out


def stage_diff(impl_lines, model_lines, prefixes):
    a = [l for l in impl_stage_lines(impl_lines, prefixes)]
    b = [l for l in model_lines if l.split() and l.split()[0] in prefixes]
    if a == b:
        return None
    for i in range(max(len(a), len(b))):
        x = a[i] if i < len(a) else "<missing>"
        y = b[i] if i < len(b) else "<missing>"
        if x != y:
            return {"impl": x, "model": y, "index": i}
    return None


# ------------------------------------------------------------------ evidence / findings / verdict

def load_known():
    p = os.path.join(VERIF, "known_findings.json")
    if not os.path.exists(p):
        return []
    return json.load(open(p)).get("findings", [])


def finding_key(obj):
    return hashlib.sha256(json.dumps(obj, sort_keys=True).encode()).hexdigest()[:16]


def write_replay(pid, payload):
    os.makedirs(os.path.join(VERIF, "replays"), exist_ok=True)
    h = finding_key(payload)
    path = os.path.join(VERIF, "replays", "%s-%s.json" % (pid, h))
    with open(path, "w") as f:
        json.dump(payload, f, indent=1, sort_keys=True)
    return path


def write_evidence(pid, tier, level, coverage, assumptions, violations):
    os.makedirs(os.path.join(VERIF, "evidence"), exist_ok=True)
    ev = {"property_id": pid, "tier": tier, "seed": seed(), "level": level, "coverage": coverage,
          "assumptions": assumptions, "wall_s": round(time.time() - START, 2), "violations": violations}
    with open(os.path.join(VERIF, "evidence", pid + ".json"), "w") as f:
        json.dump(ev, f, indent=1, sort_keys=True)


def conclude(pid, tier, level, proof, tie_breaks, violations, coverage, assumptions):
    """Final verdict per DESIGN §3.4.
    violations: list of dict(key=<canonical failing input>, what=<text>, replay=<payload>)
    tie_breaks: list of dict(what=..., detail=...) — model/implementation correspondence or certificate failures."""
    known = [k for k in load_known() if k.get("property") == pid and k.get("status") == "open"]
    known_keys = {k["key"]: k for k in known}
    new = []
    seen_known = set()
    for v in violations:
        k = v["key"]
        if k in known_keys:
            seen_known.add(k)
        else:
            new.append(v)
    for k in sorted(seen_known):
        print("KNOWN-FINDING: property=%s %s" % (pid, known_keys[k]["what"]))
    rc = 0
    cov = dict(coverage)
    cov["obligations"] = proof.get("obligations", 0)
    cov["discharged"] = proof.get("discharged", 0)
    cov["checker_cmd"] = "cd /verif/lean && lake build && lake env lean <Audit.lean with #print axioms>; thorough: lake env leanchecker"
    cov.setdefault("trusted_base", [])
    cov["theorem_axioms"] = proof.get("axioms", {})
    if "leanchecker" in proof:
        cov["leanchecker"] = proof["leanchecker"]
    cov["tie_breaks"] = len(tie_breaks)
    cov["known_findings_seen"] = sorted(seen_known)
    if new:
        v = new[0]
        path = write_replay(pid, v["replay"])
        print("VIOLATION property=%s replay=%s" % (pid, path))
        log("violation: " + v.get("what", ""))
        rc = 1
    elif (not proof.get("ok")) or tie_breaks:
        payload = {"property": pid, "no_failing_input_found": True,
                   "proof_ok": bool(proof.get("ok")), "proof_detail": proof.get("detail", ""),
                   "tie_breaks": tie_breaks[:10],
                   "explanation": "the property is no longer shown to hold: a theorem or a model/implementation "
                                  "correspondence no longer checks; the search over corpus + generated cases found no concrete failing input"}
        path = write_replay(pid, payload)
        print("VIOLATION property=%s replay=%s no-failing-input-found" % (pid, path))
        rc = 1
    write_evidence(pid, tier, level, cov, assumptions, len(new) + (1 if rc and not new else 0))
    cleanup()
    return rc
