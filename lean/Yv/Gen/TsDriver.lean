-- GENERATED from Builder/TsGenCode.go (buildStateFunc, buildReduceFunc); do not edit
import Yv.Model.TsAst
namespace Gen.Ts

/-- `PushStateSym` -/
def push : Fn :=
  { params := [(.state, (.name .StateSym))],
    ret := none,
    body :=
      [
        .ite (.bin .ge (.id .StackPointer) (.sel (.id .StateSymStack) .length))
          [
            .expr (.call (.sel (.id .StateSymStack) .push) [(.id .state)]) ]
          [
            .assign (.index (.id .StateSymStack) (.id .StackPointer)) (.id .state) ],
        .inc (.id .StackPointer) ] }

/-- `PopStateSym` -/
def pop : Fn :=
  { params := [(.num, (.name .number))],
    ret := none,
    body :=
      [
        .subAssign (.id .StackPointer) (.id .num) ] }

/-- `initialize` -/
def «initialize» : Fn :=
  { params := [],
    ret := none,
    body :=
      [
        .assign (.id .StateSymStack) (.arr [(.new .StateSym [(.int 0), (.int 1)])]),
        .assign (.id .StackPointer) (.int 1) ] }

/-- `Parser` -/
def parser : Fn :=
  { params := [(.input, (.name .string))],
    ret := (some (.name .ValType)),
    body :=
      [
        .decl .kVar .currentPos (some (.name .number)) (some (.int 0)),
        .decl .kVar .val (some (.name .ValType)) none,
        .decl .kConst .model none (some (.obj [.ValType, .pos] [(.id .val), (.id .currentPos)])),
        .decl .kVar .lookAhead none (some (.call (.id .fetchLookAhead) [(.id .input), (.id .model)])),
        .loop
          [
            .ite (.bin .eq (.id .StackPointer) (.int 0))
              [
                .brk ]
              [],
            .ite (.bin .gt (.id .StackPointer) (.sel (.id .StateSymStack) .length))
              [
                .brk ]
              [],
            .decl .kLet .state none (some (.index (.id .StateSymStack) (.bin .sub (.id .StackPointer) (.int 1)))),
            .decl .kLet .action none (some (.call (.sel (.id .state) .Action) [(.id .lookAhead)])),
            .ite (.bin .eq (.id .action) (.id .ERROR_ACTION))
              [
                .expr (.call (.sel (.id .console) .error) [(.str "Grammer error")]),
                .brk ]
              [
                .ite (.bin .eq (.id .action) (.id .ACCEPT_ACTION))
                  [
                    .ret (.sel (.id .state) .ValType) ]
                  [
                    .ite (.bin .gt (.id .action) (.int 0))
                      [
                        .decl .kLet .sym none (some (.new .StateSym [(.id .action), (.id .lookAhead)])),
                        .assign (.sel (.id .sym) .ValType) (.sel (.id .model) .ValType),
                        .expr (.call (.id .PushStateSym) [(.id .sym)]),
                        .assign (.id .lookAhead) (.call (.id .fetchLookAhead) [(.id .input), (.id .model)]) ]
                      [
                        .decl .kLet .SymTy none (some (.call (.id .ReduceFunc) [(.neg (.id .action))])),
                        .assign (.id .state) (.index (.id .StateSymStack) (.bin .sub (.id .StackPointer) (.int 1))),
                        .decl .kLet .gotoState none (some (.call (.sel (.id .state) .Action) [(.sel (.id .SymTy) .YySymIndex)])),
                        .assign (.sel (.id .SymTy) .Yystate) (.id .gotoState),
                        .expr (.call (.id .PushStateSym) [(.id .SymTy)]) ] ] ] ],
        .ret .null ] }

/-- `fetchLookAhead` -/
def fetchLookAhead : Fn :=
  { params := [(.input, (.name .string)), (.model, (.obj [.ValType, .pos] [.ValType, .number]))],
    ret := none,
    body :=
      [
        .decl .kLet .token none (some (.call (.id .GetToken) [(.id .input), (.id .model)])),
        .ret (.call (.id .translate) [(.id .token)]) ] }

/-- `ReduceFunc`: the frame around the per-grammar `case`s (`.switchHole` = the `%s` of the format) -/
def reduceFrame : Fn :=
  { params := [(.reduceIndex, (.name .number))],
    ret := (some (.name .StateSym)),
    body :=
      [
        .decl .kLet .dollarDolar none (some (.new .StateSym [(.neg (.int 1)), (.neg (.int 1))])),
        .assign (.sel (.id .dollarDolar) .ValType) (.new .ValType []),
        .decl .kLet .topIndex none (some (.bin .sub (.id .StackPointer) (.int 1))),
        .switchHole (.id .reduceIndex),
        .ret (.id .dollarDolar) ] }

/-- the statements appended to the formatted `ReduceFunc`: they run when the module is loaded -/
def moduleTail : List Stmt :=
  [
    .expr (.call (.id .initialize) []) ]

end Gen.Ts
