import Yv.Proofs.PackCore
/-! Executable form of the abstract placement view of `PackTable` (namespace `PackP`):
    row order, first-fit placement, the three packed arrays *including* the trim of leading
    empty slots, and the `UnPackTable` cell rule.  Definitions only; the proofs are in
    `Yv/Props/C05.lean`. -/
namespace PackA
open PackP

/-- number of non-zero cells of row `i` -/
def cnt (tab : List Row) (i : Nat) : Nat := (nz (tab.getD i [])).length

/-- row indices by decreasing non-zero count, stable (the `sort.SliceStable` of the Go code) -/
def order (tab : List Row) : List Nat :=
  (List.range tab.length).mergeSort fun i j => decide (cnt tab i ≥ cnt tab j)

/-- place one row: first displacement (from 0) at which all its non-zero columns hit free slots.
    Fuel `bound + 1` suffices: nothing is occupied at or beyond `bound`, so `d = bound` fits. -/
def step (tab : List Row) (pl : Placed) (i : Nat) : Placed :=
  pl ++ [(i, firstFit tab pl i (bound tab pl + 1) 0)]

/-- the placement loop -/
def place (tab : List Row) : Placed := (order tab).foldl (step tab) []

/-- every slot written by the placement -/
def slots (tab : List Row) (pl : Placed) : List Nat :=
  pl.flatMap fun x => (nz (tab.getD x.1 [])).map fun j => x.2 + j

/-- largest occupied slot, 0 if none (`maxIndex` of the Go code) -/
def maxIndex (tab : List Row) (pl : Placed) : Nat := (slots tab pl).foldl max 0

/-- entry of the check vector: owning row or -1 -/
def chkVal (tab : List Row) (pl : Placed) (p : Nat) : Int :=
  match slotOwner tab pl p with
  | some i => (i : Int)
  | none => -1

/-- untrimmed value array `ret` -/
def retU (tab : List Row) (pl : Placed) : List Int :=
  (List.range (maxIndex tab pl + 1)).map (slotVal tab pl)

/-- untrimmed check array -/
def chkU (tab : List Row) (pl : Placed) : List Int :=
  (List.range (maxIndex tab pl + 1)).map (chkVal tab pl)

/-- number of leading slots whose value is 0 (all of them if `ret` is all zero) -/
def trimK (tab : List Row) (pl : Placed) : Nat := ((retU tab pl).takeWhile (· == 0)).length

/-- displacement recorded for row `i` (0 if the row was never placed) -/
def dispOf (pl : Placed) (i : Nat) : Nat :=
  match pl.find? (fun x => x.1 == i) with
  | some x => x.2
  | none => 0

structure Packed where
  act : List Int
  off : List Int
  check : List Int
  deriving Repr, DecidableEq

/-- the three output arrays for an arbitrary placement, after the trim -/
def packOf (tab : List Row) (pl : Placed) : Packed :=
  { act := (retU tab pl).drop (trimK tab pl)
    off := (List.range tab.length).map fun i => (dispOf pl i : Int) - (trimK tab pl : Int)
    check := (chkU tab pl).drop (trimK tab pl) }

/-- `PackTable` -/
def packA (tab : List Row) : Packed := packOf tab (place tab)

/-- the `UnPackTable` cell rule:
    `0` if `D[i]+j < 0 || D[i]+j >= len(C) || C[D[i]+j] != i`, else `T[D[i]+j]` -/
def unpackLookup (p : Packed) (i j : Nat) : Int :=
  if p.off.getD i 0 + (j : Int) < 0 ∨ (p.check.length : Int) ≤ p.off.getD i 0 + (j : Int) ∨
      p.check.getD (p.off.getD i 0 + (j : Int)).toNat (-1) ≠ (i : Int) then 0
  else p.act.getD (p.off.getD i 0 + (j : Int)).toNat 0

/-- `UnPackTable` -/
def unpack (rows cols : Nat) (p : Packed) : List (List Int) :=
  (List.range rows).map fun i => (List.range cols).map fun j => unpackLookup p i j

private def showInts (l : List Int) : String := " ".intercalate (l.map toString)

/-- three text lines (act, off, check) for a differential-testing driver -/
def packA_lines (tab : List Row) : List String :=
  let p := packA tab
  ["act " ++ showInts p.act, "off " ++ showInts p.off, "check " ++ showInts p.check]

end PackA
