import Yv.Proofs.DPModel
import Yv.Props.C03
/-! # C03b — the DeRemer–Pennello computation yields exactly the LALR(1) lookahead sets

yaccgo computes its lookahead sets with the DeRemer–Pennello method (`LALR/LALR.go`): transitions,
`DR`, `reads`, `Read`, `includes`, `Follow`, `lookback`, `LA`.  `Yv/Model/DP.lean` is an executable
model of these stages on the data `(G, A)` (grammar, LR(0) automaton with ordered goto lists) and
the nullable list; the two set-valued closures (`Read`, `Follow`) are computed as LEAST SOLUTIONS by a
fuelled iteration plus a final closedness check (`solve`), not by the implementation's SCC-based
`Digraph` — the implementation's `ReadSet` / `FollowSet` / lookahead sets are compared with these
least solutions on every run.

## The declarative description (`Yv/Abs/DPRel.lean`)

Over the automaton, with a nonterminal transition named by `(state, symbol)` and a reduce transition
by `(state, rule)`:

* `InDR p B a`   — `a` is a terminal with a transition out of `goto p B` (`B` a nonterminal), or
                   `(p, B, a) = (0, S₀, $)` where `rules[0] = start' → S₀`;
* `Reads p B p₁ C` — `p₁ = goto p B`, `C` a nonterminal deriving the empty string, `goto p₁ C` defined;
* `InRead`       — least solution of `Read x = DR x ∪ ⋃ {Read y | x reads y}` (inductive);
* `Includes p B p' C` — a rule `C → β B γ` with `γ` deriving the empty string, some item of that rule
                   in `p'`, `walk p' β = p`, `goto p' C` defined;
* `InFollow`     — least solution of `Follow x = Read x ∪ ⋃ {Follow y | x includes y}` (inductive);
* `Lookback q r p` — `walk p (rhs r) = q` and `goto p (lhs r)` defined;
* `InLA q r a`   — `a = $` if `r = 0`; otherwise `a ∈ Follow (p, lhs r)` for some `p` looked back to.

## The theorems

* `C03_dp_declarative`: on an automaton that passes `certA` and `certCanon`, for a grammar that
  passes `gramWF` and `prodOK`, `InLA q r a ↔ LA G A.goto q ⟨r, |rhs r|⟩ a` for every complete
  item of every state — the classical DeRemer–Pennello theorem (both directions).
* `C03_dp_read`, `C03_dp_follow`, `C03_dp_la`: when the model returns its stages, its `Read`,
  `Follow` and lookahead lists contain exactly the members of the declarative sets.
* `C03_dp_exact` (MAIN): membership in the lookahead list the model attaches to the reduction by `r`
  in state `q` is exactly the LALR(1) relation `LA` (hence, by `LA_iff`, the union of the LR(1)
  lookaheads over all canonical LR(1) states with the same LR(0) core).
* `C03_dp_eq_laL`: whenever the verified oracle `laL` of C03 also returns, `laLinesDP` and `laLines`
  are the same list.

## Hypotheses, all decidable and evaluated on the implementation's artefacts

* `gramWF G nS`   — rule 0 is `start' → S₀`; no right-hand side mentions `start'` or `$`; left-hand
                    sides are nonterminals.
* `certA G A`     — goto targets are states other than 0 whose kernel items come from the source;
                    goto completeness; the start item only in state 0.
* `certCanon G A` — every state IS the LR(0) closure of its kernel (closure completeness is needed
                    for completeness of `includes`/`reads`; well-founded justification of closure items
                    is needed for soundness of `DR`/`reads`: `certA` alone accepts a closure item that
                    justifies itself, e.g. `A → · A y` in a state without any other `A`-item, and the
                    implementation would then read `y` there); goto symbols pairwise distinct (a
                    transition is identified by state and symbol); every goto entry has its symbol
                    after some dot; every state is reachable (an unreachable state `p` with
                    `walk p ω = q` would contribute `Follow (p, C)` to the reachable `(q, C → ω)`).
* `prodOK G nS`   — `$` is a terminal and every symbol derives a terminal string (`FirstOf` speaks
                    about derivable terminal strings).
* `dpStartOK G A` — NEW: transition 0 of the sorted transition list is the transition of state 0 on
                    `S₀`.  The implementation appends `$` to `DRSet[0]` unconditionally; if the first
                    goto entry of state 0 were on another symbol, `$` would be attached to the wrong
                    transition (see the counterexample at the end of this file).
* `stages G nS A = some st` — the model's nullable list passed its closedness check and both least
                    solutions passed theirs. -/
namespace Y.Props
open Y Y.DP

/-- the Prop-level content of the decidable hypotheses -/
theorem dph_of_certs {G : Grammar} {nS : Nat} {A : Auto} (hG : gramWF G nS = true)
    (hA : certA G A = true) (hC : certCanon G A = true) (hP : prodOK G nS = true) : DPH G nS A :=
  ⟨gramWF_ok hG, certA_ok hA, certCanon_ok hC, prodOK_ok hP⟩

/-- the classical DeRemer–Pennello theorem on the declarative sets -/
theorem C03_dp_declarative (G : Grammar) (nS : Nat) (A : Auto)
    (hG : gramWF G nS = true) (hA : certA G A = true) (hC : certCanon G A = true)
    (hP : prodOK G nS = true) (q r : Nat)
    (hit : (⟨r, (G.rhsOf r).length⟩ : Item) ∈ A.its q) (a : Sym) :
    InLA G A q r a ↔ LA G A.goto q ⟨r, (G.rhsOf r).length⟩ a :=
  inLA_iff_LA (dph_of_certs hG hA hC hP) (its_lt hit) hit a

/-- the bridge hypotheses for the model's own nullable list -/
theorem mh_of_stages {G : Grammar} {nS : Nat} {A : Auto} {st : Stages}
    (hG : gramWF G nS = true) (hA : certA G A = true) (hC : certCanon G A = true)
    (hP : prodOK G nS = true) (hS : dpStartOK G A = true) (hst : stages G nS A = some st) :
    MH G nS A (nullableL G nS) :=
  ⟨dph_of_certs hG hA hC hP, (stages_some hst).1, hS⟩

/-- the model's `Read` lists are the declarative `Read` sets -/
theorem C03_dp_read (G : Grammar) (nS : Nat) (A : Auto) (st : Stages)
    (hG : gramWF G nS = true) (hA : certA G A = true) (hC : certCanon G A = true)
    (hP : prodOK G nS = true) (hS : dpStartOK G A = true) (hst : stages G nS A = some st)
    (i : Nat) (t : Tr) (B : Sym) (hi : st.trans[i]? = some t) (hk : t.kind = .sym B)
    (hkey : isKey G i t = true) (a : Sym) :
    a ∈ st.read.getD i [] ↔ InRead G A t.q B a :=
  stage_read_iff (mh_of_stages hG hA hC hP hS hst) (stages_some hst).2 hi hk hkey a

/-- the model's `Follow` lists are the declarative `Follow` sets -/
theorem C03_dp_follow (G : Grammar) (nS : Nat) (A : Auto) (st : Stages)
    (hG : gramWF G nS = true) (hA : certA G A = true) (hC : certCanon G A = true)
    (hP : prodOK G nS = true) (hS : dpStartOK G A = true) (hst : stages G nS A = some st)
    (i : Nat) (t : Tr) (B : Sym) (hi : st.trans[i]? = some t) (hk : t.kind = .sym B)
    (hkey : isKey G i t = true) (a : Sym) :
    a ∈ st.follow.getD i [] ↔ InFollow G A t.q B a :=
  stage_follow_iff (mh_of_stages hG hA hC hP hS hst) (stages_some hst).2 hi hk hkey a

/-- the model's lookahead lists are the declarative DeRemer–Pennello lookahead sets -/
theorem C03_dp_la (G : Grammar) (nS : Nat) (A : Auto) (st : Stages)
    (hG : gramWF G nS = true) (hA : certA G A = true) (hC : certCanon G A = true)
    (hP : prodOK G nS = true) (hS : dpStartOK G A = true) (hst : stages G nS A = some st)
    (q r : Nat) (hit : (⟨r, (G.rhsOf r).length⟩ : Item) ∈ A.its q) (a : Sym) :
    a ∈ st.laGet q r ↔ InLA G A q r a :=
  laGet_iff (mh_of_stages hG hA hC hP hS hst) (stages_some hst).2 hit a

/-- MAIN THEOREM: the lookahead set the DeRemer–Pennello computation attaches to the reduction by
    rule `r` in state `q` is exactly the LALR(1) lookahead set of the complete item -/
theorem C03_dp_exact (G : Grammar) (nS : Nat) (A : Auto) (st : Stages)
    (hG : gramWF G nS = true) (hA : certA G A = true) (hC : certCanon G A = true)
    (hP : prodOK G nS = true) (hS : dpStartOK G A = true) (hst : stages G nS A = some st)
    (q r : Nat) (hit : (⟨r, (G.rhsOf r).length⟩ : Item) ∈ A.its q) (a : Sym) :
    a ∈ st.laGet q r ↔ LA G A.goto q ⟨r, (G.rhsOf r).length⟩ a :=
  (C03_dp_la G nS A st hG hA hC hP hS hst q r hit a).trans
    (C03_dp_declarative G nS A hG hA hC hP q r hit a)

/-- the same for a nullable list given from outside (the implementation's own flags) that passes
    `nullExactB` -/
theorem C03_dp_exact_with (G : Grammar) (nS : Nat) (A : Auto) (nl : List Sym) (st : Stages)
    (hG : gramWF G nS = true) (hA : certA G A = true) (hC : certCanon G A = true)
    (hP : prodOK G nS = true) (hS : dpStartOK G A = true) (hN : nullExactB G nS nl = true)
    (hst : stagesWith G A nl = some st)
    (q r : Nat) (hit : (⟨r, (G.rhsOf r).length⟩ : Item) ∈ A.its q) (a : Sym) :
    a ∈ st.laGet q r ↔ LA G A.goto q ⟨r, (G.rhsOf r).length⟩ a :=
  (laGet_iff ⟨dph_of_certs hG hA hC hP, nullExactB_ok hN, hS⟩ hst hit a).trans
    (C03_dp_declarative G nS A hG hA hC hP q r hit a)

/-- the same, as the union of the LR(1) lookaheads over the canonical LR(1) states with the same
    access state -/
theorem C03_dp_lr1 (G : Grammar) (nS : Nat) (A : Auto) (st : Stages)
    (hG : gramWF G nS = true) (hA : certA G A = true) (hC : certCanon G A = true)
    (hP : prodOK G nS = true) (hS : dpStartOK G A = true) (hst : stages G nS A = some st)
    (q r : Nat) (hit : (⟨r, (G.rhsOf r).length⟩ : Item) ∈ A.its q) (a : Sym) :
    a ∈ st.laGet q r ↔ ∃ γ, pathr A.goto γ = some q ∧ St1 G γ ⟨r, (G.rhsOf r).length⟩ a :=
  (C03_dp_exact G nS A st hG hA hC hP hS hst q r hit a).trans (LA_iff G A.goto q _ a)

/-- what the harness compares: every line `(q, r, las)` of `laLinesDP` is a complete item of state
    `q` with `las` listing exactly its LALR(1) lookaheads -/
theorem C03_dp_lines (G : Grammar) (nS : Nat) (A : Auto) (ls : List (Nat × Nat × List Sym))
    (hG : gramWF G nS = true) (hA : certA G A = true) (hC : certCanon G A = true)
    (hP : prodOK G nS = true) (hS : dpStartOK G A = true) (hls : laLinesDP G nS A = some ls)
    (q r : Nat) (las : List Sym) (hl : (q, r, las) ∈ ls) :
    q < A.n ∧ (⟨r, (G.rhsOf r).length⟩ : Item) ∈ A.its q ∧
      ∀ a, a ∈ las ↔ LA G A.goto q ⟨r, (G.rhsOf r).length⟩ a := by
  unfold laLinesDP at hls
  cases hst : stages G nS A with
  | none => rw [hst] at hls; cases hls
  | some st =>
    rw [hst] at hls
    simp only [Option.map_some, Option.some.injEq] at hls
    subst hls
    unfold Stages.lines at hl
    obtain ⟨q', hq', hm⟩ := List.mem_flatMap.mp hl
    obtain ⟨it, hit, he⟩ := List.mem_filterMap.mp hm
    split at he
    · rename_i hd
      cases he
      have hd' : it.d = (G.rhsOf it.r).length := by simpa using hd
      have hit' : (⟨it.r, (G.rhsOf it.r).length⟩ : Item) ∈ A.its q := by
        obtain ⟨r0, d0⟩ := it
        simp only at hd' ⊢
        rw [← hd']; exact hit
      refine ⟨List.mem_range.mp hq', hit', fun a => ?_⟩
      rw [mem_sortS]
      exact C03_dp_exact G nS A st hG hA hC hP hS hst q it.r hit' a
    · cases he

/-- the DeRemer–Pennello lines and the lines of the verified oracle `laL` of C03 are the same list -/
theorem C03_dp_eq_laL (G : Grammar) (nS : Nat) (A : Auto) (st : Stages) (t : LATab)
    (hG : gramWF G nS = true) (hA : certA G A = true) (hC : certCanon G A = true)
    (hP : prodOK G nS = true) (hS : dpStartOK G A = true)
    (hst : stages G nS A = some st) (ht : laL G nS A = some t) :
    laLinesDP G nS A = some (laLines G A t) := by
  unfold laLinesDP
  rw [hst]
  simp only [Option.map_some, Option.some.injEq]
  unfold Stages.lines laLines
  refine flatMap_congr' (fun q _ => filterMap_congr' (fun it hit => ?_))
  split
  · rename_i hd
    have hd' : it.d = (G.rhsOf it.r).length := by simpa using hd
    have hit' : it = ⟨it.r, (G.rhsOf it.r).length⟩ := by
      obtain ⟨r0, d0⟩ := it
      simp only at hd'
      rw [hd']
    have hmem : (⟨it.r, (G.rhsOf it.r).length⟩ : Item) ∈ A.its q := hit' ▸ hit
    have hn : 0 < A.n := (certA_ok hA).npos
    congr 3
    refine sortS_congr (fun a => ?_)
    rw [C03_dp_exact G nS A st hG hA hC hP hS hst q it.r hmem a, hit'.symm]
    exact (C03_oracle_exact G nS A t ht hP hn q it a).symm
  · rfl

/-! ## Non-vacuity: the grammar `S' → S ; S → L = R | R ; L → * R | id ; R → L` of C03 -/

example : gramWF laG 8 = true ∧ certA laG laA = true ∧ prodOK laG 8 = true ∧
    dpStartOK laG laA = true := by decide

example : certCanon laG laA = true := by decide

/-- the model returns, and its lines are those of the oracle -/
theorem laG_linesDP : laLinesDP laG 8 laA =
    some [(1, 0, [1]), (2, 5, [1]), (3, 2, [1]), (5, 4, [1, 2]), (7, 3, [1, 2]), (8, 5, [1, 2]),
          (9, 1, [1])] := by decide

example : laLinesDP laG 8 laA = (laL laG 8 laA).map (laLines laG laA) := by decide

/-- consequence, through `C03_dp_lines`: in state 2 the LALR(1) lookahead set of `R → L ·` is `{$}` -/
example : ∀ a, LA laG laA.goto 2 ⟨5, 1⟩ a ↔ a = 1 := by
  have hm : (2, 5, [1]) ∈ [(1, 0, [1]), (2, 5, [1]), (3, 2, [1]), (5, 4, [1, 2]), (7, 3, [1, 2]),
      (8, 5, [1, 2]), (9, 1, ([1] : List Sym))] := by decide
  have := (C03_dp_lines laG 8 laA _ (by decide) (by decide) (by decide) (by decide) (by decide)
    laG_linesDP 2 5 [1] hm).2.2
  intro a
  exact (this a).symm.trans (by simp)

/-- a grammar with nullable nonterminals (`reads` and `includes` both non-empty):
    `S' → S ; S → A B ; A → a | ε ; B → b | ε` with terminals `$`=1, `a`=2, `b`=3 and
    nonterminals `S`=4, `A`=5, `B`=6 -/
def nuG : Grammar :=
  { nT := 3, rules := [⟨0, [4]⟩, ⟨4, [5, 6]⟩, ⟨5, [2]⟩, ⟨5, []⟩, ⟨6, [3]⟩, ⟨6, []⟩] }

def nuA : Auto :=
  { items := [[⟨0,0⟩, ⟨1,0⟩, ⟨2,0⟩, ⟨3,0⟩], [⟨0,1⟩], [⟨1,1⟩, ⟨4,0⟩, ⟨5,0⟩], [⟨2,1⟩], [⟨1,2⟩],
              [⟨4,1⟩]],
    gotos := [[(4,1), (5,2), (2,3)], [], [(6,4), (3,5)], [], [], []] }

example : gramWF nuG 7 = true ∧ certA nuG nuA = true ∧ certCanon nuG nuA = true ∧
    prodOK nuG 7 = true ∧ dpStartOK nuG nuA = true := by decide

/-- `(0, A) reads (2, B)`; `(0, A) includes (0, S)` and `(2, B) includes (0, S)` (transition indices
    0 = `(0, S)`, 1 = `(0, A)`, 5 = `(2, B)`) -/
example : (stages nuG 7 nuA).map (fun st => (st.reads, st.includes)) =
    some ([(1, 5)], [(1, 0), (5, 0)]) := by decide

example : laLinesDP nuG 7 nuA =
    some [(0, 3, [1, 3]), (1, 0, [1]), (2, 5, [1]), (3, 2, [1, 3]), (4, 1, [1]), (5, 4, [1])] := by
  decide

example : laLinesDP nuG 7 nuA = (laL nuG 7 nuA).map (laLines nuG nuA) := by decide

/-! ## `dpStartOK` is needed

The same automaton with the goto list of state 0 stored in another order (`L` first): all the other
hypotheses hold, but `$` is appended to the `DR` set of `(0, L)` instead of `(0, S)`, and the
computed lookahead sets are wrong (`S → R ·` in state 3 and `S → L = R ·` in state 9 get no
lookahead at all). -/

def laA' : Auto :=
  { items := laA.items,
    gotos := [[(6,2), (5,1), (7,3), (3,4), (4,5)], [], [(2,6)], [], [(3,4), (7,7), (4,5), (6,8)],
              [], [(7,9), (3,4), (4,5), (6,8)], [], [], []] }

example : gramWF laG 8 = true ∧ certA laG laA' = true ∧ certCanon laG laA' = true ∧
    prodOK laG 8 = true ∧ dpStartOK laG laA' = false := by decide

example : laLinesDP laG 8 laA' =
    some [(1, 0, [1]), (2, 5, []), (3, 2, []), (5, 4, [1, 2]), (7, 3, [1, 2]), (8, 5, [1, 2]),
          (9, 1, [])] ∧
    laLinesDP laG 8 laA' ≠ (laL laG 8 laA').map (laLines laG laA') := by decide

/-! ## `certCanon` is needed (`certA` alone is not enough)

`S' → S ; S → x ; A → A y | z` (`$`=1, `x`=2, `y`=3, `z`=4, `S`=5, `A`=6) with an "automaton" whose
state 0 holds the closure item `A → · A y`, justified only by itself: `gramWF`, `certA`, `prodOK`,
`dpStartOK` all hold, the DeRemer–Pennello computation attaches the lookahead `y` to the reduction
`A → A y ·` in state 4 (it reads `y` after the transition `(0, A)`), but no LALR(1) fact exists for
that item (no LR(1) state contains it).  `certCanon` rejects the automaton. -/

def cxG : Grammar := { nT := 4, rules := [⟨0, [5]⟩, ⟨5, [2]⟩, ⟨6, [6, 3]⟩, ⟨6, [4]⟩] }

def cxA : Auto :=
  { items := [[⟨0,0⟩, ⟨1,0⟩, ⟨2,0⟩], [⟨0,1⟩], [⟨1,1⟩], [⟨2,1⟩], [⟨2,2⟩]],
    gotos := [[(5,1), (2,2), (6,3)], [], [], [(3,4)], []] }

example : gramWF cxG 7 = true ∧ certA cxG cxA = true ∧ prodOK cxG 7 = true ∧
    dpStartOK cxG cxA = true ∧ certCanon cxG cxA = false := by decide

example : laLinesDP cxG 7 cxA = some [(1, 0, [1]), (2, 1, [1]), (4, 2, [3])] := by decide

theorem cx_LA {q : Nat} {it : Item} {a : Sym} (h : LA cxG cxA.goto q it a) : it.r ≤ 1 := by
  induction h with
  | init => exact Nat.zero_le _
  | clos q r d b r' a _ hs ih =>
    obtain ⟨rl, rl', hr, hr', hx, _⟩ := hs
    simp only at ih ⊢
    have hlt : r' < 4 := rule_lt hr'
    have hl : rl'.lhs = 5 := by
      rcases (by omega : r = 0 ∨ r = 1) with rfl | rfl
      · simp [cxG] at hr; subst hr
        cases d with
        | zero => simpa using hx.symm
        | succ d => simp at hx
      · simp [cxG] at hr; subst hr
        cases d with
        | zero =>
          simp at hx
          rcases (by omega : r' = 0 ∨ r' = 1 ∨ r' = 2 ∨ r' = 3) with rfl | rfl | rfl | rfl <;>
            simp [cxG] at hr' <;> subst hr' <;> simp at hx
        | succ d => simp at hx
    rcases (by omega : r' = 0 ∨ r' = 1 ∨ r' = 2 ∨ r' = 3) with rfl | rfl | rfl | rfl
    · exact Nat.zero_le _
    · exact Nat.le_refl _
    · simp [cxG] at hr'; subst hr'; simp at hl
    · simp [cxG] at hr'; subst hr'; simp at hl
  | goto q r d b rl X p _ _ _ _ ih => exact ih

/-- the lookahead `y` computed for `(4, A → A y ·)` is not an LALR(1) lookahead -/
example : ¬ LA cxG cxA.goto 4 ⟨2, 2⟩ 3 := fun h => absurd (cx_LA h) (by decide)

end Y.Props

#print axioms Y.Props.C03_dp_declarative
#print axioms Y.Props.C03_dp_read
#print axioms Y.Props.C03_dp_follow
#print axioms Y.Props.C03_dp_la
#print axioms Y.Props.C03_dp_exact
#print axioms Y.Props.C03_dp_exact_with
#print axioms Y.Props.C03_dp_lr1
#print axioms Y.Props.C03_dp_lines
#print axioms Y.Props.C03_dp_eq_laL
