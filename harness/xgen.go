package main

import (
	"bufio"
	"encoding/json"
	"fmt"
	"os"

	builder "github.com/acekingke/yaccgo/Builder"
	utils "github.com/acekingke/yaccgo/Utils"
)

// XJob: generate one output variant of one grammar text through the same entry points the CLI uses.
type XJob struct {
	ID     string `json:"id"`
	Src    string `json:"src"`
	Out    string `json:"out"`
	Target string `json:"target"` // "go" | "typescript"
	Unpack bool   `json:"unpack"`
	Object bool   `json:"object"`
	DotG   string `json:"dotg"` // non-empty: the -g option with this path
}

func cmdXgen() {
	w := bufio.NewWriter(realStdout)
	defer w.Flush()
	sc := bufio.NewScanner(os.Stdin)
	sc.Buffer(make([]byte, 1<<20), 1<<26)
	for sc.Scan() {
		var j XJob
		if err := json.Unmarshal(sc.Bytes(), &j); err != nil {
			fmt.Fprintln(os.Stderr, "bad job:", err)
			os.Exit(2)
		}
		var err error
		out, pv := capture(func() {
			// exactly what yaccgo/command.go does before calling the generator
			utils.PackFlags = !j.Unpack
			utils.HttpDebug = false
			utils.ObjectMode = j.Object
			utils.GenDotGraph = j.DotG != ""
			if j.DotG != "" {
				utils.GenDotPath = j.DotG
			}
			switch j.Target {
			case "go":
				err = builder.TemplateGenFromString(j.Src, j.Out)
			case "typescript":
				err = builder.TsGenFromString(j.Src, j.Out)
			}
		})
		_ = out
		if err != nil || pv != nil {
			cls, msg := classify(nil, pv)
			if err != nil {
				cls, msg = "error", err.Error()
			}
			fmt.Fprintf(w, "XGEN %s fail %s %s\n", j.ID, cls, oneLine(msg))
		} else {
			fmt.Fprintf(w, "XGEN %s ok\n", j.ID)
		}
	}
}
