import Yv.Model.Core
import Yv.Model.PackX
import Yv.Cert.Auto
import Yv.Cert.Complete
import Yv.Cert.Canon
import Yv.Cert.CompleteX
import Yv.Cert.LAOracle
import Yv.Model.PackA
import Yv.Model.Views
import Yv.Model.LR0L
import Yv.Model.SplitA
import Yv.Model.ListingDrv
import Yv.Model.ListingSets
import Yv.Model.Subst
import Yv.Model.Emit
import Yv.Model.EmitRead
import Yv.Model.DP
import Yv.Model.GenTab
import Yv.Model.Digraph
import Yv.Model.Drive
import Yv.Model.Term
import Yv.Model.XDrv
import Yv.Model.Visitor
/-! `ymodel`: line-protocol driver. Reads the dump the Go harness wrote for each case (grammar as
    the implementation built it, plus the implementation's automaton, lookaheads, table, packed
    arrays) and prints, per case,
      `M …`  the same stages recomputed by the Lean model (mirror correspondence), and
      `V …`  the verdicts of the verified certificates evaluated on the implementation's artefacts. -/
open Core

def ints (xs : List Int) : String := " ".intercalate (xs.map toString)
def nats (xs : List Nat) : String := " ".intercalate (xs.map toString)

def hexEncode (s : String) : String :=
  let hd (n : Nat) : Char := if n < 10 then Char.ofNat (48 + n) else Char.ofNat (87 + n)
  String.ofList (s.toUTF8.toList.flatMap fun b => [hd (b.toNat / 16), hd (b.toNat % 16)])

def hexVal (c : Char) : Nat :=
  if c.isDigit then c.toNat - '0'.toNat else if 'a' ≤ c && c ≤ 'f' then c.toNat - 'a'.toNat + 10 else 0

def hexDecode (s : String) : ByteArray :=
  let rec go : List Char → ByteArray → ByteArray
    | a :: b :: rest, acc => go rest (acc.push (UInt8.ofNat (hexVal a * 16 + hexVal b)))
    | _, acc => acc
  go s.toList ByteArray.empty

structure CaseAcc where
  id : String := ""
  eData : Emit.Data := { ids := [], syms := [], rows := [], need := false, act := [], off := [], check := [], actdef := [], gotodef := [], errC := 0, accC := 0, rules := [] }
  refuse : Option String := none
  nSyms : Nat := 0
  nT : Nat := 0
  prec : Array Int := #[]
  assoc : Array Int := #[]
  isNT : Array Bool := #[]
  nullable : Array Bool := #[]
  rules : Array Rule := #[]
  haveGrammar : Bool := false
  iStates : Array (List Item) := #[]
  iGotos : Array (List (Nat × Nat)) := #[]
  iLA : Array (Nat × Nat × List Nat) := #[]
  iRows : Array (List Int) := #[]
  packed : Bool := false
  iAct : List Int := []
  iOff : List Int := []
  iChk : List Int := []
  iADef : List Int := []
  iGDef : List Int := []
  inputs : Array (List Nat) := #[]
  codes : Option (Int × Int) := none
  wantDot : Bool := false
  dnames : Array String := #[]
  rnames : Array String := #[]
  sRules : Array Subst.RuleInfo := #[]
  sSkip : Bool := false
  iLLA : Array (Nat × Nat × List Nat) := #[]
  iLTR : Array (Nat × Bool × Nat) := #[]
  iLDR : Array (Nat × Nat × List Nat) := #[]
  iLRD : Array (Nat × Nat × List Nat) := #[]
  iLFO : Array (Nat × Nat × List Nat) := #[]

def parseItem (s : String) : Item :=
  match s.splitOn "." with
  | [a, b] => (a.toNat!, b.toNat!)
  | _ => (0, 0)

def toY (g : Gram) : Y.Grammar :=
  { nT := g.nT, rules := g.rules.toList.map fun r => ⟨r.lhs, r.rhs.toList⟩ }

def toYAuto (states : Array (List Item)) (gotos : Array (List (Nat × Nat))) : Y.Auto :=
  { items := states.toList.map fun its => its.map fun (r, d) => ⟨r, d⟩, gotos := gotos.toList }

def verdict (b : Bool) : String := if b then "ok" else "FAIL"

/-- lookahead sets of the complete items, as dumped by the harness: `(q, r, sorted syms)` -/
def laLines (g : Gram) (au : Auto) (t : LATab) : List (Nat × Nat × List Nat) :=
  (List.range au.states.size).flatMap fun q =>
    (t[q]!).filterMap fun (it, la) =>
      if it.2 == (g.rules[it.1]!).rhs.size then some (q, it.1, la) else none

def process (out : IO.FS.Stream) (a : CaseAcc) : IO Unit := do
  out.putStrLn s!"CASE {a.id}"
  if !a.haveGrammar then
    out.putStrLn "ENDCASE"
    return
  let g : Gram := { nSyms := a.nSyms, nT := a.nT, prec := a.prec, assoc := a.assoc, rules := a.rules }
  -- M: mirror, stage by stage.  Each stage is recomputed by the model FROM THE IMPLEMENTATION'S
  -- PREVIOUS STAGE, so a difference is local to the stage that introduced it.
  -- LR(0): the VERIFIED list-based worklist `Y.buildL` (C09_gen: its result always is the canonical
  -- collection); the array-based `Core.buildLR0` must agree with it (same states, same numbering)
  let yg0 := toY g
  match Y.buildL yg0 with
  | none => out.putStrLn "M TOO-MANY-STATES"
  | some la =>
    for q in [0:la.n] do
      out.putStrLn (s!"M STATE {q} " ++ " ".intercalate ((la.its q).map fun it => s!"{it.r}.{it.d}"))
      for (x, p) in la.gts q do out.putStrLn s!"M GOTO {q} {x} {p}"
    match buildLR0 g with
    | none => out.putStrLn "X coreLR0=buildL FAIL none"
    | some au =>
      let same := au.states.toList.map (fun its => its.map fun (r, d) => (⟨r, d⟩ : Y.Item)) == la.items && au.gotos.toList == la.gotos
      out.putStrLn s!"X coreLR0=buildL {verdict same}"
      -- is the GRAMMAR LALR(1)?  decided on the verified generator's automaton with the verified lookahead
      -- oracle, independently of the automaton the implementation built
      if same then
        match Y.laL yg0 g.nSyms la with
        | none => out.putStrLn "V isLALR1ref unknown"
        | some ylaRef =>
          let tref : LATab := au.states.mapIdx fun q its => its.map fun it => (it, ylaRef.get q ⟨it.1, it.2⟩)
          let mcRef := maxCands g au tref
          out.putStrLn s!"V isLALR1ref {if mcRef ≤ 1 then "yes" else "no"} {mcRef}"
      else out.putStrLn "V isLALR1ref unknown"
  let iau0 : Auto := { states := a.iStates, gotos := a.iGotos }
  -- lookaheads: the propagation fixpoint on the implementation's automaton
  match lalr g iau0 with
  | none => out.putStrLn "M LA-UNSTABLE"
  | some t =>
    for (q, r, la) in laLines g iau0 t do
      out.putStrLn (s!"M LA {q} {r} " ++ nats la)
  -- table rows and warnings: from the implementation's automaton and the implementation's lookaheads
  let ilat : LATab := iau0.states.mapIdx fun q its => its.map fun it =>
    match a.iLA.toList.find? (fun (x : Nat × Nat × List Nat) => x.1 == q && x.2.1 == it.1 && it.2 == (g.rules[it.1]!).rhs.size) with
    | some (_, _, la) => (it, la)
    | none => (it, [])
  for q in [0:iau0.states.size] do
    out.putStrLn (s!"M ROW {q} " ++ ints (genRow g iau0 ilat q).toList)
  for q in [0:iau0.states.size] do
    for (sy, x, y) in stateWarnings g iau0 ilat q do out.putStrLn s!"M WARN {q} {sy} {x} {y}"
  -- the VERIFIED list-based generator `Y.GT.genTableL` (genTable_certT: its table always passes certT;
  -- genRowL_eq_core: it computes the rows of `Core.genRow`) on the same inputs
  let vrows := Y.GT.genTableCore g iau0 ilat
  out.putStrLn s!"X genTableL=coreGenRow {verdict (vrows == (List.range iau0.states.size).map fun q => (genRow g iau0 ilat q).toList)}"
  if a.iRows.size > 0 then
    out.putStrLn s!"X genTableL=implRows {verdict (vrows == a.iRows.toList)}"
  -- split + pack: from the implementation's dense table
  if a.iRows.size > 0 then
    let irows := a.iRows.toList
    let s := PackX.trySplit irows g.nT
    let p := PackX.packTable s.tab
    let need := !(p.act.length + p.off.length + s.actdef.length + s.gtdef.length > irows.length * g.nSyms)
    -- hypotheses of C05_split_lookup on the implementation's dense table
    let ecode : Int := match a.codes with | some (e, _) => e | none => irows.length + 100
    let simple := SplitA.DenseSimple irows g.nT ecode
    out.putStrLn s!"V denseSimple {verdict simple}"
    -- `denseWF_of_simple`: the simple criterion implies the computed one; where it fails (e.g. a state
    -- whose actions were all removed by %nonassoc) the computed predicate itself is evaluated
    if simple then out.putStrLn "V denseWF ok"
    else if irows.length * g.nSyms ≤ 20000 then
      out.putStrLn s!"V denseWF {verdict (SplitA.DenseWF irows g.nT g.nSyms ecode)}"
    else out.putStrLn "V denseWF FAIL too-large-to-evaluate"
    if irows.length * g.nSyms ≤ 700 then
      -- small tables: the VERIFIED packing model on the split table must agree with the fast mirror
      let pa := PackA.packA s.tab
      out.putStrLn s!"X packA=PackX {verdict (pa.act == p.act && pa.off == p.off && pa.check == p.check)}"
    if need then
      out.putStrLn "M PACKED 1"
      out.putStrLn ("M ACT " ++ ints p.act)
      out.putStrLn ("M OFF " ++ ints p.off)
      out.putStrLn ("M CHK " ++ ints p.check)
      out.putStrLn ("M ADEF " ++ ints s.actdef)
      out.putStrLn ("M GDEF " ++ ints s.gtdef)
    else out.putStrLn "M PACKED 0"
  -- V: certificates on the implementation's artefacts
  let yg := toY g
  let ya := toYAuto a.iStates a.iGotos
  let rows := a.iRows.toList
  out.putStrLn s!"V gramWF {verdict (Y.gramWF yg g.nSyms)}"
  out.putStrLn s!"V certA {verdict (Y.certA yg ya)}"
  out.putStrLn s!"V certT {verdict (Y.certT yg g.nSyms ya rows)}"
  out.putStrLn s!"V certCanon {verdict (Y.certCanon yg ya)}"
  -- lookahead oracle on the implementation's own automaton: the VERIFIED list-based fixpoint `Y.laL`
  -- (C03_oracle_exact: its table is exactly the LALR(1) relation = union over canonical LR(1) states)
  let iau : Auto := { states := a.iStates, gotos := a.iGotos }
  out.putStrLn s!"V prodOK {verdict (Y.prodOK yg g.nSyms)}"
  match Y.laL yg g.nSyms ya with
  | none => out.putStrLn "V laOracle UNSTABLE"
  | some yla =>
    let want := Y.laLines yg ya yla
    let got := a.iLA.toList
    let bad := (want.filter fun x => !(got.contains x)) ++ (got.filter fun x => !(want.contains x))
    match bad with
    | [] => out.putStrLn s!"V laOracle ok {want.length}"
    | (q, r, la) :: _ => out.putStrLn (s!"V laOracle FAIL {q} {r} " ++ nats la)
    -- the DeRemer-Pennello stages of the VERIFIED model (C03_dp_exact), from the implementation's
    -- automaton and the implementation's nullable flags; every stage is compared with the implementation's
    let nl : List Nat := (List.range g.nSyms).filter fun i => a.nullable.getD i false
    out.putStrLn s!"V nullExact {verdict (Y.DP.nullExactB yg g.nSyms nl)}"
    out.putStrLn s!"V dpStartOK {verdict (Y.DP.dpStartOK yg ya)}"
    match Y.DP.stagesWith yg ya nl with
    | none => out.putStrLn "M DPNONE"
    | some st =>
      let rows := st.transRows
      for i in [0:rows.length] do
        let (q, isR, x, _) := rows.getD i (0, false, 0, 0)
        out.putStrLn s!"M DPTR {i} {q} {if isR then 1 else 0} {x}"
      for (i, _, _, d, r, f) in st.keyRows yg do
        out.putStrLn s!"M DPKEY {i} | {nats d} | {nats r} | {nats f}"
      let pr (l : List (Nat × Nat)) : String := String.join (l.map fun (x, y) => s!" {x}:{y}")
      out.putStrLn s!"M DPREL reads{pr st.readsSorted}"
      out.putStrLn s!"M DPREL includes{pr st.includesSorted}"
      out.putStrLn s!"M DPREL lookback{pr st.lookbackSorted}"
      out.putStrLn s!"X dp=laL {verdict (st.lines yg ya == want)}"
      -- the same stages with the three closures computed by the VERIFIED model of Digraph/Traverse
      -- (digraph_least, C03_dp_digraph): same sets
      out.putStrLn s!"V dgSizeOK {verdict (Y.DG.dgSizeOK yg ya nl)}"
      match Y.DG.stagesDG yg ya nl with
      | none => out.putStrLn "X stagesDG=stagesWith FAIL none"
      | some sd => out.putStrLn s!"X stagesDG=stagesWith {verdict (sd.keyRows yg == st.keyRows yg && sd.laRows == st.laRows)}"
    -- the fast array-based fixpoint (used only for the mirror stage) must agree with the verified one
    match lalr g iau with
    | none => out.putStrLn "X coreLalr=laL FAIL unstable"
    | some t => out.putStrLn s!"X coreLalr=laL {verdict (laLines g iau t == want)}"
    -- candidate actions, warnings and the LALR(1) test are computed from the verified lookaheads
    let t : LATab := iau.states.mapIdx fun q its => its.map fun it => (it, yla.get q ⟨it.1, it.2⟩)
    for q in [0:iau.states.size] do
      for (sy, x, y) in stateWarnings g iau t q do out.putStrLn s!"O WARN {q} {sy} {x} {y}"
    let mc := maxCands g iau t
    out.putStrLn s!"V isLALR1 {if mc ≤ 1 then "yes" else "no"} {mc}"
    if mc ≤ 1 then
      out.putStrLn s!"V certC {verdict (Y.certC yg ya yla rows)}"
      -- the remaining hypotheses of C02_complete (laL only returns tables that pass laClosed for setsL's sets)
      match Y.setsL yg g.nSyms with
      | none => out.putStrLn "V setsClosed FAIL"
      | some S =>
        out.putStrLn s!"V setsClosed {verdict (Y.setsClosed yg S)}"
        out.putStrLn s!"V laClosed {verdict (Y.laClosed yg S (Y.toLAData ya yla))}"
        out.putStrLn s!"V laTerm {verdict (Y.laTerm yg ya yla)}"
  -- packed lookup through the implementation's arrays
  if a.packed then
    let p : PackX.Packed := { act := a.iAct, off := a.iOff, check := a.iChk }
    let s : PackX.Split := { tab := [], actdef := a.iADef, gtdef := a.iGDef }
    -- a negative index answers ERROR_ACTION, i.e. the constant the implementation emits
    let err : Int := match a.codes with | some (e, _) => e | none => rows.length + 100
    let mut bad : Option (Nat × Nat) := none
    for q in [0:rows.length] do
      for x in [0:g.nSyms] do
        if bad.isNone && PackX.lookup p s g.nT err q x != (rows.getD q []).getD x 0 then bad := some (q, x)
    match bad with
    | none => out.putStrLn "V packLookup ok"
    | some (q, x) => out.putStrLn s!"V packLookup FAIL {q} {x}"
  -- the DOT view of the verified views model (C18_views) on the implementation's automaton and table
  if a.wantDot then
    let names : Nat → String := fun i => a.dnames.getD i "?"
    let d := Y.dotView names yg ya rows
    for nd in d.nodes do
      out.putStrLn s!"M HDOTNODE state_{nd.state} {if nd.filled then 1 else 0} {hexEncode (Y.nodeLabel nd)}"
    for e in d.edges do
      out.putStrLn s!"M HDOTEDGE state_{e.src} state_{e.dst} {hexEncode ("\"" ++ e.label ++ "\"")}"
  -- the text listing of the verified listing model (C18_listing_*) on the implementation's automaton
  -- and on its lookahead lists in the implementation's own order
  if a.rnames.size > 0 then
    let (sl, ll) := Y.listingLines a.rnames yg a.iStates a.iGotos a.iLLA
    for l in sl do out.putStrLn s!"M HLISTS {hexEncode l}"
    for l in ll do out.putStrLn s!"M HLISTLA {hexEncode l}"
    -- the other sections (C18_listing_trans / _sets / _follow) on the implementation's transitions and sets
    let nm := Y.namesOf a.rnames
    for l in Y.transView nm yg a.iLTR.toList do out.putStrLn s!"M HLISTTR {hexEncode l}"
    for l in Y.setView nm a.iLDR.toList do out.putStrLn s!"M HLISTDR {hexEncode l}"
    for l in Y.setView nm a.iLRD.toList do out.putStrLn s!"M HLISTRD {hexEncode l}"
    for l in Y.followView nm a.iLFO.toList do out.putStrLn s!"M HLISTFO {hexEncode l}"
  -- R: the driver model run on the implementation's dense table
  -- the action constants are the ones the implementation will emit (CODES line); on a certified
  -- table they are `errCode n` / `accCode n` and P is exactly `dparams` (checked as V codes)
  let P0 : Y.D.Params Unit := Y.D.dparams yg rows rows.length (fun _ _ => ()) ()
  let P : Y.D.Params Unit := match a.codes with
    | some (e, c) => { P0 with errC := e, accC := c }
    | none => P0
  out.putStrLn s!"V codes {verdict (P.errC == Y.errCode rows.length && P.accC == Y.accCode rows.length)}"
  -- hypothesis of C06_terminates: every reduce-only simulation from [0] and from every adjacent pair of states
  -- leaves the reduce regime within F moves under every lookahead, and no row shifts the end marker
  out.putStrLn s!"V certTerm {verdict (Y.Term.certTermFast yg rows rows.length 20000)}"
  for i in [0:a.inputs.size] do
    let w := a.inputs[i]!
    match Y.D.run P (200 * (w.length + 2) + 200) (Y.D.init () (w.map fun x => (x, ()))) with
    | .accept _ c => out.putStrLn (s!"R {i} accept {c.req} " ++ nats c.reds.reverse)
    | .syntaxError c => out.putStrLn (s!"R {i} reject {c.req} " ++ nats c.reds.reverse)
    | .crash => out.putStrLn s!"R {i} crash 0"
    | .outOfFuel => out.putStrLn s!"R {i} fuel 0"
  out.putStrLn "ENDCASE"

structure XAcc where
  id : String := ""
  active : Bool := false
  errC : Int := 0
  accC : Int := 0
  nT : Nat := 0
  rows : Array (Array Int) := #[]
  isPacked : Bool := false
  act : Array Int := #[]
  off : Array Int := #[]
  chk : Array Int := #[]
  adef : Array Int := #[]
  gdef : Array Int := #[]
  rules : Array (Option XDrv.RuleD) := #[]
  tok : Array Nat := #[]
  startTag : Nat := 0
  stepLimit : Nat := 3000
  inputs : Array (Array Nat) := #[]
  wantTrace : Bool := false
  isPack : Bool := false          -- PCASE block: a matrix for the packing model
  prow : Array (List Int) := #[]

def parseTerm (s : String) : Int × Nat :=
  match s.splitOn ":" with
  | [c, t] => (c.toInt!, t.toNat!)
  | _ => (0, 0)

def setRule (rs : Array (Option XDrv.RuleD)) (i : Nat) (r : XDrv.RuleD) : Array (Option XDrv.RuleD) :=
  let rs := if rs.size ≤ i then rs ++ Array.replicate (i + 1 - rs.size) none else rs
  rs.set! i (some r)

def evStr : XDrv.Ev → String
  | .shift s q => s!"S:{s}:{q}"
  | .reduce la r q => s!"R:{r}:{q}:{la}"

/-- union value of the X harness: fields `a`, `b` -/
abbrev XVal := Int × Int

def xField (v : XVal) (tag : Nat) : Int := if tag == 0 then v.1 else v.2

/-- the harness's semantic action of rule r: `$$.tag = (K + Σ cₖ·$k.tagₖ) mod p`, other field zero -/
def xSem (rules : Array (Option XDrv.RuleD)) (r : Nat) (vals : List XVal) : XVal :=
  match (rules[r]?).join with
  | none => (0, 0)
  | some rd =>
    let v := ((vals.zip rd.terms).foldl (fun acc (e, (c, tg)) => acc + c * xField e tg) rd.k) % XDrv.MOD
    if rd.lhsTag == 0 then (v, 0) else (0, v)

/-- The VERIFIED step function `Y.D.step`, iterated with the harness's step limit (the generated
    actions abort the parse at the (limit+1)-th reduction). -/
def runLimited (P : Y.D.Params XVal) (limit : Nat) : Nat → Y.D.Cfg XVal → String × Y.D.Cfg XVal × XVal
  | 0, c => ("crash:fuel", c, (0, 0))
  | fuel + 1, c =>
    match Y.D.step P c with
    | .next c' => if c'.reds.length > limit then ("loop", c', (0, 0)) else runLimited P limit fuel c'
    | .acc v c' => ("accept", c', v)
    | .err c' => ("reject", c', (0, 0))
    | .crash => ("crash", c, (0, 0))

def evStrD : Y.D.Ev → String
  | .shift s q => s!"S:{s}:{q}"
  | .reduce la r q => s!"R:{r}:{q}:{la}"

def processX (out : IO.FS.Stream) (x : XAcc) : IO Unit := do
  out.putStrLn s!"XCASE {x.id}"
  let look : XDrv.Look := if x.isPacked then .packed x.act x.off x.chk x.adef x.gdef x.nT else .dense x.rows
  -- the parameters of the verified driver model, instantiated from the generated file's own literals
  let P : Y.D.Params XVal :=
    { L := fun q a => look.get x.errC (q : Int) a, errC := x.errC, accC := x.accC,
      rule := fun r => ((x.rules[r]?).join).map fun rd => (rd.lhs, rd.n),
      sem := xSem x.rules, eofVal := (0, 0) }
  for i in [0:x.inputs.size] do
    let inp := x.inputs[i]!
    let w : List (Nat × XVal) := inp.toList.zipIdx.map fun (c, pos) => ((x.tok[c]?).getD 0, ((pos : Int) + 1, 2 * (pos : Int) + 1))
    let (v, c, val) := runLimited P x.stepLimit ((x.stepLimit + 10) * (inp.size + 2) + 100) (Y.D.init (0, 0) w)
    let log := if v == "loop" then [] else c.reds.reverse
    out.putStrLn (s!"XR {i} {v} {c.req} {xField val x.startTag} " ++ nats log)
    if x.wantTrace then out.putStrLn (s!"XT {i} " ++ " ".intercalate (c.trace.reverse.map evStrD))
  out.putStrLn "XEND"

def quoteAscii (s : String) : String :=
  let body := s.toList.foldl (fun acc c =>
    acc ++ (if c == '"' then "\\\"" else if c == '\\' then "\\\\" else if c == '\n' then "\\n"
            else if c == '\t' then "\\t" else if c == '\r' then "\\r"
            else if c.toNat < 32 || c.toNat == 127 then
              let h := Nat.toDigits 16 c.toNat
              "\\x" ++ (if h.length < 2 then "0" else "") ++ String.ofList h
            else String.singleton c)) ""
  "\"" ++ body ++ "\""

/-- the front end on one text: tokens, AST, grammar or refusal -/
def processF (out : IO.FS.Stream) (id : String) (hex : String) : IO Unit := do
  out.putStrLn s!"FCASE {id}"
  match String.fromUTF8? (hexDecode hex) with
  | none => out.putStrLn "M NONUTF8"
  | some src =>
    if src.toList.any (fun c => c.toNat ≥ 128) then out.putStrLn "M NONASCII"
    else
    let (toks, ok) := YLex.lexAll src
    for t in toks do out.putStrLn s!"M TOK {t.kind.name} {quoteAscii t.value} {t.endAt}"
    if !ok then out.putStrLn "M LEX-OUT-OF-FUEL"
    match YParse.parse src with
    | none => out.putStrLn "M AST ERR"
    | some r =>
      out.putStrLn s!"M AST code {quoteAscii r.decl.code}"
      out.putStrLn s!"M AST union {quoteAscii r.decl.union}"
      out.putStrLn s!"M AST start {quoteAscii r.decl.start}"
      for td in r.decl.tokDefs do
        out.putStrLn "M AST tokdef"
        for i in td do out.putStrLn s!"M AST id {quoteAscii i.name} {i.value} {quoteAscii i.tag} {quoteAscii i.alias}"
      for pl in r.decl.precDefs do
        out.putStrLn "M AST precline"
        for p in pl do out.putStrLn s!"M AST prec {quoteAscii p.name} {p.assoc}"
      for ty in r.decl.typeDefs do out.putStrLn s!"M AST type {quoteAscii ty.name} {quoteAscii ty.tag}"
      for ru in r.rules do
        out.putStrLn s!"M AST rule {quoteAscii ru.lhs} prec {quoteAscii ru.precSym}"
        for e in ru.rhs do out.putStrLn s!"M AST el {e.ty} {quoteAscii e.el}"
      out.putStrLn s!"M AST rest {quoteAscii r.rest}"
      match Visitor.front r with
      | .error e => out.putStrLn s!"M REFUSE {e.name}"
      | .ok b =>
        out.putStrLn s!"M GRAMMAR {b.syms.length} {b.nT}"
        let nl := Visitor.nullable b
        for sy in b.syms do
          out.putStrLn s!"M SYM {sy.id} {if sy.isNT then 1 else 0} {sy.value} {sy.prec} {sy.assoc} {if nl.contains sy.id then 1 else 0} {quoteAscii sy.name} {quoteAscii sy.tag}"
        for (i, r) in b.rules.zipIdx.map (fun (r, i) => (i, r)) do
          out.putStrLn (s!"M RULE {i} {r.lhs} {r.precSym} " ++ nats r.rhs)
  out.putStrLn "FEND"

def unq (s : String) : String := s

partial def loop (inp out : IO.FS.Stream) (a : CaseAcc) (x : XAcc := {}) : IO Unit := do
  let line ← inp.getLine
  if line.isEmpty then return ()
  let ws := (line.trimAscii.toString.splitOn " ").filter (· ≠ "")
  if x.isPack then
    match ws with
    | "PROW" :: cells => loop inp out a { x with prow := x.prow.push (cells.map String.toInt!) }
    | "PEND" :: _ => do
      let tab := x.prow.toList
      -- the VERIFIED packing model (C05_pack_roundtrip is a theorem about `PackA.packA`)
      let p := PackA.packA tab
      let px := PackX.packTable tab
      out.putStrLn s!"PCASE {x.id}"
      out.putStrLn ("M PACT " ++ ints p.act)
      out.putStrLn ("M POFF " ++ ints p.off)
      out.putStrLn ("M PCHK " ++ ints p.check)
      -- the fast array-based mirror used on large tables must agree with it
      out.putStrLn s!"X packA=PackX {verdict (p.act == px.act && p.off == px.off && p.check == px.check)}"
      out.putStrLn "PEND"
      loop inp out a {}
    | _ => loop inp out a x
  else if x.active then
    match ws with
    | "XCONST" :: e :: c :: t :: lim :: tr :: _ =>
      loop inp out a { x with errC := e.toInt!, accC := c.toInt!, nT := t.toNat!, stepLimit := lim.toNat!, wantTrace := tr == "1" }
    | "XROW" :: cells => loop inp out a { x with rows := x.rows.push (cells.map String.toInt!).toArray }
    | "XACT" :: xs => loop inp out a { x with isPacked := true, act := (xs.map String.toInt!).toArray }
    | "XOFF" :: xs => loop inp out a { x with off := (xs.map String.toInt!).toArray }
    | "XCHK" :: xs => loop inp out a { x with chk := (xs.map String.toInt!).toArray }
    | "XADEF" :: xs => loop inp out a { x with adef := (xs.map String.toInt!).toArray }
    | "XGDEF" :: xs => loop inp out a { x with gdef := (xs.map String.toInt!).toArray }
    | "XRULE" :: r :: lhs :: tag :: n :: k :: terms =>
      loop inp out a { x with rules := setRule x.rules r.toNat! { lhs := lhs.toNat!, lhsTag := tag.toNat!, n := n.toNat!, k := k.toInt!, terms := terms.map parseTerm } }
    | "XTOK" :: xs => loop inp out a { x with tok := (xs.map String.toNat!).toArray }
    | "XSTART" :: t :: _ => loop inp out a { x with startTag := t.toNat! }
    | "XINPUT" :: xs => loop inp out a { x with inputs := x.inputs.push ((xs.filter (· ≠ "-")).map String.toNat!).toArray }
    | "XEND" :: _ => do processX out x; loop inp out a {}
    | _ => loop inp out a x
  else
  match ws with
  | "XCASE" :: id :: _ => loop inp out a { id := id, active := true }
  | "PCASE" :: id :: _ => loop inp out a { id := id, isPack := true }
  | "SCASE" :: id :: _ => loop inp out { id := id }
  | "SRULE" :: _ :: lhsId :: lineNo :: lhsName :: lhsTag :: code :: n :: rest =>
    -- rest = n pairs (name, tag), then "|", the number of names of the visitor's rule, and its extra names
    let hx (t : String) : String := if t == "-" then "" else
      match String.fromUTF8? (hexDecode t) with | some x => x | none => "?"
    let k := n.toNat!
    let pairs := (List.range k).map fun i => (hx (rest.getD (2 * i) "-"), hx (rest.getD (2 * i + 1) "-"))
    let extra := (rest.drop (2 * k + 2)).length
    loop inp out { a with sSkip := a.sSkip || extra != 0,
                          sRules := a.sRules.push { lhsId := lhsId.toNat!, lhsName := hx lhsName, lhsTag := hx lhsTag,
                                                    rhs := pairs, lineNo := lineNo.toNat!, code := hx code } }
  | "SEND" :: _ => do
    out.putStrLn s!"SCASE {a.id}"
    if a.sSkip then out.putStrLn "M SSKIP"
    else
      for (tag, t) in [("SGO", Subst.Target.goGlobal), ("SOBJ", Subst.Target.goObject), ("STS", Subst.Target.ts)] do
        match Subst.driverReduceFunc a.sRules t with
        | none => out.putStrLn s!"M {tag} PANIC"
        | some txt => out.putStrLn s!"M {tag} {if txt.isEmpty then "-" else hexEncode txt}"
    out.putStrLn "SEND"
    loop inp out {}
  | "ECASE" :: id :: _ => loop inp out { id := id }
  | "EID" :: nm :: t :: v :: _ =>
    let hx (t : String) : String := if t == "-" then "" else
      match String.fromUTF8? (hexDecode t) with | some x => x | none => "?"
    loop inp out { a with eData := { a.eData with ids := a.eData.ids ++ [⟨hx nm, t == "1", v.toInt!⟩] } }
  | "ESYM" :: i :: nt :: v :: nm :: _ =>
    let hx (t : String) : String := if t == "-" then "" else
      match String.fromUTF8? (hexDecode t) with | some x => x | none => "?"
    loop inp out { a with eData := { a.eData with syms := a.eData.syms ++ [⟨i.toNat!, nt == "1", v.toInt!, hx nm⟩] } }
  | "EROW" :: _ :: cells => loop inp out { a with eData := { a.eData with rows := a.eData.rows ++ [cells.map String.toInt!] } }
  | "ENEED" :: b :: _ => loop inp out { a with eData := { a.eData with need := b == "1" } }
  | "EARR" :: nm :: xs =>
    let v := xs.map String.toInt!
    let d := a.eData
    let d := if nm == "act" then { d with act := v } else if nm == "off" then { d with off := v }
      else if nm == "check" then { d with check := v } else if nm == "actdef" then { d with actdef := v }
      else { d with gotodef := v }
    loop inp out { a with eData := d }
  | "ECODES" :: e :: c :: _ => loop inp out { a with eData := { a.eData with errC := e.toInt!, accC := c.toInt! } }
  | "ERULE" :: _ :: l :: _ :: rs =>
    let hx (t : String) : String := if t == "-" then "" else
      match String.fromUTF8? (hexDecode t) with | some x => x | none => "?"
    loop inp out { a with eData := { a.eData with rules := a.eData.rules ++ [⟨hx l, rs.map hx⟩] } }
  | "EEND" :: _ => do
    out.putStrLn s!"ECASE {a.id}"
    if a.refuse.isNone then
      -- hypotheses of the read-back theorems (C11_emit_consts_readback_*, C06_emitted_codes_*, C01_emit_dense_readback_*)
      let d := a.eData
      let named := d.ids.filter fun i => i.isTerm && !Emit.isTemp i.name
      let hn := named.all fun i => !i.name.toList.isEmpty && i.name.toList.all fun c => c != ' ' && c != '=' && c != '\n'
      let hc := named.all fun i => i.name != "ERROR_ACTION" && i.name != "ACCEPT_ACTION"
      let hcmt := d.syms.all fun sy => !Emit.hasCmtEnd sy.name.toList
      out.putStrLn s!"M EV constNames {verdict hn} codeNames {verdict hc} noCommentEnd {verdict hcmt}"
      for variant in ["gop", "god", "ts"] do
        for (k, t) in Emit.parts a.eData variant do
          match t with
          | none => out.putStrLn s!"M EP {variant} {k} SKIP"
          | some txt => out.putStrLn s!"M EP {variant} {k} {if txt.isEmpty then "-" else hexEncode txt}"
    out.putStrLn "EEND"
    loop inp out {}
  | "FCASE" :: id :: _ => loop inp out { id := id }
  | "SRC" :: hex :: _ => do processF out a.id hex; loop inp out {}
  | ["SRC"] => do processF out a.id ""; loop inp out {}
  | "CASE" :: id :: _ => loop inp out { id := id }
  | "REFUSE" :: cls :: _ => loop inp out { a with refuse := some cls }
  | "GRAMMAR" :: n :: t :: _ =>
    loop inp out { a with nSyms := n.toNat!, nT := t.toNat!, haveGrammar := true,
                          prec := Array.replicate n.toNat! (-1), assoc := Array.replicate n.toNat! 2,
                          isNT := Array.replicate n.toNat! false, nullable := Array.replicate n.toNat! false }
  | "SYM" :: i :: nt :: _val :: p :: s :: nl :: _ =>
    loop inp out { a with prec := a.prec.set! i.toNat! p.toInt!, assoc := a.assoc.set! i.toNat! s.toInt!,
                          isNT := a.isNT.set! i.toNat! (nt == "1"), nullable := a.nullable.set! i.toNat! (nl == "1") }
  | "RULE" :: _ :: lhs :: ps :: rhs =>
    loop inp out { a with rules := a.rules.push { lhs := lhs.toNat!, rhs := (rhs.map String.toNat!).toArray, precSym := ps.toInt! } }
  | "STATE" :: _ :: _ :: items =>
    loop inp out { a with iStates := a.iStates.push (items.map parseItem), iGotos := a.iGotos.push [] }
  | "GOTO" :: q :: x :: p :: _ =>
    let qi := q.toNat!
    loop inp out { a with iGotos := a.iGotos.set! qi ((a.iGotos[qi]!) ++ [(x.toNat!, p.toNat!)]) }
  | "LA" :: q :: r :: syms =>
    loop inp out { a with iLA := a.iLA.push (q.toNat!, r.toNat!, syms.map String.toNat!) }
  | "ROW" :: _ :: cells => loop inp out { a with iRows := a.iRows.push (cells.map String.toInt!) }
  | "PACKED" :: b :: _ => loop inp out { a with packed := b == "1" }
  | "ACT" :: xs => loop inp out { a with iAct := xs.map String.toInt! }
  | "OFF" :: xs => loop inp out { a with iOff := xs.map String.toInt! }
  | "CHK" :: xs => loop inp out { a with iChk := xs.map String.toInt! }
  | "ADEF" :: xs => loop inp out { a with iADef := xs.map String.toInt! }
  | "GDEF" :: xs => loop inp out { a with iGDef := xs.map String.toInt! }
  | "INPUT" :: xs => loop inp out { a with inputs := a.inputs.push (xs.map String.toNat!) }
  | "CODES" :: e :: c :: _ => loop inp out { a with codes := some (e.toInt!, c.toInt!) }
  | "LLA" :: q :: r :: syms =>
    loop inp out { a with iLLA := a.iLLA.push (q.toNat!, r.toNat!, syms.map String.toNat!) }
  | "LTR" :: q :: k :: x :: _ =>
    loop inp out { a with iLTR := a.iLTR.push (q.toNat!, k == "1", x.toNat!) }
  | "LDR" :: q :: x :: syms =>
    match q.toNat? with
    | some qn => loop inp out { a with iLDR := a.iLDR.push (qn, x.toNat!, syms.map String.toNat!) }
    | none => loop inp out a
  | "LRD" :: q :: x :: syms =>
    match q.toNat? with
    | some qn => loop inp out { a with iLRD := a.iLRD.push (qn, x.toNat!, syms.map String.toNat!) }
    | none => loop inp out a
  | "LFO" :: q :: x :: syms =>
    match q.toNat? with
    | some qn => loop inp out { a with iLFO := a.iLFO.push (qn, x.toNat!, syms.map String.toNat!) }
    | none => loop inp out a
  | "RNAME" :: i :: rest =>
    let nm := match String.fromUTF8? (hexDecode (rest.headD "")) with | some x => x | none => "?"
    let idx := i.toNat!
    let arr := if a.rnames.size ≤ idx then a.rnames ++ Array.replicate (idx + 1 - a.rnames.size) "" else a.rnames
    loop inp out { a with rnames := arr.set! idx nm }
  | "WANTDOT" :: _ => loop inp out { a with wantDot := true }
  | "DNAME" :: i :: rest =>
    let nm := match String.fromUTF8? (hexDecode (rest.headD "")) with | some x => x | none => "?"
    let idx := i.toNat!
    let arr := if a.dnames.size ≤ idx then a.dnames ++ Array.replicate (idx + 1 - a.dnames.size) "" else a.dnames
    loop inp out { a with dnames := arr.set! idx nm }
  | "ENDCASE" :: _ => do process out a; loop inp out {}
  | _ => loop inp out a

def main (args : List String) : IO Unit := do
  let inp ← IO.getStdin
  let out ← IO.getStdout
  match args with
  | _ => loop inp out {}
