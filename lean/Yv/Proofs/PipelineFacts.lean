import Yv.Proofs.GenTabFacts
import Yv.Proofs.LAOracleFacts
import Yv.Cert.CompleteX
/-! Glue for the end-to-end corollaries of `Yv/Props/C01gen.lean`:

    * the canonical-collection certificate `certCanon` (which `buildL`'s automaton always passes)
      implies, for a well-formed grammar, the LR(0) certificate `certA` used by C01/C02 and the
      side condition `gotosOK` of the table generator;
    * the lookahead table returned by `laL` satisfies `laOK` and `laTerm` (lookaheads are terminals,
      items of rule 0 only carry the end marker) — by an invariant of the iteration, without any
      productivity assumption on the grammar. -/
namespace Y.GT

/-! ## `certCanon` ⇒ `certA`, `gotosOK` -/

theorem Cl0_cases {G : Grammar} {K : Item → Prop} {it : Item} (h : Cl0 G K it) :
    K it ∨ (it.d = 0 ∧ ∃ r d rl rl', Cl0 G K ⟨r, d⟩ ∧ G.rules[r]? = some rl ∧
      G.rules[it.r]? = some rl' ∧ rl.rhs[d]? = some rl'.lhs) := by
  cases h with
  | base _ hk => exact Or.inl hk
  | step r d r' rl rl' h1 h2 h3 h4 => exact Or.inr ⟨rfl, r, d, rl, rl', h1, h2, h3, h4⟩

/-- the kernel of a state of a canonical automaton: the start item for state 0, the items of a
    predecessor advanced over the entry symbol for the others -/
def KernOf (G : Grammar) (A : Auto) (q : Nat) (K : Item → Prop) : Prop :=
  (q = 0 ∧ ∀ it, K it ↔ it = ⟨0, 0⟩) ∨
  (q ≠ 0 ∧ ∃ q' X, q' < A.n ∧ (X, q) ∈ A.gts q' ∧
    ∀ it, K it ↔ adv0 G X (fun x => x ∈ A.its q') it)

theorem st_desc {G : Grammar} {A : Auto} (ok : CanonOK G A) {q : Nat} (hq : q < A.n) :
    ∃ K, (∀ it, it ∈ A.its q ↔ Cl0 G K it) ∧ KernOf G A q K := by
  by_cases h0 : q = 0
  · subst h0
    exact ⟨fun x => x = ⟨0, 0⟩, ok.s0, Or.inl ⟨rfl, fun _ => Iff.rfl⟩⟩
  · obtain ⟨q', hq', X, hX⟩ := ok.reach q hq h0
    have hq'n : q' < A.n := Nat.lt_trans hq' hq
    exact ⟨_, (ok.entry q' hq'n X q hX).2.2, Or.inr ⟨h0, q', X, hq'n, hX, fun _ => Iff.rfl⟩⟩

section Canon
variable {G : Grammar} {nS : Nat} {A : Auto}

theorem canon_item_ok (hG : GOK G nS) (ok : CanonOK G A) {q : Nat} (hq : q < A.n) {it : Item}
    (hit : it ∈ A.its q) : it.r < G.rules.length ∧ it.d ≤ (G.rhsOf it.r).length := by
  obtain ⟨K, hm, hk⟩ := st_desc ok hq
  rcases Cl0_cases ((hm it).mp hit) with h | ⟨hd, _, _, _, rl', _, _, hr', _⟩
  · rcases hk with ⟨_, hk⟩ | ⟨_, q', X, _, _, hk⟩
    · rw [(hk it).mp h]
      obtain ⟨rl0, hr0, _⟩ := hG.r0
      exact ⟨rule_lt hr0, Nat.zero_le _⟩
    · obtain ⟨r, d, rl, rfl, hr, hx, _⟩ := (hk it).mp h
      refine ⟨rule_lt hr, ?_⟩
      simp only [D.rhsOf_eq hr]
      have : d < rl.rhs.length := by
        rcases Nat.lt_or_ge d rl.rhs.length with h' | h'
        · exact h'
        · rw [List.getElem?_eq_none h'] at hx; cases hx
      exact this
  · exact ⟨rule_lt hr', by rw [hd]; exact Nat.zero_le _⟩

theorem canon_s0_dot (ok : CanonOK G A) {it : Item} (hit : it ∈ A.its 0) : it.d = 0 := by
  rcases Cl0_cases ((ok.s0 it).mp hit) with h | ⟨hd, _⟩
  · rw [h]
  · exact hd

theorem canon_start_only0 (hG : GOK G nS) (ok : CanonOK G A) {q : Nat} (hq : q < A.n)
    (hit : (⟨0, 0⟩ : Item) ∈ A.its q) : q = 0 := by
  obtain ⟨K, hm, hk⟩ := st_desc ok hq
  rcases hk with ⟨h0, _⟩ | ⟨_, q', X, _, _, hk⟩
  · exact h0
  · exfalso
    rcases Cl0_cases ((hm _).mp hit) with h | ⟨_, r, d, rl, rl', _, hr, hr', hx⟩
    · obtain ⟨r, d, rl, he, _⟩ := (hk _).mp h
      cases he
    · obtain ⟨rl0, hr0, hl0, _⟩ := hG.r0
      simp only at hr'
      rw [hr0] at hr'; cases hr'
      have := (hG.rhs_ok r rl hr _ (List.mem_of_getElem? hx)).1
      rw [hl0] at this
      exact absurd this (by decide)

theorem canon_edge (ok : CanonOK G A) {q : Nat} (hq : q < A.n) {e : Sym × Nat}
    (he : e ∈ A.gts q) : e.2 < A.n ∧ e.2 ≠ 0 ∧
      ∀ it ∈ A.its e.2, it.d = 0 ∨
        ((G.rhsOf it.r)[it.d - 1]? = some e.1 ∧ (⟨it.r, it.d - 1⟩ : Item) ∈ A.its q) := by
  obtain ⟨X, p⟩ := e
  obtain ⟨⟨jt, hjt, hjx⟩, hp, hm⟩ := ok.entry q hq X p he
  refine ⟨hp, ?_, ?_⟩
  · intro h0
    simp only at h0
    subst h0
    obtain ⟨rl, hr, hx⟩ := rhsOf_get.mp hjx
    have : (⟨jt.r, jt.d + 1⟩ : Item) ∈ A.its 0 :=
      (hm _).mpr (Cl0.base _ ⟨jt.r, jt.d, rl, rfl, hr, hx, hjt⟩)
    have := canon_s0_dot ok this
    cases this
  · intro it hit
    rcases Cl0_cases ((hm it).mp hit) with h | ⟨hd, _⟩
    · obtain ⟨r, d, rl, rfl, hr, hx, hmem⟩ := h
      right
      exact ⟨rhsOf_get.mpr ⟨rl, hr, by simpa using hx⟩, by simpa using hmem⟩
    · exact Or.inl hd

theorem canon_gotoC (ok : CanonOK G A) {q : Nat} (hq : q < A.n) {it : Item} (hit : it ∈ A.its q)
    {X : Sym} (hX : (G.rhsOf it.r)[it.d]? = some X) :
    ∃ p, A.goto q X = some p ∧ (⟨it.r, it.d + 1⟩ : Item) ∈ A.its p := by
  obtain ⟨p, hg⟩ := Auto.goto_of_mem (ok.gotoC q hq it hit X hX)
  refine ⟨p, hg, ?_⟩
  obtain ⟨rl, hr, hx⟩ := rhsOf_get.mp hX
  exact ((ok.entry q hq X p (Auto.goto_mem hg)).2.2 _).mpr
    (Cl0.base _ ⟨it.r, it.d, rl, rfl, hr, hx, hit⟩)

theorem canon_just (ok : CanonOK G A) {q : Nat} (hq : q < A.n) {it : Item} (hit : it ∈ A.its q)
    (hd : it.d = 0) (hr : it.r ≠ 0) :
    ∃ jt ∈ A.its q, (G.rhsOf jt.r)[jt.d]? = some (G.lhsOf it.r) := by
  obtain ⟨K, hm, hk⟩ := st_desc ok hq
  rcases Cl0_cases ((hm it).mp hit) with h | ⟨_, r, d, rl, rl', hc, hrl, hrl', hx⟩
  · exfalso
    rcases hk with ⟨_, hk⟩ | ⟨_, q', X, _, _, hk⟩
    · rw [(hk it).mp h] at hr; exact hr rfl
    · obtain ⟨r, d, rl, rfl, _⟩ := (hk it).mp h
      cases hd
  · refine ⟨⟨r, d⟩, (hm _).mpr hc, ?_⟩
    rw [lhsOf_of_get hrl']
    exact rhsOf_get.mpr ⟨rl, hrl, hx⟩

/-- for a well-formed grammar the canonical-collection certificate implies the LR(0) certificate -/
theorem certA_of_canon (hG : gramWF G nS = true) (hC : certCanon G A = true) : certA G A = true := by
  have hG' := gramWF_ok hG
  have ok := certCanon_ok hC
  unfold certA
  simp only [Bool.and_eq_true, decide_eq_true_eq, List.all_eq_true, List.mem_range]
  refine ⟨⟨⟨⟨⟨⟨⟨⟨ok.npos, ok.glen⟩, ?_⟩, ?_⟩, ?_⟩, ?_⟩, ?_⟩, ?_⟩, ?_⟩
  · intro q hq it hit
    exact canon_item_ok hG' ok hq hit
  · intro it hit
    simp [canon_s0_dot ok hit]
  · simpa using (ok.s0 _).mpr (Cl0.base _ rfl)
  · intro q hq
    by_cases h0 : q = 0
    · simp [h0]
    · have : ¬ (⟨0, 0⟩ : Item) ∈ A.its q := fun h => h0 (canon_start_only0 hG' ok hq h)
      simp [this]
  · intro q hq e he
    obtain ⟨h1, h2, h3⟩ := canon_edge (G := G) ok hq he
    refine ⟨⟨h1, h2⟩, fun it hit => ?_⟩
    rcases h3 it hit with h | ⟨ha, hb⟩
    · simp [h]
    · simp [ha, hb]
  · intro q hq it hit
    split
    · rfl
    · rename_i X hX
      obtain ⟨p, hg, hm⟩ := canon_gotoC ok hq hit hX
      simp [hg, hm]
  · intro q hq it hit
    by_cases hd : it.d = 0
    · by_cases hr : it.r = 0
      · simp [hr]
      · obtain ⟨jt, hjt, hj⟩ := canon_just ok hq hit hd hr
        simp only [Bool.or_eq_true, bne_iff_ne, ne_eq, beq_iff_eq, List.any_eq_true]
        exact Or.inr ⟨jt, hjt, hj⟩
    · simp [hd]

/-- … and the side condition of the table generator on the goto lists -/
theorem gotosOK_of_canon (hG : gramWF G nS = true) (hC : certCanon G A = true) :
    gotosOK nS A = true := by
  have hG' := gramWF_ok hG
  have ok := certCanon_ok hC
  have hnd : ∀ q, q < A.n → nodupB ((A.gts q).map Prod.fst) = true := by
    unfold certCanon at hC
    simp only [Bool.and_eq_true] at hC
    exact all_range hC.1.1.1.2
  unfold gotosOK
  simp only [List.all_eq_true, List.mem_range, Bool.and_eq_true, decide_eq_true_eq]
  intro q hq
  refine ⟨hnd q hq, fun e he => ?_⟩
  obtain ⟨X, p⟩ := e
  obtain ⟨⟨jt, _, hjx⟩, _, _⟩ := ok.entry q hq X p he
  obtain ⟨rl, hr, hx⟩ := rhsOf_get.mp hjx
  exact hG'.rhs_ok jt.r rl hr X (List.mem_of_getElem? hx)

end Canon

/-! ## the table returned by `laL`: lookaheads are terminals, rule 0 only carries `$` -/

/-- what the iteration preserves about a lookahead `a` stored on item `it` -/
def LP (G : Grammar) (it : Item) (a : Sym) : Prop := G.isT a = true ∧ (it.r = 0 → a = 1)

def RowP (G : Grammar) (row : Row) : Prop := ∀ it a, a ∈ rowGet row it → LP G it a

def TabP (G : Grammar) (t : LTab) : Prop := ∀ q, RowP G (t.getD q [])

/-- every element of a FIRST list is a terminal -/
def FT (G : Grammar) (S : Sets) : Prop := ∀ x a, a ∈ S.first x → G.isT a = true

def FTab (G : Grammar) (ft : List (List Sym)) : Prop := ∀ x a, a ∈ ft.getD x [] → G.isT a = true

theorem mem_firstSeq {S : Sets} {a : Sym} : ∀ {γ : List Sym}, a ∈ firstSeq S γ →
    ∃ x ∈ γ, a ∈ S.first x := by
  intro γ
  induction γ with
  | nil => intro h; cases h
  | cons y ys ih =>
    intro h
    simp only [firstSeq, List.mem_append] at h
    rcases h with h | h
    · exact ⟨y, List.mem_cons_self, h⟩
    · split at h
      · obtain ⟨x, hx, hax⟩ := ih h
        exact ⟨x, List.mem_cons_of_mem _ hx, hax⟩
      · cases h

theorem firstInit_ft {G : Grammar} {nS : Nat} : FTab G (firstInit G nS) := by
  intro x a h
  unfold firstInit at h
  rw [getD_map_range] at h
  split at h
  · split at h
    · rename_i ht
      rcases List.mem_singleton.mp h with rfl
      exact ht
    · cases h
  · cases h

theorem firstStep_ft {G : Grammar} {nl : List Sym} (ft : List (List Sym)) (h : FTab G ft) :
    FTab G (firstStep G nl ft) := by
  unfold firstStep
  refine foldl_inv (FTab G) _ G.rules ?_ ft h
  intro s rl _ hs x a ha
  rcases getD_modAt (unionS (firstSeq (mkSets nl s) rl.rhs)) [] s rl.lhs x with e | ⟨_, e2⟩
  · rw [e] at ha; exact hs x a ha
  · rw [e2] at ha
    rcases mem_unionS.mp ha with ha | ha
    · obtain ⟨y, _, hay⟩ := mem_firstSeq ha
      exact hs y a hay
    · exact hs _ a ha

theorem setsOf_ft (G : Grammar) (nS : Nat) : FT G (setsOf G nS) := by
  have : FTab G (firstTab G nS) := by
    unfold firstTab firstTabOf
    exact iterStop_inv (FTab G) _ _ firstStep_ft _ _ firstInit_ft
  intro x a ha
  rw [setsOf_eq] at ha
  exact this x a ha

section LAP
variable {G : Grammar} {nS : Nat} {S : Sets} {A : Auto}

theorem closItem_P (hG : GOK G nS) (hS : FT G S) (row : Row) (it : Item) (h : RowP G row) :
    RowP G (closItem G S row it) := by
  unfold closItem
  split
  · exact h
  · rename_i B hB
    split
    · exact h
    · intro jt a ha
      rcases mem_rowGet_addIf ha with ha | ⟨hc, ha⟩
      · exact h jt a ha
      · simp only [Bool.and_eq_true, beq_iff_eq] at hc
        obtain ⟨b, _, hab⟩ := mem_fsOf ha
        obtain ⟨x, _, hax⟩ := mem_firstSeq hab
        refine ⟨hS x a hax, fun h0 => ?_⟩
        exfalso
        obtain ⟨rl', hr', hl'⟩ := isRuleOf_ok hc.2
        obtain ⟨rl, hr, hx⟩ := rhsOf_get.mp hB
        obtain ⟨rl0, hr0, hl0, _⟩ := hG.r0
        rw [h0, hr0] at hr'
        cases hr'
        have := (hG.rhs_ok it.r rl hr B (List.mem_of_getElem? hx)).1
        rw [← hl', hl0] at this
        exact absurd this (by decide)

theorem gotoItem_P (gts : List (Sym × Nat)) (row : Row) (hrow : RowP G row) (t : LTab) (it : Item)
    (h : TabP G t) : TabP G (gotoItem G gts row t it) := by
  unfold gotoItem
  split
  · exact h
  · split
    · exact h
    · rename_i p _
      intro q' jt a ha
      rcases getD_modAt (rowAddIf (fun jt => jt == ⟨it.r, it.d + 1⟩) (rowGet row it)) [] t p q'
        with e | ⟨_, e2⟩
      · rw [e] at ha; exact h q' jt a ha
      · rw [e2] at ha
        rcases mem_rowGet_addIf ha with ha | ⟨hc, ha⟩
        · exact h _ jt a ha
        · have hj : jt = ⟨it.r, it.d + 1⟩ := by simpa using hc
          obtain ⟨h1, h2⟩ := hrow it a ha
          rw [hj]
          exact ⟨h1, h2⟩

theorem gotoRow_P (gts : List (Sym × Nat)) (q : Nat) (its : List Item) (row : Row)
    (hrow : RowP G row) (t : LTab) (h : TabP G t) : TabP G (gotoRow G gts its q row t) := by
  unfold gotoRow
  refine foldl_inv (TabP G) _ its (fun s it _ hs => gotoItem_P gts row hrow s it hs) _ ?_
  intro q' jt a ha
  rcases getD_modAt (fun _ => row) [] t q q' with e | ⟨_, e2⟩
  · rw [e] at ha; exact h q' jt a ha
  · rw [e2] at ha
    exact hrow jt a ha

theorem stateStep_P (hG : GOK G nS) (hS : FT G S) (t : LTab) (q : Nat) (h : TabP G t) :
    TabP G (stateStep G S A t q) := by
  unfold stateStep
  refine gotoRow_P _ q _ _ ?_ t h
  exact foldl_inv (RowP G) _ (A.its q) (fun s it _ hs => closItem_P hG hS s it hs) _ (h q)

theorem laStep_P (hG : GOK G nS) (hS : FT G S) (t : LTab) (h : TabP G t) :
    TabP G (laStep G S A t) := by
  unfold laStep
  exact foldl_inv (TabP G) _ _ (fun s q _ hs => stateStep_P hG hS s q hs) t h

theorem laInit_P (hG : GOK G nS) : TabP G (laInit A) := by
  have hbase : ∀ q it, rowGet ((A.items.map fun its => its.map fun it => (it, ([] : List Sym))).getD q []) it = [] := by
    intro q it
    refine rowGet_empty ?_ it
    intro p hp
    rcases getD_mem_or ([] : Row) (A.items.map fun its => its.map fun it => (it, ([] : List Sym))) q
      with e | e
    · rw [e] at hp; cases hp
    · obtain ⟨its, _, hits⟩ := List.mem_map.mp e
      rw [← hits] at hp
      obtain ⟨jt, _, hj⟩ := List.mem_map.mp hp
      rw [← hj]
  intro q it a ha
  unfold laInit at ha
  rcases getD_modAt (rowAddIf (fun jt => jt == (⟨0, 0⟩ : Item)) [1]) []
      (A.items.map fun its => its.map fun it => (it, ([] : List Sym))) 0 q with e | ⟨_, e2⟩
  · rw [e, hbase] at ha; cases ha
  · rw [e2] at ha
    rcases mem_rowGet_addIf ha with ha | ⟨_, ha⟩
    · rw [hbase] at ha; cases ha
    · rcases List.mem_singleton.mp ha with rfl
      refine ⟨?_, fun _ => rfl⟩
      unfold Grammar.isT
      simp [hG.nT1]

theorem laTab_P (hG : GOK G nS) (hS : FT G S) : TabP G (laTab G S A) := by
  unfold laTab
  exact iterStop_inv (TabP G) _ _ (laStep_P hG hS) _ _ (laInit_P hG)

end LAP

/-- every lookahead stored in the table returned by `laL` is a terminal, and the items of rule 0
    only carry the end marker -/
theorem laL_LP {G : Grammar} {nS : Nat} {A : Auto} {t : LATab} (hG : gramWF G nS = true)
    (h : laL G nS A = some t) (q : Nat) (it : Item) (a : Sym) (ha : a ∈ t.get q it) :
    G.isT a = true ∧ (it.r = 0 → a = 1) := by
  obtain ⟨S, hS, ht, _⟩ := laL_some h
  have hFT : FT G S := by rw [(setsL_some hS).1]; exact setsOf_ft G nS
  subst ht
  exact laTab_P (gramWF_ok hG) hFT q it a ha

theorem laL_laOK {G : Grammar} {nS : Nat} {A : Auto} {t : LATab} (hG : gramWF G nS = true)
    (h : laL G nS A = some t) : laOK G A t = true :=
  laOK_of fun q _ it _ a ha => laL_LP hG h q it a ha

theorem laL_laTerm {G : Grammar} {nS : Nat} {A : Auto} {t : LATab} (hG : gramWF G nS = true)
    (h : laL G nS A = some t) : laTerm G A t = true := by
  unfold laTerm
  simp only [List.all_eq_true, List.mem_range]
  intro q _ it _ a ha
  exact (laL_LP hG h q it a ha).1

/-! ## rightmost derivations of terminal strings are `GenL` derivations -/

theorem GenL_split {G : Grammar} : ∀ (α β w : List Sym), GenL G (α ++ β) w →
    ∃ u v, w = u ++ v ∧ GenL G α u ∧ GenL G β v := by
  intro α
  induction α with
  | nil => intro β w h; exact ⟨[], w, rfl, .nil, h⟩
  | cons x α ih =>
    intro β w h
    rw [List.cons_append] at h
    cases h with
    | tm _ _ v ht hv =>
      obtain ⟨u', v', rfl, h1, h2⟩ := ih β v hv
      exact ⟨x :: u', v', rfl, .tm x α u' ht h1, h2⟩
    | nt r rl _ u0 v0 hr hb hv =>
      obtain ⟨u', v', rfl, h1, h2⟩ := ih β v0 hv
      exact ⟨u0 ++ u', v', by simp, .nt r rl α u0 u' hr hb h1, h2⟩

theorem GenL_terms_self {G : Grammar} : ∀ (w : List Sym), (∀ t ∈ w, G.isT t = true) → GenL G w w := by
  intro w
  induction w with
  | nil => intro _; exact .nil
  | cons x xs ih =>
    intro h
    exact .tm x xs xs (h x List.mem_cons_self) (ih (fun t ht => h t (List.mem_cons_of_mem _ ht)))

/-- a rightmost derivation of a terminal string is a derivation in the sense of `GenL` -/
theorem RmDer_GenL {G : Grammar} {γ : List Sym} {rs : List Nat} {w : List Sym}
    (h : RmDer G γ rs w) (hw : ∀ t ∈ w, G.isT t = true) : GenL G γ w := by
  induction h with
  | nil a => exact GenL_terms_self a hw
  | step pre r rl z rs b hr _ _ ih =>
    obtain ⟨u, v, rfl, h1, h2⟩ := GenL_split (pre ++ rl.rhs) z b (ih hw)
    obtain ⟨u1, u2, rfl, h3, h4⟩ := GenL_split pre rl.rhs u h1
    exact GenL.append (GenL.append h3 (GenL.ofRule hr h4)) h2

end Y.GT
