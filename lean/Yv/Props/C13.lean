import Yv.Proofs.YLexTotal
import Yv.Proofs.YParseTotal
/-! # C13 — generation terminates on every input text (front end: lexer and parser models)

The functional models of the lexer (`YLex.lexAll`) and of the parser (`YParse.parse`) drive their
loops with fuel (`length + 2`, resp. `2 * toks.size + 10`) and simply stop when it runs out.  C13
for the models is the statement that this never happens: the fuel is not an artificial cut-off.

* lexer: `YLex.lexAll_total` (`Yv/Proofs/YLexTotal.lean`) — the flag returned by `lexAll` is `true`;
* parser: `YParse.parseI` (`Yv/Proofs/YParseTotal.lean`) is the instrumented twin of `YParse.parse`:
  the same code for every loop (`tokendefLoop`, `precLoop`, `typeLoop`, `declLoop`, `ruleLoop`,
  `rulesLoop`, and the non-recursive `parseTokendef`/`parsePrecList`/`parseTypeList`/`parseRule`
  around them), each additionally returning a flag that is `true` iff the run reached `fuel = 0` in
  that loop or in a loop it called.  `parse_eq_instrumented` : the twin computes exactly the model's
  result; `C13_parse_total` : with the model's own fuel no flag is ever raised.

Covered loops: ALL six fuel-carrying loops of `YParse` (nothing is weakened; `C13_full` below is the
statement proved).  The argument: `P.bound p = (toks.size - idx + peek) + (0 if p is parked at the
end, else 1)` strictly decreases along every continuing iteration of every loop, and
`bound ≤ toks.size + 1 < 2 * toks.size + 10` at the start. -/
namespace YParse

/-- some loop of the instrumented parser run (with the model's fuel) ran out of fuel -/
def parseExhausted (src : String) : Bool := (parseI src).exhausted

/-- the instrumented run is the model's run -/
theorem parse_eq_instrumented (src : String) : (parseI src).result = YParse.parse src :=
  parseI_result src

/-- the full statement of C13 for the parser model -/
def C13_full : Prop := ∀ src : String, parseExhausted src = false

/-- C13, parser half: the fuel `2 * toks.size + 10` is never used up, in any loop -/
theorem C13_parse_total (src : String) : parseExhausted src = false :=
  parseI_not_exhausted src

theorem C13_full_holds : C13_full := C13_parse_total

/-- C13 for the front end: neither the lexer nor the parser model is cut short by its fuel -/
theorem C13_front_total (src : String) : (YLex.lexAll src).2 = true ∧ parseExhausted src = false :=
  ⟨YLex.lexAll_total src, C13_parse_total src⟩

/-! The flags are not vacuous: with too little fuel the twins do report exhaustion. -/
section sanity
private def twoIdents : P :=
  ({ toks := #[⟨.identifier, "a", 1⟩, ⟨.identifier, "b", 2⟩], inputLen := 3 } : P).next

example : (typeLoopI 1 twoIdents "" []).2 = true := by decide
example : (typeLoopI 2 twoIdents "" []).2 = true := by decide
example : (typeLoopI 3 twoIdents "" []).2 = false := by decide
example : (rulesLoopI 1 twoIdents [] []).2 = true := by decide
example : (rulesLoopI 3 twoIdents [] []).2 = false := by decide
end sanity

end YParse

#print axioms YParse.parse_eq_instrumented
#print axioms YParse.C13_parse_total
#print axioms YParse.C13_front_total
