module ytranslate

go 1.18
