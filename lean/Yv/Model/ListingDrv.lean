import Yv.Model.Listing
/-! Driver entry point for the text listing: the lines the model prints for the data `ymodel` holds
    (`CaseAcc.iStates`, `iGotos`, `iLA`, the grammar, and the RAW symbol names in an array).
    Defined through the verified definitions of `Yv/Model/Listing.lean` (`listingView`, `stateLines`,
    `laView`, hence `listItemStr`, `listGotoStr`, `laLineStr`): what the driver prints is what the
    theorems of `Yv/Props/C18b.lean` talk about. -/
namespace Y

/-- spelling of symbol `i`: the array entry (`"?"` outside the array) -/
def namesOf (names : Array String) : Nat → String := fun i => names.getD i "?"

/-- the automaton as data, from the driver's arrays: items `(rule, dot)`, gotos `(symbol, target)` -/
def autoOf (states : Array (List (Nat × Nat))) (gotos : Array (List (Nat × Nat))) : Auto :=
  { items := states.toList.map fun its => its.map fun it => ⟨it.1, it.2⟩, gotos := gotos.toList }

/-- (the lines of the state section exactly as `Show()` prints them, in order, without the newlines;
     the lines of the lookahead section for the entries `(state, rule, lookaheads)`, in the order given) -/
def listingLines (names : Array String) (G : Grammar) (states : Array (List (Nat × Nat)))
    (gotos : Array (List (Nat × Nat))) (la : Array (Nat × Nat × List Nat)) :
    List String × List String :=
  (listingLinesOf (listingView (namesOf names) G (autoOf states gotos)),
   laView (namesOf names) G la.toList)

end Y
