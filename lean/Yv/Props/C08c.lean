import Yv.Model.TsSem
import Yv.Gen.TsDriver
import Yv.Model.ArrDrive
import Yv.Proofs.ArrRefine
import Yv.Props.C08
/-! # C08c — the driver TEXT of the TypeScript back end is the hand model `Y.AD.astep`

`Yv/Gen/TsDriver.lean` is regenerated on every run from the strings in `Builder/TsGenCode.go`
(`buildStateFunc`: `PushStateSym`, `PopStateSym`, `initialize`, `Parser`, `fetchLookAhead`;
`buildReduceFunc`: the frame of `ReduceFunc` and the `initialize();` appended to it) as syntax
trees (`Yv/Model/TsAst.lean`).  Their meaning is the interpreter of `Yv/Model/TsSem.lean`, which
has an EXPLICIT HEAP: the array holds references, so a machine state is related to a stack of the
hand model by `StackRel` (same pointer, slot `i` refers to a `StateSym` cell with the fields of
entry `i`) instead of being equal to it.  `StackRel` determines the model stack
(`stackRel_unique`) and every model stack is reached (`stackRel_total`).  Proved, for every
parameter set `P` (table lookup, action constants, rule data, semantic actions) and every related
pair of states, with no invariant assumed:

* `push_ts_eq`, `pop_ts_eq` (for `n ≤ sp`; the pointer goes negative otherwise, `pop_ts_neg`),
  `init_ts_eq`, `load_ts_eq`: the translated helper bodies are `AStack.push`, `AStack.pop`,
  `initGlobal` (the stack `[(0,1)]`, pointer 1), also for the `initialize();` at module level;
* `step_ts_eq`: one iteration of the translated `while (true)` loop of `Parser` is `astep P c`;
* `parser_ts_run` / `parser_ts_eq`: the whole translated `Parser` (declarations, the `model`
  object, first `fetchLookAhead`, the loop, `return null`) is `arun P fuel (ainit s w)`, `fuel`
  bounding the number of iterations, for all outcome classes: value / `console.error` once and
  `null` / TypeError / `null` from the guards / out of fuel;
* `parser_ts_init`: called right after `initialize()` that is the list driver `Y.D.run`;
* `parser_ts_second`, `parser_ts_reinit`: `Parser` does NOT re-initialise.  A second call runs
  from the stack the first one left.  `run2` below: the accepted input is rejected the second time.

An edit of the driver text changes `Yv/Gen/TsDriver.lean`; then these proofs are re-checked and
fail unless the edit preserves the meaning.

## The TypeScript text against the hand model

INSIDE the certified domain (every table cell that is consulted is the error code, the accept
code, a positive shift/goto or a negative reduce by a rule that has a `case`; the pointer is within
`1 … length`) `step_ts_eq` shows no difference in stack, input consumption, reductions, values and
verdict.  What the relation deliberately leaves out: the TypeScript text emits no trace events
(`Rel` says nothing about `ACfg.trace`); a syntax error is `console.error("Grammer error")`
followed by `return null` (no position, no token; the Go templates `panic` with a message); the
`ValType` of the bottom entry is `undefined` (`K.undefV`), in Go the zero value.

OUTSIDE that domain the interpreter of `TsSem` reports `crash` in the same iteration as `astep`,
by the modelling decisions listed in `TsSem`; real JavaScript also ends in a TypeError, but LATER,
and these four cases are therefore NOT claims about node:
1. a table COLUMN out of range (`P.L = none` because of the symbol): `StateActionArray[st][a]` is
   `undefined`, no exception; all three tests on `action` are false, so the reduce branch runs
   `ReduceFunc(NaN)` (no `case`), pushes an entry whose `Yystate` is `undefined`, and the NEXT
   iteration fails in `Action` with a TypeError.  (A ROW out of range is a TypeError at once.)
2. a reduce by a rule without `case` (rule 0, or a number beyond the rules): the `switch` does
   nothing (`caseBody` models this), `ReduceFunc` returns `StateSym(-1,-1)`, `state.Action(-1)` is
   `undefined` and the run continues as in 1.  `TsSem`: `Action` with a negative column = crash.
3. a negative goto cell: `SymTy.Yystate = gotoState` succeeds, the entry is pushed, the next
   iteration's `StateActionArray[negative]` is `undefined` and `Action` throws.  `TsSem`: the
   assignment of a negative number to `Yystate` = crash.
4. a handle longer than the stack above the bottom entry (`n > sp - 1`): `slice` with a negative
   start does not throw (it counts from the end), the action runs on the wrong entries,
   `PopStateSym(n)` makes the pointer ≤ 0 and `StateSymStack[sp-1]` is `undefined`: TypeError in
   the SAME iteration.  `TsSem`/`caseBody`: crash at the slice; the Go templates: slice bounds panic.
In all four the outcome class (TypeError, nothing returned, nothing printed) is the one of `astep`. -/
namespace C08c
open Y Y.D Y.AD TsSem

/-- unfold the interpreter on a concrete program -/
syntax "ts_simp" ("[" Lean.Parser.Tactic.simpLemma,* "]")? : tactic
macro_rules
  | `(tactic| ts_simp) => `(tactic| simp only [execs, exec, eval, evalArgs, callFn, caseBody, idVal, lookup,
    setVar, store, ofStore, ofRes, binVal, selStep, selVal, isStack, isPush, indexVal, leave, popEnv, setField,
    getField, allRefs, newVal, objVal, toV, List.map_cons, List.map_nil,
    List.zip_cons_cons, List.zip_nil_right, List.zip_nil_left, ↓reduceIte, reduceCtorEq,
    List.length_cons, List.length_nil, Nat.sub_self, List.drop_zero, Bool.true_eq_false, Bool.false_eq_true,
    Bool.and_self, Bool.and_true, Bool.and_false,
    decide_eq_true_eq, Nat.reduceAdd, Nat.reduceSub, List.drop_succ_cons])
  | `(tactic| ts_simp [$ls,*]) => `(tactic| simp only [execs, exec, eval, evalArgs, callFn, caseBody, idVal, lookup,
    setVar, store, ofStore, ofRes, binVal, selStep, selVal, isStack, isPush, indexVal, leave, popEnv, setField,
    getField, allRefs, newVal, objVal, toV, List.map_cons, List.map_nil,
    List.zip_cons_cons, List.zip_nil_right, List.zip_nil_left, ↓reduceIte, reduceCtorEq,
    List.length_cons, List.length_nil, Nat.sub_self, List.drop_zero, Bool.true_eq_false, Bool.false_eq_true,
    Bool.and_self, Bool.and_true, Bool.and_false,
    decide_eq_true_eq, Nat.reduceAdd, Nat.reduceSub, List.drop_succ_cons, $ls,*])

/-! ### `PushStateSym` -/

/-- what the text of `PushStateSym` does with a reference `a` -/
def pushM {V : Type} (m : M V) (a : Nat) : Res V :=
  if m.sp ≥ (m.arr.length : Int) then .norm { m with arr := m.arr ++ [a], sp := m.sp + 1 }
  else if 0 ≤ m.sp ∧ m.sp < (m.arr.length : Int) then .norm { m with arr := m.arr.set m.sp.toNat a, sp := m.sp + 1 }
  else .crash

theorem push_run {V : Type} (P : Params V) (K : Consts V) (fuel : Nat) (m : M V) (a : Nat) :
    invoke P K ext0 fuel Gen.Ts.push [.ref a] m = pushM m a := by
  simp only [invoke, Gen.Ts.push, pushM]
  ts_simp
  by_cases h : m.sp ≥ (m.arr.length : Int)
  · simp only [h, ↓reduceIte]
  · rw [if_neg h, if_neg h]
    by_cases h2 : 0 ≤ m.sp ∧ m.sp < (m.arr.length : Int)
    · rw [if_pos h2, if_pos h2]
    · rw [if_neg h2, if_neg h2]

/-! ### `PopStateSym`, `initialize`, `fetchLookAhead` -/

theorem pop_run {V : Type} (P : Params V) (K : Consts V) (fuel : Nat) (m : M V) (n : Int) :
    invoke P K ext0 fuel Gen.Ts.pop [.num n] m = .norm { m with sp := m.sp - n } := by
  simp only [invoke, Gen.Ts.pop]
  ts_simp

theorem init_run {V : Type} (P : Params V) (K : Consts V) (fuel : Nat) (m : M V) :
    invoke P K ext0 fuel Gen.Ts.initialize [] m
      = .norm { m with heap := m.heap ++ [.sym 0 1 K.undefV], arr := [m.heap.length], sp := 1 } := by
  simp only [invoke, Gen.Ts.initialize]
  ts_simp

theorem fetch_run {V : Type} (P : Params V) (K : Consts V) (fuel : Nat) (m : M V) (μ : Nat) (v0 : V)
    (hμ : m.heap[μ]? = some (.model v0)) :
    invoke P K ext0 fuel Gen.Ts.fetchLookAhead [.str, .ref μ] m
      = .ret (.num (headTok P.eofVal m.input).1)
          { m with heap := m.heap.set μ (.model (headTok P.eofVal m.input).2),
                   input := m.input.tail, req := m.req + 1 } := by
  simp only [invoke, Gen.Ts.fetchLookAhead]
  ts_simp [hμ]

/-! ### the frame of `ReduceFunc` around the `case`s -/

theorem set_concat {α : Type} (l : List α) (x y : α) : (l ++ [x]).set l.length y = l ++ [y] := by
  induction l with
  | nil => rfl
  | cons a l ih => simp only [List.cons_append, List.length_cons, List.set_cons_succ, ih]

/-- the addresses of `Dollar[1..n]` when `topIndex = StackPointer - 1` -/
def dollarRefs {V : Type} (m : M V) (n : Nat) : List Nat :=
  (((m.arr.drop (m.sp - 1 - (n : Int)).toNat).take (m.sp - (m.sp - 1 - (n : Int))).toNat).drop 1).take n

/-- what the frame of `ReduceFunc` does around the `case` of rule `r` -/
def reduceM {V : Type} (P : Params V) (K : Consts V) (m : M V) (r : Int) : Res V :=
  if r < 0 then .ret (.ref m.heap.length) { m with heap := m.heap ++ [.sym (-1) (-1) K.emptyV] }
  else
    match P.rule r.toNat with
    | none => .ret (.ref m.heap.length) { m with heap := m.heap ++ [.sym (-1) (-1) K.emptyV] }
    | some (lhs, n) =>
      if 0 ≤ m.sp - 1 - (n : Int) ∧ m.sp ≤ (m.arr.length : Int) ∧ (n : Int) + 1 ≤ m.sp - (m.sp - 1 - (n : Int)) then
        match cellVals (m.heap ++ [.sym (-1) (-1) K.emptyV]) (dollarRefs m n) with
        | some vals =>
          .ret (.ref m.heap.length)
            { m with heap := m.heap ++ [.sym (-1) lhs (P.sem r.toNat vals)], sp := m.sp - (n : Int),
                     reds := r.toNat :: m.reds }
        | none => .crash
      else .crash

theorem reduce_run {V : Type} (P : Params V) (K : Consts V) (fuel : Nat) (m : M V) (r : Int) :
    invoke P K (extPop P K Gen.Ts.pop) fuel Gen.Ts.reduceFrame [.num r] m = reduceM P K m r := by
  simp only [invoke, Gen.Ts.reduceFrame, reduceM, dollarRefs]
  ts_simp [List.getElem?_concat_length, set_concat, extPop, pop_run]
  by_cases hr : r < 0
  · rw [if_pos hr, if_pos hr]
    ts_simp
  rw [if_neg hr, if_neg hr]
  cases hrule : P.rule r.toNat with
  | none => ts_simp
  | some ln =>
    obtain ⟨lhs, n⟩ := ln
    simp only []
    by_cases hb : 0 ≤ m.sp - 1 - (n : Int) ∧ m.sp ≤ (m.arr.length : Int) ∧ (n : Int) + 1 ≤ m.sp - (m.sp - 1 - (n : Int))
    · rw [if_pos hb, if_pos hb]
      cases hv : cellVals (m.heap ++ [Cell.sym (-1) (-1) K.emptyV])
          (List.take n (List.drop 1 (List.take (m.sp - (m.sp - 1 - (n : Int))).toNat (List.drop (m.sp - 1 - (n : Int)).toNat m.arr)))) with
      | none => rfl
      | some vals => ts_simp
    · rw [if_neg hb, if_neg hb]

/-! ### the array of references, read through the heap -/

/-- the heap cell of a stack entry of the hand model -/
def cellOf {V : Type} (e : Entry V) : Cell V := .sym (e.st : Int) (e.sym : Int) e.val

/-- the array `l` of references read through the heap `h` -/
def readArr {V : Type} (h : List (Cell V)) (l : List Nat) : List (Option (Cell V)) := l.map (fun a => h[a]?)

def cells {V : Type} (es : List (Entry V)) : List (Option (Cell V)) := es.map (fun e => some (cellOf e))

/-- `StateSymStack`/`StackPointer` of the machine state ARE the array and pointer `s` of the hand
    model: same pointer, same length, and slot `i` refers to a `StateSym` cell with the fields of
    `s.a[i]` (stale slots included; two slots may refer to the same cell) -/
def StackRel {V : Type} (m : M V) (s : AStack V) : Prop :=
  m.sp = (s.sp : Int) ∧ readArr m.heap m.arr = cells s.a

theorem cellOf_inj {V : Type} (e e' : Entry V) (h : cellOf e = cellOf e') : e = e' := by
  obtain ⟨a, b, c⟩ := e
  obtain ⟨a', b', c'⟩ := e'
  simp only [cellOf, Cell.sym.injEq, Int.natCast_inj] at h
  obtain ⟨h1, h2, h3⟩ := h
  subst h1 h2 h3
  rfl

theorem cells_inj {V : Type} : ∀ (es es' : List (Entry V)), cells es = cells es' → es = es'
  | [], [], _ => rfl
  | [], _ :: _, h => by simp [cells] at h
  | _ :: _, [], h => by simp [cells] at h
  | e :: es, e' :: es', h => by
    simp only [cells, List.map_cons, List.cons.injEq, Option.some.injEq] at h
    rw [cellOf_inj e e' h.1, cells_inj es es' h.2]

/-- the relation determines the model's stack -/
theorem stackRel_unique {V : Type} (m : M V) (s s' : AStack V) (h : StackRel m s) (h' : StackRel m s') : s = s' := by
  obtain ⟨a, sp⟩ := s
  obtain ⟨a', sp'⟩ := s'
  obtain ⟨h1, h2⟩ := h
  obtain ⟨h1', h2'⟩ := h'
  simp only at h1 h2 h1' h2'
  have e1 : sp = sp' := by omega
  have e2 : a = a' := cells_inj a a' (h2.symm.trans h2')
  rw [e1, e2]

theorem readArr_length {V : Type} (h : List (Cell V)) (l : List Nat) (es : List (Entry V))
    (hr : readArr h l = cells es) : l.length = es.length := by
  have := congrArg List.length hr
  simpa [readArr, cells] using this

theorem readArr_get {V : Type} (h : List (Cell V)) (l : List Nat) (es : List (Entry V))
    (hr : readArr h l = cells es) (i : Nat) (e : Entry V) (he : es[i]? = some e) :
    ∃ a, l[i]? = some a ∧ h[a]? = some (cellOf e) := by
  have h1 : (readArr h l)[i]? = (cells es)[i]? := by rw [hr]
  simp only [readArr, cells, List.getElem?_map, he, Option.map_some] at h1
  cases hl : l[i]? with
  | none => rw [hl] at h1; simp at h1
  | some a =>
    rw [hl] at h1
    simp only [Option.map_some, Option.some.injEq] at h1
    exact ⟨a, rfl, h1⟩

/-- the `StateSym` cells that `l` refers to are the same in `h'` -/
theorem readArr_frame {V : Type} (h h' : List (Cell V))
    (hf : ∀ (a : Nat) (st sy : Int) (v : V), h[a]? = some (Cell.sym st sy v) → h'[a]? = some (Cell.sym st sy v)) :
    ∀ (l : List Nat) (es : List (Entry V)), readArr h l = cells es → readArr h' l = cells es
  | [], [], _ => rfl
  | [], _ :: _, hr => by simp [readArr, cells] at hr
  | _ :: _, [], hr => by simp [readArr, cells] at hr
  | a :: l, e :: es, hr => by
    simp only [readArr, cells, List.map_cons, List.cons.injEq] at hr
    have ih := readArr_frame h h' hf l es hr.2
    simp only [readArr, cells, List.map_cons, List.cons.injEq] at ih ⊢
    exact ⟨hf a _ _ _ hr.1, ih⟩

theorem frame_append {V : Type} (h l : List (Cell V)) (a : Nat) (c : Cell V) (hc : h[a]? = some c) :
    (h ++ l)[a]? = some c := by
  have hlt : a < h.length := by
    cases Nat.lt_or_ge a h.length with
    | inl x => exact x
    | inr x => rw [List.getElem?_eq_none x] at hc; cases hc
  rw [List.getElem?_append_left hlt]; exact hc

theorem frame_set_model {V : Type} (h : List (Cell V)) (μ : Nat) (v0 : V) (c' : Cell V) (hμ : h[μ]? = some (.model v0))
    (a : Nat) (st sy : Int) (v : V) (hc : h[a]? = some (.sym st sy v)) : (h.set μ c')[a]? = some (.sym st sy v) := by
  have hne : μ ≠ a := by
    intro e; subst e; rw [hμ] at hc; cases hc
  rw [List.getElem?_set_ne hne]; exact hc

theorem cellVals_of {V : Type} (h : List (Cell V)) :
    ∀ (l : List Nat) (es : List (Entry V)), readArr h l = cells es → cellVals h l = some (es.map Entry.val)
  | [], [], _ => rfl
  | [], _ :: _, hr => by simp [readArr, cells] at hr
  | _ :: _, [], hr => by simp [readArr, cells] at hr
  | a :: l, e :: es, hr => by
    simp only [readArr, cells, List.map_cons, List.cons.injEq] at hr
    have ih := cellVals_of h l es hr.2
    simp only [cellVals, hr.1, cellOf, ih, List.map_cons]

theorem readArr_append {V : Type} (h : List (Cell V)) (l : List Nat) (a : Nat) :
    readArr h (l ++ [a]) = readArr h l ++ [h[a]?] := by
  simp only [readArr, List.map_append, List.map_cons, List.map_nil]

theorem readArr_set {V : Type} (h : List (Cell V)) (l : List Nat) (i a : Nat) :
    readArr h (l.set i a) = (readArr h l).set i h[a]? := by
  simp only [readArr, List.map_set]

theorem cells_append {V : Type} (es : List (Entry V)) (e : Entry V) : cells (es ++ [e]) = cells es ++ [some (cellOf e)] := by
  simp only [cells, List.map_append, List.map_cons, List.map_nil]

theorem cells_set {V : Type} (es : List (Entry V)) (i : Nat) (e : Entry V) :
    cells (es.set i e) = (cells es).set i (some (cellOf e)) := by
  simp only [cells, List.map_set]

/-! ### `PushStateSym`, `PopStateSym`, `initialize` against the hand model -/

/-- the machine state after `PushStateSym(a)` when the pointer is inside `0 … length` -/
def pushed {V : Type} (m : M V) (a : Nat) : M V :=
  { m with arr := if m.sp ≥ (m.arr.length : Int) then m.arr ++ [a] else m.arr.set m.sp.toNat a, sp := m.sp + 1 }

theorem stackRel_pushed {V : Type} (m : M V) (s : AStack V) (a : Nat) (e : Entry V) (h : StackRel m s)
    (ha : m.heap[a]? = some (cellOf e)) : pushM m a = .norm (pushed m a) ∧ StackRel (pushed m a) (s.push e) := by
  obtain ⟨hsp, hr⟩ := h
  have hlen := readArr_length _ _ _ hr
  unfold pushM pushed AStack.push StackRel
  by_cases hge : s.sp ≥ s.a.length
  · have h' : m.sp ≥ (m.arr.length : Int) := by omega
    rw [if_pos h', if_pos h', if_pos hge]
    refine ⟨rfl, ?_, ?_⟩
    · simp only [hsp, Int.natCast_add, Int.natCast_one]
    · simp only [readArr_append, cells_append, hr, ha]
  · have h' : ¬ (m.sp ≥ (m.arr.length : Int)) := by omega
    have h2 : 0 ≤ m.sp ∧ m.sp < (m.arr.length : Int) := by omega
    rw [if_neg h', if_neg h', if_pos h2, if_neg hge]
    refine ⟨rfl, ?_, ?_⟩
    · simp only [hsp, Int.natCast_add, Int.natCast_one]
    · simp only [readArr_set, cells_set, hr, ha, hsp, Int.toNat_natCast]

theorem push_ts_eq {V : Type} (P : Params V) (K : Consts V) (fuel : Nat) (m : M V) (s : AStack V) (a : Nat)
    (e : Entry V) (h : StackRel m s) (ha : m.heap[a]? = some (cellOf e)) :
    invoke P K ext0 fuel Gen.Ts.push [.ref a] m = .norm (pushed m a) ∧ StackRel (pushed m a) (s.push e) := by
  rw [push_run]; exact stackRel_pushed m s a e h ha

/-- JavaScript subtracts on numbers: the pointer becomes `sp - n`, negative when `n > sp`;
    `AStack.pop` (truncated subtraction on `Nat`) is the text exactly when `n ≤ sp` — which the
    guard on the slice in `caseBody` establishes before `PopStateSym(n)` -/
theorem pop_ts_eq {V : Type} (P : Params V) (K : Consts V) (fuel : Nat) (m : M V) (s : AStack V) (n : Nat)
    (h : StackRel m s) (hn : n ≤ s.sp) :
    invoke P K ext0 fuel Gen.Ts.pop [.num n] m = .norm { m with sp := m.sp - (n : Int) } ∧
    StackRel { m with sp := m.sp - (n : Int) } (s.pop n) := by
  rw [pop_run]
  refine ⟨rfl, ?_, h.2⟩
  simp only [AStack.pop, h.1, Int.natCast_sub hn]

/-- without the hypothesis the two differ: the text's pointer goes negative, the model's stops at 0 -/
theorem pop_ts_neg {V : Type} (P : Params V) (K : Consts V) (fuel : Nat) (m : M V) (s : AStack V) (n : Nat)
    (h : StackRel m s) (hn : s.sp < n) :
    ∃ m', invoke P K ext0 fuel Gen.Ts.pop [.num n] m = .norm m' ∧ m'.sp < 0 ∧ ¬ StackRel m' (s.pop n) := by
  rw [pop_run]
  refine ⟨_, rfl, ?_, ?_⟩
  · simp only [h.1]; omega
  · intro hc
    have := hc.1
    simp only [AStack.pop, h.1] at this
    omega

/-- `initialize()` allocates ONE new `StateSym(0,1)` (its `ValType` is `undefined`), makes
    `StateSymStack` a new one-element array referring to it and sets the pointer to 1, whatever was
    there before: the initial stack `[(0,1)]`, pointer 1, of the hand model -/
theorem init_ts_eq {V : Type} (P : Params V) (K : Consts V) (fuel : Nat) (m : M V) :
    invoke P K ext0 fuel Gen.Ts.initialize [] m
      = .norm { m with heap := m.heap ++ [.sym 0 1 K.undefV], arr := [m.heap.length], sp := 1 } ∧
    StackRel { m with heap := m.heap ++ [.sym 0 1 K.undefV], arr := [m.heap.length], sp := 1 } (initGlobal K.undefV) := by
  rw [init_run]
  refine ⟨rfl, rfl, ?_⟩
  simp only [readArr, cells, initGlobal, bottom, cellOf, List.map_cons, List.map_nil, List.getElem?_concat_length]
  rfl

theorem getElem?_set_of_some {α : Type} (l : List α) (i : Nat) (x y : α) (h : l[i]? = some x) :
    (l.set i y)[i]? = some y := by
  have hlt : i < l.length := by
    cases Nat.lt_or_ge i l.length with
    | inl x => exact x
    | inr x => rw [List.getElem?_eq_none x] at h; cases h
  exact List.getElem?_set_self hlt

theorem pushM_norm {V : Type} (m : M V) (a : Nat) (h : 0 ≤ m.sp ∧ m.sp ≤ (m.arr.length : Int)) :
    pushM m a = .norm (pushed m a) := by
  unfold pushM pushed
  by_cases hge : m.sp ≥ (m.arr.length : Int)
  · rw [if_pos hge, if_pos hge]
  · have h2 : 0 ≤ m.sp ∧ m.sp < (m.arr.length : Int) := by omega
    rw [if_neg hge, if_neg hge, if_pos h2]

/-- `PushStateSym` followed by heap updates that leave the `StateSym` cells alone -/
theorem stackRel_push_frame {V : Type} (m : M V) (s : AStack V) (a : Nat) (e : Entry V) (h : StackRel m s)
    (ha : m.heap[a]? = some (cellOf e)) (m' : M V)
    (hf : ∀ (a : Nat) (st sy : Int) (v : V), m.heap[a]? = some (Cell.sym st sy v) → m'.heap[a]? = some (Cell.sym st sy v))
    (e2 : m'.arr = (pushed m a).arr) (e3 : m'.sp = m.sp + 1) : StackRel m' (s.push e) := by
  obtain ⟨_, h1, h2⟩ := stackRel_pushed m s a e h ha
  refine ⟨?_, ?_⟩
  · rw [e3]; exact h1
  · rw [e2]; exact readArr_frame _ _ hf _ _ h2

/-! ### one iteration of the loop of `Parser` -/

/-- the body of the first `while (true) { … }` of a statement list -/
def loopOf : List Gen.Ts.Stmt → List Gen.Ts.Stmt
  | [] => []
  | .loop b :: _ => b
  | _ :: r => loopOf r

/-- the translated functions `Parser` calls -/
def extP {V : Type} (P : Params V) (K : Consts V) : Ext V :=
  extOf P K Gen.Ts.push Gen.Ts.pop Gen.Ts.initialize Gen.Ts.fetchLookAhead Gen.Ts.reduceFrame

/-- the local variables of `Parser` at the head of the loop (`μ` = address of the `model` object) -/
def parserEnv {V : Type} (la : Sym) (μ : Nat) : List (Gen.Ts.Id × Val V) :=
  [(.lookAhead, .num la), (.model, .ref μ), (.val, .undef), (.currentPos, .num 0), (.input, .str)]

/-- the machine state `m` at the head of the loop IS the configuration `c` of the hand model -/
structure Rel {V : Type} (eofVal : V) (μ : Nat) (c : ACfg V) (m : M V) : Prop where
  stack : StackRel m c.stack
  env : m.env = parserEnv (alook eofVal c).1 μ
  model : m.heap[μ]? = some (.model (alook eofVal c).2)
  input : m.input = c.rest.tail
  req : m.req = c.req
  reds : m.reds = c.reds

/-- result of one iteration of the text against the result of `astep` -/
def StepRel {V : Type} (eofVal : V) (μ : Nat) (c : ACfg V) (m : M V) : Res V → AStepR V → Prop
  | .norm m', .next c' => Rel eofVal μ c' m' ∧ m'.errs = m.errs
  | .ret w m', .acc v c' => w = .val v ∧ c' = c ∧ m' = m
  | .brk m', .err c' => c' = c ∧ m' = { m with errs := m.errs + 1 }      -- `console.error(…); break`
  | .brk m', .nil => m' = m                                                -- the two guards: `break`
  | .crash, .crash => True
  | _, _ => False

theorem ext_push {V : Type} (P : Params V) (K : Consts V) (m : M V) (a : Nat) :
    (extP P K).push m [.ref a] = pushM m a := push_run P K 0 m a

theorem ext_reduce {V : Type} (P : Params V) (K : Consts V) (m : M V) (r : Int) :
    (extP P K).reduce m [.num r] = reduceM P K m r := reduce_run P K 0 m r

theorem ext_fetch {V : Type} (P : Params V) (K : Consts V) (m : M V) (μ : Nat) :
    (extP P K).fetch m [.str, .ref μ] =
      match m.heap[μ]? with
      | some (.model _) =>
        .ret (.num (headTok P.eofVal m.input).1)
          { m with heap := m.heap.set μ (.model (headTok P.eofVal m.input).2),
                   input := m.input.tail, req := m.req + 1 }
      | _ => .crash := by
  simp only [extP, extOf, invoke, Gen.Ts.fetchLookAhead]
  ts_simp
  cases h : m.heap[μ]? with
  | none => rfl
  | some c => cases c with
    | sym st sy v => rfl
    | model v => rfl

theorem alook_headTok {V : Type} (e : V) (c : ACfg V) : alook e c = headTok e c.rest := rfl

theorem step_ts_eq {V : Type} (P : Params V) (K : Consts V) (fuel : Nat) (μ : Nat) (c : ACfg V) (m : M V)
    (h : Rel P.eofVal μ c m) :
    StepRel P.eofVal μ c m (execIter P K (extP P K) fuel (loopOf Gen.Ts.parser.body) m) (astep P c) := by
  obtain ⟨heap, arr, sp, env, input, req, reds, errs⟩ := m
  obtain ⟨⟨hsp, hr⟩, henv, hmodel, hinput, hreq, hreds⟩ := h
  simp only at hsp hr henv hmodel hinput hreq hreds
  subst hsp henv hinput hreq hreds
  have hlen := readArr_length _ _ _ hr
  unfold execIter astep
  simp only [Gen.Ts.parser, loopOf, parserEnv]
  by_cases h0 : c.stack.sp = 0
  · have h0' : (c.stack.sp : Int) = 0 := by omega
    rw [if_pos h0]
    ts_simp [h0']
    simp only [StepRel]
  have h0' : ¬ ((c.stack.sp : Int) = 0) := by omega
  by_cases h1 : c.stack.sp > c.stack.a.length
  · have h1' : (c.stack.sp : Int) > (arr.length : Int) := by omega
    rw [if_neg h0, if_pos h1]
    ts_simp [h0', h1']
    simp only [StepRel]
  have h1' : ¬ ((c.stack.sp : Int) > (arr.length : Int)) := by omega
  rw [if_neg h0, if_neg h1]
  have hb : 0 ≤ (c.stack.sp : Int) - 1 := by omega
  have htn : ((c.stack.sp : Int) - 1).toNat = c.stack.sp - 1 := by omega
  simp only [AStack.top?]
  cases htop : c.stack.a[c.stack.sp - 1]? with
  | none =>
    have := List.getElem?_eq_none_iff.mp htop
    omega
  | some top =>
    simp only []
    obtain ⟨ta, hta, htc⟩ := readArr_get _ _ _ hr _ _ htop
    have htc' : ∀ l, (heap ++ l)[ta]? = some (.sym (top.st : Int) (top.sym : Int) top.val) :=
      fun l => frame_append heap l ta _ htc
    have htc0 : heap[ta]? = some (.sym (top.st : Int) (top.sym : Int) top.val) := htc
    have hM : ∀ l, (heap ++ l)[μ]? = some (.model (alook P.eofVal c).2) := fun l => frame_append heap l μ _ hmodel
    have hst : (0 : Int) ≤ (top.st : Int) := Int.natCast_nonneg _
    have hla : (0 : Int) ≤ ((alook P.eofVal c).1 : Int) := Int.natCast_nonneg _
    cases hL : P.L top.st (alook P.eofVal c).1 with
    | none =>
      ts_simp [h0', h1', hb, htn, hta, htc0, hst, hla, and_self, Int.toNat_natCast, hL]
      simp only [StepRel]
    | some a =>
      simp only []
      by_cases he : a = P.errC
      · rw [if_pos he]
        ts_simp [h0', h1', hb, htn, hta, htc0, hst, hla, and_self, Int.toNat_natCast, hL, he]
        simp only [StepRel, and_self]
      rw [if_neg he]
      by_cases hac : a = P.accC
      · rw [if_pos hac]
        subst hac
        ts_simp [h0', h1', hb, htn, hta, htc0, hst, hla, and_self, Int.toNat_natCast, hL, he]
        simp only [StepRel, and_self]
      rw [if_neg hac]
      by_cases hpos : 0 < a
      · rw [if_pos hpos]
        have hpos' : a > 0 := hpos
        have ha0 : 0 ≤ a := by omega
        ts_simp [h0', h1', hb, htn, hta, htc0, hst, hla, and_self, Int.toNat_natCast, hL, he, hac, hpos', ha0,
          List.getElem?_concat_length, set_concat, hM, ext_push, ext_fetch]
        have hsp0 : (0 : Int) ≤ (c.stack.sp : Int) := Int.natCast_nonneg _
        have hsple : (c.stack.sp : Int) ≤ (arr.length : Int) := by omega
        ts_simp [pushM_norm, pushed, hsp0, hsple, and_self, hM, ext_fetch, Int.toNat_natCast]
        simp only [StepRel, and_true]
        have hcell : (heap ++ [Cell.sym a ((alook P.eofVal c).1 : Int) (alook P.eofVal c).2])[heap.length]?
            = some (cellOf ⟨a.toNat, (alook P.eofVal c).1, (alook P.eofVal c).2⟩) := by
          simp only [cellOf, List.getElem?_concat_length, Int.toNat_of_nonneg ha0]
        refine ⟨?_, rfl, ?_, rfl, rfl, rfl⟩
        · refine stackRel_push_frame
            { heap := heap ++ [Cell.sym a ((alook P.eofVal c).1 : Int) (alook P.eofVal c).2], arr := arr,
              sp := (c.stack.sp : Int), env := [], input := [], req := 0, reds := [], errs := 0 }
            c.stack heap.length _ ⟨rfl, ?_⟩ hcell _ ?_ ?_ rfl
          · exact readArr_frame heap _ (fun x st sy v hx => frame_append heap _ x _ hx) _ _ hr
          · exact fun x st sy v hx => frame_set_model _ μ _ _ (hM _) x st sy v hx
          · simp only [pushed, Int.toNat_natCast]
        · exact getElem?_set_of_some _ μ _ _ (hM _)
      rw [if_neg hpos]
      have hpos' : ¬ (a > 0) := hpos
      have hneg : ¬ (-a < 0) := by omega
      have hm1 : ¬ ((0 : Int) ≤ -1) := by decide
      cases hrule : P.rule (-a).toNat with
      | none =>
        ts_simp [h0', h1', hb, htn, hta, htc0, htc', hst, hla, and_self, Int.toNat_natCast, hL, he, hac, hpos',
          List.getElem?_concat_length, set_concat, hM, ext_reduce, reduceM, hneg, hrule, hm1, and_false]
        simp only [StepRel]
      | some ln =>
        obtain ⟨lhs, n⟩ := ln
        simp only []
        by_cases hn : n ≤ c.stack.sp - 1
        · rw [if_pos hn]
          have hsl : 0 ≤ (c.stack.sp : Int) - 1 - (n : Int) ∧ (c.stack.sp : Int) ≤ (arr.length : Int) ∧
              (n : Int) + 1 ≤ (c.stack.sp : Int) - ((c.stack.sp : Int) - 1 - (n : Int)) := by omega
          have hvals : ∀ (x : Cell V) env input req reds errs,
              cellVals (heap ++ [x]) (dollarRefs ⟨heap, arr, (c.stack.sp : Int), env, input, req, reds, errs⟩ n)
                = some (((c.stack.dollar n).drop 1).map Entry.val) := by
            intro x env input req reds errs
            apply cellVals_of
            have e1 : ((c.stack.sp : Int) - 1 - (n : Int)).toNat = c.stack.sp - 1 - n := by omega
            have e2 : ((c.stack.sp : Int) - ((c.stack.sp : Int) - 1 - (n : Int))).toNat = n + 1 := by omega
            have hr' := readArr_frame heap (heap ++ [x]) (fun y st sy v hy => frame_append heap _ y _ hy) _ _ hr
            simp only [dollarRefs, e1, e2, AStack.dollar]
            have e3 : List.take n (List.drop 1 (List.take (n + 1) (List.drop (c.stack.sp - 1 - n) arr)))
                = List.drop 1 (List.take (n + 1) (List.drop (c.stack.sp - 1 - n) arr)) := by
              apply List.take_of_length_le
              simp only [List.length_drop, List.length_take]
              omega
            rw [e3]
            simp only [readArr, cells, List.map_drop, List.map_take] at hr' ⊢
            rw [hr']
          have hb2 : 0 ≤ (c.stack.sp : Int) - (n : Int) - 1 := by omega
          have htn2 : ((c.stack.sp : Int) - (n : Int) - 1).toNat = c.stack.sp - n - 1 := by omega
          simp only [AStack.pop]
          cases hu : c.stack.a[c.stack.sp - n - 1]? with
          | none =>
            have := List.getElem?_eq_none_iff.mp hu
            omega
          | some under =>
            simp only []
            obtain ⟨ua, hua, huc⟩ := readArr_get _ _ _ hr _ _ hu
            have huc' : ∀ l, (heap ++ l)[ua]? = some (.sym (under.st : Int) (under.sym : Int) under.val) :=
              fun l => frame_append heap l ua _ huc
            have hust : (0 : Int) ≤ (under.st : Int) := Int.natCast_nonneg _
            have hlhs : (0 : Int) ≤ (lhs : Int) := Int.natCast_nonneg _
            cases hg : P.L under.st lhs with
            | none =>
              ts_simp [h0', h1', hb, htn, hta, htc0, htc', hst, hla, and_self, Int.toNat_natCast, hL, he, hac, hpos',
                List.getElem?_concat_length, set_concat, hM, ext_reduce, reduceM, hneg, hrule, hsl, hvals,
                hb2, htn2, hua, huc', hust, hlhs, hg]
              simp only [StepRel]
            | some g =>
              simp only []
              by_cases hg0 : g < 0
              · rw [if_pos hg0]
                have hg0' : ¬ (0 ≤ g) := by omega
                ts_simp [h0', h1', hb, htn, hta, htc0, htc', hst, hla, and_self, Int.toNat_natCast, hL, he, hac, hpos',
                  List.getElem?_concat_length, set_concat, hM, ext_reduce, reduceM, hneg, hrule, hsl, hvals,
                  hb2, htn2, hua, huc', hust, hlhs, hg, hg0']
                simp only [StepRel]
              · rw [if_neg hg0]
                have hg0' : 0 ≤ g := by omega
                have hsp0 : (0 : Int) ≤ (c.stack.sp : Int) - (n : Int) := by omega
                have hsple : (c.stack.sp : Int) - (n : Int) ≤ (arr.length : Int) := by omega
                ts_simp [h0', h1', hb, htn, hta, htc0, htc', hst, hla, and_self, Int.toNat_natCast, hL, he, hac, hpos',
                  List.getElem?_concat_length, set_concat, hM, ext_reduce, reduceM, hneg, hrule, hsl, hvals,
                  hb2, htn2, hua, huc', hust, hlhs, hg, hg0', ext_push, pushM_norm, pushed, hsp0, hsple]
                simp only [StepRel, and_true]
                have hcell : (heap ++ [Cell.sym g (lhs : Int)
                      (P.sem (-a).toNat (List.map Entry.val (List.drop 1 (c.stack.dollar n))))])[heap.length]?
                    = some (cellOf ⟨g.toNat, lhs, P.sem (-a).toNat (List.map Entry.val (List.drop 1 (c.stack.dollar n)))⟩) := by
                  simp only [cellOf, List.getElem?_concat_length, Int.toNat_of_nonneg hg0']
                refine ⟨?_, rfl, hM _, rfl, rfl, rfl⟩
                refine stackRel_push_frame
                  { heap := heap ++ [Cell.sym g (lhs : Int)
                      (P.sem (-a).toNat (List.map Entry.val (List.drop 1 (c.stack.dollar n))))], arr := arr,
                    sp := (c.stack.sp : Int) - (n : Int), env := [], input := [], req := 0, reds := [], errs := 0 }
                  ⟨c.stack.a, c.stack.sp - n⟩ heap.length _ ⟨?_, ?_⟩ hcell _ (fun _ _ _ _ hx => hx) rfl rfl
                · simp only []; omega
                · exact readArr_frame heap _ (fun x st sy v hx => frame_append heap _ x _ hx) _ _ hr
        · rw [if_neg hn]
          have hsl : ¬ (0 ≤ (c.stack.sp : Int) - 1 - (n : Int) ∧ (c.stack.sp : Int) ≤ (arr.length : Int) ∧
              (n : Int) + 1 ≤ (c.stack.sp : Int) - ((c.stack.sp : Int) - 1 - (n : Int))) := by omega
          ts_simp [h0', h1', hb, htn, hta, htc0, htc', hst, hla, and_self, Int.toNat_natCast, hL, he, hac, hpos',
            List.getElem?_concat_length, set_concat, hM, ext_reduce, reduceM, hneg, hrule, hsl]
          simp only [StepRel]

/-! ### the whole `Parser`: declarations, first `fetchLookAhead`, the loop, `return null` -/

theorem rel_errs {V : Type} (eofVal : V) (μ : Nat) (c : ACfg V) (m : M V) (e : Nat) (h : Rel eofVal μ c m) :
    Rel eofVal μ c { m with errs := e } :=
  ⟨h.stack, h.env, h.model, h.input, h.req, h.reds⟩

/-- how the loop ends against how `arun` ends (`e0` = `console.error` calls before the loop, `cl` =
    configuration at the head of the last iteration) -/
def LoopRel {V : Type} (eofVal : V) (μ : Nat) (e0 : Nat) (cl : ACfg V) : Res V → AOutcome V → Prop
  | .ret w m', .accept v c' => w = .val v ∧ Rel eofVal μ c' m' ∧ m'.errs = e0
  | .norm m', .syntaxError c' => Rel eofVal μ c' m' ∧ m'.errs = e0 + 1
  | .norm m', .nil => Rel eofVal μ cl m' ∧ m'.errs = e0
  | .crash, .crash => True
  | .outOfFuel, .outOfFuel => True
  | _, _ => False

theorem iterate_arun {V : Type} (P : Params V) (μ : Nat) (iter : M V → Res V)
    (hstep : ∀ c m, Rel P.eofVal μ c m → StepRel P.eofVal μ c m (iter m) (astep P c)) :
    ∀ (fuel : Nat) (c : ACfg V) (m : M V), Rel P.eofVal μ c m →
      LoopRel P.eofVal μ m.errs (alast P fuel c) (iterate iter fuel m) (arun P fuel c)
  | 0, _, _, _ => trivial
  | fuel + 1, c, m, h => by
    have hs := hstep c m h
    unfold iterate arun alast
    revert hs
    cases hA : astep P c with
    | next c' =>
      cases hI : iter m with
      | norm m' =>
        intro hs
        obtain ⟨hr, he⟩ := hs
        simp only []
        rw [← he]
        exact iterate_arun P μ iter hstep fuel c' m' hr
      | brk m' => intro hs; exact hs.elim
      | ret w m' => intro hs; exact hs.elim
      | crash => intro hs; exact hs.elim
      | outOfFuel => intro hs; exact hs.elim
    | acc v c' =>
      cases hI : iter m with
      | ret w m' =>
        intro hs
        obtain ⟨h1, h2, h3⟩ := hs
        subst h2 h3
        exact ⟨h1, h, rfl⟩
      | norm m' => intro hs; exact hs.elim
      | brk m' => intro hs; exact hs.elim
      | crash => intro hs; exact hs.elim
      | outOfFuel => intro hs; exact hs.elim
    | err c' =>
      cases hI : iter m with
      | brk m' =>
        intro hs
        obtain ⟨h2, h3⟩ := hs
        subst h2 h3
        exact ⟨rel_errs _ _ _ _ _ h, rfl⟩
      | norm m' => intro hs; exact hs.elim
      | ret w m' => intro hs; exact hs.elim
      | crash => intro hs; exact hs.elim
      | outOfFuel => intro hs; exact hs.elim
    | crash =>
      cases hI : iter m with
      | crash => intro _; trivial
      | norm m' => intro hs; exact hs.elim
      | ret w m' => intro hs; exact hs.elim
      | brk m' => intro hs; exact hs.elim
      | outOfFuel => intro hs; exact hs.elim
    | nil =>
      cases hI : iter m with
      | brk m' =>
        intro hs
        have h3 : m' = m := hs
        subst h3
        exact ⟨h, rfl⟩
      | norm m' => intro hs; exact hs.elim
      | ret w m' => intro hs; exact hs.elim
      | crash => intro hs; exact hs.elim
      | outOfFuel => intro hs; exact hs.elim

theorem exec_loop {V : Type} (P : Params V) (K : Consts V) (X : Ext V) (fuel : Nat) (m : M V) (body : List Gen.Ts.Stmt) :
    exec P K X fuel m (.loop body) = iterate (execIter P K X fuel body) fuel m := by
  simp only [exec]; rfl

/-- the part of the machine state the caller of `Parser` sees afterwards, against the final
    configuration `c` of the hand model (`m0` = the state in which `Parser` was called) -/
structure Final {V : Type} (m0 : M V) (c : ACfg V) (m : M V) : Prop where
  stack : StackRel m c.stack
  env : m.env = m0.env
  input : m.input = c.rest.tail
  req : m.req = c.req
  reds : m.reds = c.reds

/-- what `Parser` returns against how `arun` ends: `state.ValType`; `null` after ONE more
    `console.error`; a TypeError; `null` without a message (the two guards) -/
def OutRel {V : Type} (m0 : M V) (cl : ACfg V) (r : Res V) : AOutcome V → Prop
  | .accept v c' => ∃ m', r = .ret (.val v) m' ∧ Final m0 c' m' ∧ m'.errs = m0.errs
  | .syntaxError c' => ∃ m', r = .ret .null m' ∧ Final m0 c' m' ∧ m'.errs = m0.errs + 1
  | .crash => r = .crash
  | .outOfFuel => r = .outOfFuel
  | .nil => ∃ m', r = .ret .null m' ∧ Final m0 cl m' ∧ m'.errs = m0.errs

/-- the configuration of the hand model after the first `fetchLookAhead` of a call of `Parser` in
    the machine state `m0` whose stack is `s` (`ainit s w` when nothing was requested or reduced yet) -/
def startCfg {V : Type} (m0 : M V) (s : AStack V) (t : List Ev) : ACfg V :=
  { stack := s, rest := m0.input, reds := m0.reds, req := m0.req + 1, trace := t }

theorem parser_ts_run {V : Type} (P : Params V) (K : Consts V) (fuel : Nat) (m0 : M V) (s : AStack V) (t : List Ev)
    (hs : StackRel m0 s) :
    OutRel m0 (alast P fuel (startCfg m0 s t))
      (invoke P K (extP P K) fuel Gen.Ts.parser [.str] m0) (arun P fuel (startCfg m0 s t)) := by
  obtain ⟨heap, arr, sp, env, input, req, reds, errs⟩ := m0
  obtain ⟨hsp, hr⟩ := hs
  simp only at hsp hr
  subst hsp
  have hrel : Rel P.eofVal heap.length (startCfg ⟨heap, arr, (s.sp : Int), env, input, req, reds, errs⟩ s t)
      { heap := heap ++ [.model (headTok P.eofVal input).2], arr := arr, sp := (s.sp : Int),
        env := parserEnv (headTok P.eofVal input).1 heap.length, input := input.tail, req := req + 1, reds := reds,
        errs := errs } := by
    have hr' : readArr (heap ++ [Cell.model (headTok P.eofVal input).2]) arr = cells s.a :=
      readArr_frame heap (heap ++ [Cell.model (headTok P.eofVal input).2])
        (fun x st sy v hx => frame_append heap _ x _ hx) arr s.a hr
    constructor
    · exact ⟨rfl, hr'⟩
    · simp only [startCfg, alook_headTok]
    · simp only [startCfg, alook_headTok, List.getElem?_concat_length]
    · simp only [startCfg]
    · simp only [startCfg]
    · simp only [startCfg]
  have key := iterate_arun P heap.length (execIter P K (extP P K) fuel (loopOf Gen.Ts.parser.body))
    (step_ts_eq P K fuel heap.length) fuel _ _ hrel
  simp only [loopOf, Gen.Ts.parser, parserEnv] at key
  simp only [invoke, Gen.Ts.parser, execs]
  simp only [exec_loop]
  ts_simp [List.getElem?_concat_length, set_concat, ext_fetch]
  revert key
  generalize iterate _ fuel _ = r
  generalize alast P fuel _ = cl
  cases arun P fuel (startCfg ⟨heap, arr, (s.sp : Int), env, input, req, reds, errs⟩ s t) with
  | accept v c' =>
    cases r with
    | ret w m' =>
      intro key
      obtain ⟨h1, h2, h3⟩ := key
      subst h1
      exact ⟨_, rfl, ⟨h2.stack, rfl, h2.input, h2.req, h2.reds⟩, h3⟩
    | norm m' => intro key; exact key.elim
    | brk m' => intro key; exact key.elim
    | crash => intro key; exact key.elim
    | outOfFuel => intro key; exact key.elim
  | syntaxError c' =>
    cases r with
    | norm m' =>
      intro key
      obtain ⟨h2, h3⟩ := key
      exact ⟨_, rfl, ⟨h2.stack, rfl, h2.input, h2.req, h2.reds⟩, h3⟩
    | ret w m' => intro key; exact key.elim
    | brk m' => intro key; exact key.elim
    | crash => intro key; exact key.elim
    | outOfFuel => intro key; exact key.elim
  | crash =>
    cases r with
    | crash => intro _; rfl
    | norm m' => intro key; exact key.elim
    | ret w m' => intro key; exact key.elim
    | brk m' => intro key; exact key.elim
    | outOfFuel => intro key; exact key.elim
  | outOfFuel =>
    cases r with
    | outOfFuel => intro _; rfl
    | norm m' => intro key; exact key.elim
    | ret w m' => intro key; exact key.elim
    | brk m' => intro key; exact key.elim
    | crash => intro key; exact key.elim
  | nil =>
    cases r with
    | norm m' =>
      intro key
      obtain ⟨h2, h3⟩ := key
      exact ⟨_, rfl, ⟨h2.stack, rfl, h2.input, h2.req, h2.reds⟩, h3⟩
    | ret w m' => intro key; exact key.elim
    | brk m' => intro key; exact key.elim
    | crash => intro key; exact key.elim
    | outOfFuel => intro key; exact key.elim

/-- `Parser` called in a state whose stack is `s`, with input `w`, nothing requested or reduced
    yet: the whole text (declarations, `model` object, first `fetchLookAhead`, the loop,
    `return null`) is `arun P fuel (ainit s w)`, for every fuel and every outcome class -/
theorem parser_ts_eq {V : Type} (P : Params V) (K : Consts V) (fuel : Nat) (m0 : M V) (s : AStack V)
    (w : List (Sym × V)) (hs : StackRel m0 s) (hin : m0.input = w) (hreq : m0.req = 0) (hreds : m0.reds = []) :
    OutRel m0 (alast P fuel (ainit s w))
      (invoke P K (extP P K) fuel Gen.Ts.parser [.str] m0) (arun P fuel (ainit s w)) := by
  have h := parser_ts_run P K fuel m0 s [] hs
  have e : startCfg m0 s [] = ainit s w := by
    simp only [startCfg, ainit, hin, hreq, hreds]
  rw [e] at h
  exact h

/-- the statements at the end of the generated module (`initialize();`) put the machine in the
    initial state of the hand model, whatever the state before -/
theorem load_ts_eq {V : Type} (P : Params V) (K : Consts V) (fuel : Nat) (m : M V) :
    execs P K (extP P K) fuel m Gen.Ts.moduleTail
      = .norm { m with heap := m.heap ++ [.sym 0 1 K.undefV], arr := [m.heap.length], sp := 1 } ∧
    StackRel { m with heap := m.heap ++ [.sym 0 1 K.undefV], arr := [m.heap.length], sp := 1 } (initGlobal K.undefV) := by
  refine ⟨?_, (init_ts_eq P K 0 m).2⟩
  simp only [Gen.Ts.moduleTail]
  ts_simp [extP, extOf, init_run]

/-- `Parser` called right after `initialize()`: the run of the array model from `initGlobal`,
    hence (`C08_global`) the run of the list driver `Y.D.run` from `Y.D.init`; the `return null`
    exit without a message is never taken -/
theorem parser_ts_init {V : Type} (P : Params V) (K : Consts V) (fuel : Nat) (m0 : M V) (w : List (Sym × V))
    (hs : StackRel m0 (initGlobal K.undefV)) (hin : m0.input = w) (hreq : m0.req = 0) (hreds : m0.reds = []) :
    OutRel m0 (alast P fuel (ainit (initGlobal K.undefV) w))
      (invoke P K (extP P K) fuel Gen.Ts.parser [.str] m0) (arun P fuel (ainit (initGlobal K.undefV) w)) ∧
    absOutcome (arun P fuel (ainit (initGlobal K.undefV) w)) = some (D.run P fuel (D.init K.undefV w)) ∧
    arun P fuel (ainit (initGlobal K.undefV) w) ≠ .nil :=
  ⟨parser_ts_eq P K fuel m0 _ w hs hin hreq hreds, Y.Props.C08_global P w fuel K.undefV,
    arun_ne_nil P fuel _ (Y.Props.good_initGlobal K.undefV w)⟩

/-! ### a second call of `Parser`

`Parser` does not call `initialize()`; the only call is the one at the end of the module.  So a
second call starts from the array and pointer the first call left (after an accept: the bottom
entry and the entry of the start symbol, pointer 2; after a syntax error: whatever was on the
stack), not from `[(0,1)]`.  (The Go global template is the same: `ParserInit` is called from
`init()` and, in the http variant, from `ParserFun`, not from `Parser`.) -/

/-- the caller hands a new input to `Parser`; the ghost counters restart -/
def recall {V : Type} (m : M V) (w : List (Sym × V)) : M V := { m with input := w, req := 0, reds := [] }

/-- whatever final configuration `c1` the first call ended in (`Final`), the second call is the run
    of the hand model from `c1.stack` -/
theorem parser_ts_second {V : Type} (P : Params V) (K : Consts V) (fuel : Nat) (m0 m1 : M V) (c1 : ACfg V)
    (w2 : List (Sym × V)) (h1 : Final m0 c1 m1) :
    OutRel (recall m1 w2) (alast P fuel (ainit c1.stack w2))
      (invoke P K (extP P K) fuel Gen.Ts.parser [.str] (recall m1 w2)) (arun P fuel (ainit c1.stack w2)) :=
  parser_ts_eq P K fuel (recall m1 w2) c1.stack w2 h1.stack rfl rfl rfl

/-- … unless the caller runs `initialize()` in between -/
theorem parser_ts_reinit {V : Type} (P : Params V) (K : Consts V) (fuel : Nat) (m1 : M V) (w2 : List (Sym × V)) :
    ∃ m2, invoke P K ext0 0 Gen.Ts.initialize [] (recall m1 w2) = .norm m2 ∧
      OutRel m2 (alast P fuel (ainit (initGlobal K.undefV) w2))
        (invoke P K (extP P K) fuel Gen.Ts.parser [.str] m2) (arun P fuel (ainit (initGlobal K.undefV) w2)) := by
  obtain ⟨e, hs⟩ := init_ts_eq P K 0 (recall m1 w2)
  exact ⟨_, e, parser_ts_eq P K fuel _ _ w2 hs rfl rfl rfl⟩

/-! ### the relation `StackRel` is a function from machine states onto model stacks -/

/-- every stack of the hand model is the stack of some machine state (one cell per slot) -/
theorem stackRel_total {V : Type} (s : AStack V) :
    ∃ m : M V, StackRel m s :=
  ⟨{ heap := s.a.map cellOf, arr := List.range s.a.length, sp := (s.sp : Int), env := [], input := [], req := 0,
     reds := [], errs := 0 }, rfl, by
    apply List.ext_getElem?
    intro i
    simp only [readArr, cells, List.getElem?_map]
    by_cases hi : i < s.a.length
    · simp [List.getElem?_range hi, List.getElem?_eq_getElem hi]
    · have hi' : s.a.length ≤ i := by omega
      simp [List.getElem?_eq_none hi', List.getElem?_eq_none (l := List.range s.a.length) (by simpa using hi')]⟩

/-! ### examples: the interpreted text on the tiny table of `C08` -/

def K0 : Consts Nat := { undefV := 0, emptyV := 0 }

/-- the module's variables before `initialize();` runs: `StateSymStack = []`, `StackPointer = 0` -/
def m00 (w : List (Sym × Nat)) : M Nat :=
  { heap := [], arr := [], sp := 0, env := [], input := w, req := 0, reds := [], errs := 0 }

def stateOf : Res Nat → M Nat
  | .norm m => m
  | .brk m => m
  | .ret _ m => m
  | _ => m00 []

/-- kind (0 value, 1 `null`, 2 crash, 3 out of fuel, 4 other), value, `console.error` calls, pointer, array length -/
def verdictTs : Res Nat → Nat × Option Nat × Nat × Int × Nat
  | .ret (.val v) m => (0, some v, m.errs, m.sp, m.arr.length)
  | .ret .null m => (1, none, m.errs, m.sp, m.arr.length)
  | .crash => (2, none, 0, 0, 0)
  | .outOfFuel => (3, none, 0, 0, 0)
  | _ => (4, none, 0, 0, 0)

open Y.Props in
/-- module load, then `Parser("a")` -/
def run1 : Res Nat :=
  invoke tinyP K0 (extP tinyP K0) 10 Gen.Ts.parser [.str]
    (stateOf (execs tinyP K0 (extP tinyP K0) 10 (m00 [(3, 7)]) Gen.Ts.moduleTail))

/-- the first call accepts with value 107 and leaves pointer 2 -/
theorem run1_accepts : verdictTs run1 = (0, some 107, 0, 2, 2) := by decide +kernel

open Y.Props in
/-- the SAME input again: the loop starts in the accept state with lookahead `a`: "Grammer error", `null` -/
def run2 : Res Nat :=
  invoke tinyP K0 (extP tinyP K0) 10 Gen.Ts.parser [.str] (recall (stateOf run1) [(3, 7)])

theorem run2_rejects : verdictTs run2 = (1, none, 1, 2, 2) := by decide +kernel

open Y.Props in
/-- with `initialize()` in between it is accepted again -/
def run3 : Res Nat :=
  invoke tinyP K0 (extP tinyP K0) 10 Gen.Ts.parser [.str]
    (stateOf (invoke tinyP K0 ext0 0 Gen.Ts.initialize [] (recall (stateOf run1) [(3, 7)])))

theorem run3_accepts : verdictTs run3 = (0, some 107, 0, 2, 2) := by decide +kernel

open Y.Props in
/-- a syntax error (`a a`), a crash (symbol 5 has no table column), out of fuel -/
def runOn (fuel : Nat) (w : List (Sym × Nat)) : Res Nat :=
  invoke tinyP K0 (extP tinyP K0) fuel Gen.Ts.parser [.str]
    (stateOf (execs tinyP K0 (extP tinyP K0) 10 (m00 w) Gen.Ts.moduleTail))

example : verdictTs (runOn 10 [(3, 7), (3, 8)]) = (1, none, 1, 2, 2) := by decide +kernel
example : verdictTs (runOn 10 [(5, 7)]) = (2, none, 0, 0, 0) := by decide +kernel
example : verdictTs (runOn 2 [(3, 7)]) = (3, none, 0, 0, 0) := by decide +kernel

/-- the guards are live in the text: without `initialize()` (`StackPointer = 0`) `Parser` returns
    `null` and prints nothing -/
example : verdictTs (invoke Y.Props.tinyP K0 (extP Y.Props.tinyP K0) 10 Gen.Ts.parser [.str] (m00 [(3, 7)]))
    = (1, none, 0, 0, 0) := by decide +kernel

/-- references: after the run the two live slots refer to two different cells, and the cell of the
    reduced entry was allocated by `ReduceFunc` AFTER the shifted entry's (addresses 0, 3; 1 is
    `model`, 2 the shifted `a`) -/
example : (stateOf run1).arr = [0, 3] ∧ (stateOf run1).heap.length = 4 := by decide +kernel

/-! ### axioms -/
#print axioms push_ts_eq
#print axioms pop_ts_eq
#print axioms pop_ts_neg
#print axioms init_ts_eq
#print axioms load_ts_eq
#print axioms step_ts_eq
#print axioms parser_ts_run
#print axioms parser_ts_eq
#print axioms parser_ts_init
#print axioms parser_ts_second
#print axioms parser_ts_reinit
#print axioms stackRel_unique
#print axioms stackRel_total
#print axioms run1_accepts
#print axioms run2_rejects
#print axioms run3_accepts

end C08c
