import Yv.Abs.CertSets
import Yv.Cert.Complete
import Yv.Cert.LAOracle
/-! Computable glue for C02 (completeness): the lookahead data handed to `laClosed`, the extra
    decidable side condition `laTerm`, and the abstract LR table `absTab` decoded from a dense table. -/
namespace Y

-- `toLAData A la` (the automaton and the lookahead table in the shape `laClosed` checks) is defined
-- in Yv/Cert/LAOracle.lean

/-- Bool check: every lookahead symbol stored in `la` (on an item of the automaton) is a terminal -/
def laTerm (G : Grammar) (A : Auto) (la : LATab) : Bool :=
  (List.range A.n).all fun q => (A.its q).all fun it => (la.get q it).all fun b => G.isT b

/-- decoding of an action cell: error code ↦ error, accept code ↦ accept, positive ↦ shift,
    non-positive ↦ reduce by `-v`; an index out of range is decoded as error -/
def actOf (n : Nat) (c : Option Int) : Act :=
  match c with
  | none => .error
  | some v =>
    if v = errCode n then .error
    else if v = accCode n then .accept
    else if 0 < v then .shift v.toNat
    else .reduce (-v).toNat

/-- decoding of a goto cell: a non-negative value other than the error code is the target state -/
def gotoOf (n : Nat) (c : Option Int) : Option Nat :=
  match c with
  | none => none
  | some v => if v = errCode n then none else if v < 0 then none else some v.toNat

/-- the abstract LR table of a dense table (`G` is carried for uniformity with the other artefacts) -/
def absTab (_G : Grammar) (A : Auto) (T : Dense) : Tab :=
  { act := fun q a => actOf A.n (cell T q a),
    goto := fun q X => gotoOf A.n (cell T q X) }

end Y
