import Yv.Proofs.DValue
import Yv.Proofs.CanonFacts
import Yv.Proofs.LAOracleFacts
/-! Viable-prefix invariant of the concrete driver (second half of C06).

    * `GenL.derives` / `Derives.genL`: the big-step forest relation `GenL` and the small-step
      relation `Derives` agree on terminal targets.
    * `RhsProductive`: every suffix of every right-hand side derives a terminal string (this is all
      that `St0_valid` / `valid_viable` of `Yv/Abs/Prefix.lean` really need; `AllProductive` quantifies
      over *arbitrary* symbol sequences, which no grammar satisfies); local variants
      `St0_valid'`, `valid_viable'`.
    * `its_eq_St0`: on a certified canonical automaton the item list of the top state of every
      path-consistent stack is the canonical LR(0) state `St0` of the stack's symbol string.
    * `stack_derives_shifted`: the stack symbols derive the consumed tokens.
    * `reach_prefix`: whatever has been shifted extends to a sentence. -/
namespace Y

/-! ## `GenL` versus `Derives` -/

theorem Derives.append {G : Grammar} {a b c d : List Sym} (h1 : Derives G a b) (h2 : Derives G c d) :
    Derives G (a ++ c) (b ++ d) := by
  have e1 : Derives G ([] ++ a ++ c) ([] ++ b ++ c) := h1.ctx [] c
  have e2 : Derives G (b ++ c ++ []) (b ++ d ++ []) := h2.ctx b []
  simp only [List.nil_append, List.append_nil] at e1 e2
  exact e1.trans e2

theorem Derives.rule {G : Grammar} {r : Nat} {rl : Rule} (hr : G.rules[r]? = some rl) :
    Derives G [rl.lhs] rl.rhs := by
  have := Derives.step (G := G) [] [] r rl ([] ++ rl.rhs ++ []) hr (.refl _)
  simpa only [List.nil_append, List.append_nil] using this

theorem GenL.derives {G : Grammar} {γ w : List Sym} (h : GenL G γ w) : Derives G γ w := by
  induction h with
  | nil => exact .refl _
  | tm t γ v _ _ ih => exact Derives.append (.refl [t]) ih
  | nt r rl γ u v hr _ _ ih1 ih2 =>
    exact Derives.append ((Derives.rule hr).trans ih1) ih2

theorem GenL.ofTerms {G : Grammar} : ∀ (z : List Sym), (∀ t ∈ z, G.isT t = true) → GenL G z z
  | [], _ => .nil
  | t :: z, h => .tm t z z (h t List.mem_cons_self)
      (GenL.ofTerms z (fun s hs => h s (List.mem_cons_of_mem _ hs)))

/-- a forest for `γ1 ++ γ2` splits into a forest for `γ1` and one for `γ2` -/
theorem GenL.split {G : Grammar} : ∀ (γ1 γ2 w : List Sym), GenL G (γ1 ++ γ2) w →
    ∃ u v, w = u ++ v ∧ GenL G γ1 u ∧ GenL G γ2 v := by
  intro γ1
  induction γ1 with
  | nil =>
    intro γ2 w h
    exact ⟨[], w, rfl, .nil, by simpa only [List.nil_append] using h⟩
  | cons x γ1 ih =>
    intro γ2 w h
    rw [List.cons_append] at h
    cases h with
    | tm t γ v ht h' =>
      obtain ⟨u1, u2, rfl, ha, hb⟩ := ih γ2 _ h'
      exact ⟨x :: u1, u2, rfl, .tm x _ _ ht ha, hb⟩
    | nt r rl γ ua ub hr ha h' =>
      obtain ⟨u1, u2, rfl, hc, hb⟩ := ih γ2 _ h'
      exact ⟨ua ++ u1, u2, by simp only [List.append_assoc], .nt r rl _ _ _ hr ha hc, hb⟩

/-- a small-step derivation of a terminal string is a forest -/
theorem Derives.genL {G : Grammar} {a b : List Sym} (h : Derives G a b) (hb : Terminals G b) :
    GenL G a b := by
  induction h with
  | refl a => exact GenL.ofTerms a hb
  | step pre post r rl b hr _ ih =>
    obtain ⟨u12, u3, rfl, h12, h3⟩ := GenL.split _ _ _ (ih hb)
    obtain ⟨u1, u2, rfl, h1, h2⟩ := GenL.split _ _ _ h12
    exact GenL.append (GenL.append h1 (GenL.ofRule hr h2)) h3

theorem Vals.genL {V : Type} {G : Grammar} {sem : Nat → List V → V} {γ : List Sym}
    {u : List (Sym × V)} {vs : List V} {rs : List Nat} (h : Vals G sem γ u vs rs) :
    GenL G γ (u.map Prod.fst) := by
  induction h with
  | nil => exact .nil
  | tm t v γ u vs rs ht _ ih => exact .tm t _ _ ht ih
  | nt r rl γ u1 u2 vs1 vs rs1 rs2 hr _ _ ih1 ih2 =>
    rw [List.map_append]; exact .nt r rl _ _ _ hr ih1 ih2

/-- first step of a derivation -/
theorem Derives.inv {G : Grammar} {a b : List Sym} (h : Derives G a b) :
    a = b ∨ ∃ (pre post : List Sym) (r : Nat) (rl : Rule), G.rules[r]? = some rl ∧ a = pre ++ [rl.lhs] ++ post ∧
      Derives G (pre ++ rl.rhs ++ post) b := by
  cases h with
  | refl => exact Or.inl rfl
  | step pre post r rl b hr h' => exact Or.inr ⟨pre, post, r, rl, hr, rfl, h'⟩

/-! ## productivity: exactly what the validity lemmas need -/

/-- every suffix of every right-hand side derives some terminal string -/
def RhsProductive (G : Grammar) : Prop :=
  ∀ (r : Nat) (rl : Rule), G.rules[r]? = some rl → ∀ k : Nat,
    ∃ y, Terminals G y ∧ Derives G (rl.rhs.drop k) y

theorem prodOK_rhsProductive {G : Grammar} {nS : Nat} (h : prodOK G nS = true) : RhsProductive G := by
  intro r rl hr k
  obtain ⟨y, hy⟩ := prodOK_gen h (rl.rhs.drop k)
    (fun x hx => Or.inr ⟨rl, List.mem_of_getElem? hr, Or.inr (List.mem_of_mem_drop hx)⟩)
  exact ⟨y, hy.terms, hy.derives⟩

theorem valid_clos' (G : Grammar) (hP : RhsProductive G) (γ : List Sym) (r d r' : Nat) (rl rl' : Rule)
    (hr : G.rules[r]? = some rl) (hr' : G.rules[r']? = some rl') (hx : rl.rhs[d]? = some rl'.lhs)
    (h : Valid G γ ⟨r, d⟩) : Valid G γ ⟨r', 0⟩ := by
  obtain ⟨rl0, rl1, δ, z, h0, hr1, hd, hγ, hz, hder⟩ := h
  simp only at hr1 hd hγ
  rw [hr] at hr1; cases hr1
  obtain ⟨y, hy, hdy⟩ := hP r rl hr (d+1)
  refine ⟨rl0, rl', γ, y ++ z, h0, hr', Nat.zero_le _, by simp, ?_, ?_⟩
  · intro t ht; rcases List.mem_append.mp ht with h | h
    · exact hy t h
    · exact hz t h
  · have e1 : Derives G (δ ++ [rl.lhs] ++ z) (δ ++ rl.rhs ++ z) :=
      .step δ z r rl _ hr (.refl _)
    have e2 : δ ++ rl.rhs ++ z = (γ ++ [rl'.lhs]) ++ rl.rhs.drop (d+1) ++ z := by
      conv => lhs; rw [split_at hx]
      simp [hγ, List.append_assoc]
    have e3 : Derives G ((γ ++ [rl'.lhs]) ++ rl.rhs.drop (d+1) ++ z) ((γ ++ [rl'.lhs]) ++ y ++ z) :=
      hdy.ctx _ _
    have := hder.trans (e1.trans (e2 ▸ e3))
    simpa [List.append_assoc] using this

/-- `St0_valid` under the satisfiable hypothesis `RhsProductive` -/
theorem St0_valid' (G : Grammar) (hP : RhsProductive G) (rl0 : Rule) (h0 : G.rules[0]? = some rl0) :
    ∀ (γ : List Sym) (it : Item), St0 G γ it → Valid G γ.reverse it := by
  intro γ
  induction γ with
  | nil =>
    intro it h
    induction h with
    | base it hk =>
      subst hk
      exact ⟨rl0, rl0, [], [], h0, h0, Nat.zero_le _, by simp, (fun t ht => by cases ht),
        by simpa using Derives.refl _⟩
    | step r d r' rl rl' _ hr hr' hx ih => exact valid_clos' G hP _ r d r' rl rl' hr hr' hx ih
  | cons X γ ihγ =>
    intro it h
    induction h with
    | base it hk =>
      obtain ⟨r, d, rl, rfl, hr, hx, hs⟩ := hk
      have := valid_goto G γ.reverse r d rl X hr hx (ihγ _ hs)
      simpa using this
    | step r d r' rl rl' _ hr hr' hx ih => exact valid_clos' G hP _ r d r' rl rl' hr hr' hx ih

/-- `valid_viable` under the satisfiable hypothesis `RhsProductive` -/
theorem valid_viable' (G : Grammar) (hP : RhsProductive G) (γ : List Sym) (it : Item)
    (h : Valid G γ it) :
    ∃ rl0 z, G.rules[0]? = some rl0 ∧ Terminals G z ∧ Derives G [rl0.lhs] (γ ++ z) := by
  obtain ⟨rl0, rl, δ, z, h0, hr, hd, hγ, hz, hder⟩ := h
  obtain ⟨y, hy, hdy⟩ := hP it.r rl hr it.d
  refine ⟨rl0, y ++ z, h0, ?_, ?_⟩
  · intro t ht; rcases List.mem_append.mp ht with h | h
    · exact hy t h
    · exact hz t h
  · have e1 : Derives G (δ ++ [rl.lhs] ++ z) (δ ++ rl.rhs ++ z) := .step δ z it.r rl _ hr (.refl _)
    have e2 : δ ++ rl.rhs ++ z = γ ++ rl.rhs.drop it.d ++ z := by
      rw [hγ]; conv => lhs; rw [← List.take_append_drop it.d rl.rhs]
      simp [List.append_assoc]
    have e3 : Derives G (γ ++ rl.rhs.drop it.d ++ z) (γ ++ y ++ z) := hdy.ctx _ _
    have := hder.trans (e1.trans (e2 ▸ e3))
    simpa [List.append_assoc] using this

/-! ## the augmented rule -/

/-- `gramWF`: every rule other than rule 0 has a left-hand side above the terminals -/
theorem gramWF_lhs_gt {G : Grammar} {nS : Nat} (h : gramWF G nS = true) (r : Nat) (rl : Rule)
    (hr : G.rules[r]? = some rl) (h1r : 1 ≤ r) : G.nT < rl.lhs := by
  unfold gramWF at h
  simp only [Bool.and_eq_true] at h
  obtain ⟨_, h3⟩ := h
  have hm : rl ∈ G.rules.drop 1 := by
    have : (G.rules.drop 1)[r - 1]? = some rl := by
      rw [List.getElem?_drop]
      have : 1 + (r - 1) = r := by omega
      rw [this]; exact hr
    exact List.mem_of_getElem? this
  exact of_decide_eq_true (List.all_eq_true.mp h3 rl hm)

theorem isT_zero (G : Grammar) : G.isT 0 = false := by
  unfold Grammar.isT; simp

/-- a derivation of a terminal string from `start'` begins with the augmented rule -/
theorem derives_strip_start {G : Grammar} {nS : Nat} (hG : gramWF G nS = true) {rl0 : Rule}
    (h0 : G.rules[0]? = some rl0) (hl : rl0.lhs = 0) {x : List Sym} (hx : Terminals G x)
    (h : Derives G [rl0.lhs] x) : Derives G rl0.rhs x := by
  rw [hl] at h
  rcases h.inv with e | ⟨pre, post, r, rl, hr, e, h'⟩
  · have := hx 0 (by rw [← e]; exact List.mem_cons_self)
    rw [isT_zero] at this; cases this
  · cases pre with
    | cons p pre' => simp at e
    | nil =>
      simp only [List.nil_append, List.cons_append, List.cons.injEq] at e
      obtain ⟨el, ep⟩ := e
      subst ep
      have hr0 : r = 0 := by
        rcases Nat.eq_zero_or_pos r with h | h
        · exact h
        · have := gramWF_lhs_gt hG r rl hr h
          rw [← el] at this
          exact absurd this (Nat.not_lt_zero _)
      subst hr0
      rw [h0] at hr; cases hr
      simpa only [List.nil_append, List.append_nil] using h'

end Y

namespace Y.D
open Y
variable {V : Type}

/-! ## step 1: the top state is the canonical state of the stack's symbol string -/

/-- On a certified canonical automaton the items of the top state of a path-consistent stack are
    exactly the canonical LR(0) state reached by the stack's symbols (`St0` takes the most recent
    symbol first, `ssyms` lists them left to right). -/
theorem its_eq_St0 {G : Grammar} {A : Auto} (hA : AOK G A) (ok : CanonOK G A)
    {st : List (Entry V)} (hp : PathOK A st) :
    ∀ it, it ∈ A.its (stTop st) ↔ St0 G (ssyms st).reverse it := by
  induction hp with
  | bottom v => exact ok.s0
  | push e st hp hg ih =>
    intro it
    have hq := hp.top_lt hA
    obtain ⟨_, _, hcl⟩ := ok.entry _ hq _ _ (Auto.goto_mem hg)
    cases st with
    | nil => exact absurd rfl hp.ne_nil
    | cons f st' =>
      rw [ssyms_cons, List.reverse_append]
      show _ ↔ Cl0 G (adv0 G e.sym (St0 G (ssyms (f :: st')).reverse)) it
      exact (hcl it).trans (Cl0_congr (fun x => adv0_congr ih x) it)

/-- the top state of a path-consistent stack holds an item -/
theorem top_has_item {G : Grammar} {A : Auto} (hA : AOK G A) (ok : CanonOK G A)
    {st : List (Entry V)} (hp : PathOK A st) : ∃ it, it ∈ A.its (stTop st) := by
  cases hp with
  | bottom v => exact ⟨⟨0, 0⟩, hA.s0_start⟩
  | push e st' hp' hg =>
    have hq := hp'.top_lt hA
    obtain ⟨⟨jt, hj, hx⟩, _, _⟩ := ok.entry _ hq _ _ (Auto.goto_mem hg)
    obtain ⟨p, hgp, hm⟩ := hA.gotoC _ hq jt hj _ hx
    rw [hg] at hgp; cases hgp
    exact ⟨_, hm⟩

/-- step 2: the symbol string of a path-consistent stack is a viable prefix with a terminal
    completion -/
theorem stack_viable {G : Grammar} {A : Auto} (hA : AOK G A) (ok : CanonOK G A)
    (hP : RhsProductive G) {st : List (Entry V)} (hp : PathOK A st) :
    ∃ rl0 z, G.rules[0]? = some rl0 ∧ Terminals G z ∧ Derives G [rl0.lhs] (ssyms st ++ z) := by
  obtain ⟨it, hit⟩ := top_has_item hA ok hp
  have hst := (its_eq_St0 hA ok hp it).mp hit
  obtain ⟨rl0, h0⟩ : ∃ rl0, G.rules[0]? = some rl0 := by
    have := (hA.item_ok _ (hp.top_lt hA) it hit).1
    exact rule_of_lt (by omega)
  have hv := St0_valid' G hP rl0 h0 _ it hst
  rw [List.reverse_reverse] at hv
  exact valid_viable' G hP _ it hv

/-! ## step 3: the stack symbols derive the consumed tokens -/

theorem stack_derives_shifted {G : Grammar} {A : Auto} {sem : Nat → List V → V}
    {w : List (Sym × V)} {c : Cfg V} (h : InvV G A sem w c) :
    ∃ shifted, w = shifted ++ c.rest ∧ GenL G (ssyms c.stack) (shifted.map Prod.fst) ∧
      Derives G (ssyms c.stack) (shifted.map Prod.fst) := by
  obtain ⟨shifted, hw, hv⟩ := h.val
  exact ⟨shifted, hw, hv.genL, hv.genL.derives⟩

/-! ## step 4: the consumed tokens extend to a sentence -/

/-- viable-prefix property of an invariant configuration -/
theorem invV_prefix {G : Grammar} {nS : Nat} {A : Auto} {sem : Nat → List V → V}
    (hG : gramWF G nS = true) (hA : AOK G A) (ok : CanonOK G A) (hP : RhsProductive G)
    {w : List (Sym × V)} {c : Cfg V} (h : InvV G A sem w c) :
    ∃ shifted z, w = shifted ++ c.rest ∧ Terminals G z ∧
      ∃ S₀, G.rules[0]? = some ⟨0, [S₀]⟩ ∧ Derives G [S₀] (shifted.map Prod.fst ++ z) := by
  obtain ⟨shifted, hw, hgen, hder⟩ := stack_derives_shifted h
  obtain ⟨rl0, z, h0, hz, hv⟩ := stack_viable hA ok hP h.inv.path
  obtain ⟨rl0', h0', hl, hlen⟩ := (gramWF_ok hG).r0
  rw [h0] at h0'; cases h0'
  have hall : Derives G [rl0.lhs] (shifted.map Prod.fst ++ z) :=
    hv.trans (Derives.append hder (.refl z))
  have hterm : Terminals G (shifted.map Prod.fst ++ z) := by
    intro t ht
    rcases List.mem_append.mp ht with h | h
    · exact hgen.terms t h
    · exact hz t h
  have hs := derives_strip_start hG h0 hl hterm hall
  obtain ⟨l, rhs⟩ := rl0
  simp only at hl hlen hs
  subst hl
  cases rhs with
  | nil => simp at hlen
  | cons S₀ tl =>
    cases tl with
    | cons _ _ => simp at hlen
    | nil => exact ⟨shifted, z, hw, hz, S₀, h0, hs⟩

theorem Reach.trans {P : Params V} {c c1 c2 : Cfg V} (h1 : Reach P c c1) (h2 : Reach P c1 c2) :
    Reach P c c2 := by
  induction h2 with
  | refl => exact h1
  | tail c2 c3 _ hs ih => exact Reach.tail _ _ _ ih hs

/-- the remaining input only loses tokens at the front -/
theorem Reach.rest_suffix {P : Params V} {c c' : Cfg V} (h : Reach P c c') :
    ∃ u, c.rest = u ++ c'.rest := by
  induction h with
  | refl => exact ⟨[], rfl⟩
  | tail c1 c2 _ hs ih =>
    obtain ⟨u, hu⟩ := ih
    obtain ⟨top, below, a, _, _, _, _, hcase⟩ := step_next_shape hs
    rcases hcase with ⟨_, _, hrest, _⟩ | ⟨_, _, _, _, _, _, _, _, _, _, _, hrest, _⟩
    · cases hr : c1.rest with
      | nil => exact ⟨u, by rw [hu, hrest, hr]; rfl⟩
      | cons x xs =>
        exact ⟨u ++ [x], by rw [hu, hrest, hr]; simp⟩
    · exact ⟨u, by rw [hu, hrest]⟩

/-- whatever the driver has shifted extends to a sentence -/
theorem reach_prefix {G : Grammar} {nS : Nat} {A : Auto} {T : Dense}
    (sem : Nat → List V → V) (eofVal bv : V)
    (hG : gramWF G nS = true) (hA : AOK G A) (hT : TOK G nS A T) (ok : CanonOK G A)
    (hP : RhsProductive G) (w : List (Sym × V)) (hw : ∀ t ∈ w, t.1 ≤ G.nT ∧ t.1 ≠ 1)
    {c : Cfg V} (hr : Reach (dparams G T A.n sem eofVal) (init bv w) c) :
    ∃ shifted z, w = shifted ++ c.rest ∧ Terminals G z ∧
      ∃ S₀, G.rules[0]? = some ⟨0, [S₀]⟩ ∧ Derives G [S₀] (shifted.map Prod.fst ++ z) :=
  invV_prefix hG hA ok hP
    (reach_invV sem eofVal (gramWF_ok hG) hA hT (init_invV (A := A) sem bv w hw) hr)

/-! ## runs ending in a syntax error -/

theorem step_err_shape {P : Params V} {c c' : Cfg V} (h : step P c = .err c') : c' = c := by
  unfold step at h
  split at h
  · cases h
  · split at h
    · cases h
    · split at h
      · cases h; rfl
      · split at h
        · cases h
        · split at h
          · cases h
          · split at h
            · cases h
            · split at h
              · split at h
                · cases h
                · split at h
                  · cases h
                  · split at h
                    · cases h
                    · cases h
              · cases h

/-- the configuration reported with a syntax error is reachable by `next` steps -/
theorem run_error_reach {P : Params V} {c' : Cfg V} :
    ∀ (fuel : Nat) (c : Cfg V), run P fuel c = .syntaxError c' →
      Reach P c c' ∧ step P c' = .err c' := by
  intro fuel
  induction fuel with
  | zero => intro c hr; cases hr
  | succ n ih =>
    intro c hr
    unfold run at hr
    cases hs : step P c with
    | next c1 =>
      rw [hs] at hr
      obtain ⟨h1, h2⟩ := ih c1 hr
      exact ⟨Reach.head hs h1, h2⟩
    | acc v1 c1 => rw [hs] at hr; cases hr
    | err c1 =>
      rw [hs] at hr
      cases hr
      have := step_err_shape hs
      subst this
      exact ⟨Reach.refl _, hs⟩
    | crash => rw [hs] at hr; cases hr

end Y.D
