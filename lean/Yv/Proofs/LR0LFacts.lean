import Yv.Model.LR0L
import Yv.Proofs.CanonFacts
/-! Facts about the list-based LR(0) worklist `buildL`: sorting, kernels, one step, the loop
    invariant. -/
namespace Y

/-! ## the strict order on items -/

theorem itemLt_iff {a b : Item} : itemLt a b = true ↔ a.r < b.r ∨ (a.r = b.r ∧ a.d < b.d) := by
  unfold itemLt
  simp only [Bool.or_eq_true, Bool.and_eq_true, decide_eq_true_eq, beq_iff_eq]

theorem Item.eq_iff {a b : Item} : a = b ↔ a.r = b.r ∧ a.d = b.d := by
  cases a; cases b; simp

theorem itemLt_irrefl (a : Item) : itemLt a a = true → False := by
  intro h
  have h := itemLt_iff.mp h
  have : ¬ a.r < a.r := Nat.lt_irrefl _
  have : ¬ a.d < a.d := Nat.lt_irrefl _
  rcases h with h | h
  · contradiction
  · exact this h.2

theorem itemLt_trans {a b c : Item} (h1 : itemLt a b = true) (h2 : itemLt b c = true) :
    itemLt a c = true := by
  have h1 := itemLt_iff.mp h1
  have h2 := itemLt_iff.mp h2
  apply itemLt_iff.mpr
  rcases h1 with h1 | ⟨e1, h1⟩ <;> rcases h2 with h2 | ⟨e2, h2⟩
  · exact Or.inl (Nat.lt_trans h1 h2)
  · exact Or.inl (e2 ▸ h1)
  · exact Or.inl (e1 ▸ h2)
  · exact Or.inr ⟨e1.trans e2, Nat.lt_trans h1 h2⟩

theorem itemLt_total {a b : Item} (h1 : itemLt a b = false) (h2 : a ≠ b) : itemLt b a = true := by
  have h1 : ¬ (a.r < b.r ∨ (a.r = b.r ∧ a.d < b.d)) := by
    intro h; rw [itemLt_iff.mpr h] at h1; cases h1
  have h2 : ¬ (a.r = b.r ∧ a.d = b.d) := fun h => h2 (Item.eq_iff.mpr h)
  apply itemLt_iff.mpr
  have hr : ¬ a.r < b.r := fun h => h1 (Or.inl h)
  rcases Nat.lt_or_ge b.r a.r with h | h
  · exact Or.inl h
  · have e : a.r = b.r := Nat.le_antisymm h (Nat.le_of_not_lt hr)
    refine Or.inr ⟨e.symm, ?_⟩
    have hd : ¬ a.d < b.d := fun h => h1 (Or.inr ⟨e, h⟩)
    have hne : a.d ≠ b.d := fun h => h2 ⟨e, h⟩
    rcases Nat.lt_or_ge b.d a.d with h | h
    · exact h
    · exact absurd (Nat.le_antisymm h (Nat.le_of_not_lt hd)) hne

/-- strictly sorted by (rule, dot) -/
def SortedI (l : List Item) : Prop := l.Pairwise (fun a b => itemLt a b = true)

theorem SortedI.nodup {l : List Item} (h : SortedI l) : l.Nodup := by
  unfold SortedI at h
  unfold List.Nodup
  refine List.Pairwise.imp ?_ h
  intro a b hab e
  subst e
  exact itemLt_irrefl a hab

theorem mem_insertI {x y : Item} : ∀ {l : List Item}, y ∈ insertI x l ↔ y = x ∨ y ∈ l
  | [] => by simp [insertI]
  | z :: zs => by
    unfold insertI
    split
    · simp
    · split
      · rename_i _ hxz
        subst hxz
        simp
      · simp only [List.mem_cons, mem_insertI (l := zs)]
        constructor
        · rintro (h | h | h)
          · exact Or.inr (Or.inl h)
          · exact Or.inl h
          · exact Or.inr (Or.inr h)
        · rintro (h | h | h)
          · exact Or.inr (Or.inl h)
          · exact Or.inl h
          · exact Or.inr (Or.inr h)

theorem sorted_insertI (x : Item) : ∀ {l : List Item}, SortedI l → SortedI (insertI x l)
  | [], _ => by simp [insertI, SortedI]
  | z :: zs, h => by
    unfold SortedI at h
    have hz := List.pairwise_cons.mp h
    unfold insertI
    split
    · rename_i hxz
      refine List.pairwise_cons.mpr ⟨?_, h⟩
      intro w hw
      rcases List.mem_cons.mp hw with rfl | hw
      · exact hxz
      · exact itemLt_trans hxz (hz.1 w hw)
    · split
      · exact h
      · rename_i hxz hne
        have hzx : itemLt z x = true := itemLt_total (by simpa using hxz) hne
        refine List.pairwise_cons.mpr ⟨?_, sorted_insertI x (l := zs) hz.2⟩
        intro w hw
        rcases mem_insertI.mp hw with rfl | hw
        · exact hzx
        · exact hz.1 w hw

theorem mem_sortI {y : Item} : ∀ {l : List Item}, y ∈ sortI l ↔ y ∈ l
  | [] => by simp [sortI]
  | x :: xs => by
    have ih := mem_sortI (y := y) (l := xs)
    unfold sortI at ih ⊢
    rw [List.foldr_cons, mem_insertI, ih, List.mem_cons]

theorem sorted_sortI : ∀ (l : List Item), SortedI (sortI l)
  | [] => by simp [sortI, SortedI]
  | x :: xs => by
    have ih := sorted_sortI xs
    unfold sortI at ih ⊢
    rw [List.foldr_cons]
    exact sorted_insertI x ih

/-- two strictly sorted lists with the same elements are equal -/
theorem sorted_ext : ∀ {l₁ l₂ : List Item}, SortedI l₁ → SortedI l₂ →
    (∀ it, it ∈ l₁ ↔ it ∈ l₂) → l₁ = l₂
  | [], [], _, _, _ => rfl
  | [], b :: l₂, _, _, h => by have := (h b).mpr (List.mem_cons_self ..); cases this
  | a :: l₁, [], _, _, h => by have := (h a).mp (List.mem_cons_self ..); cases this
  | a :: l₁, b :: l₂, h1, h2, h => by
    have p1 := List.pairwise_cons.mp h1
    have p2 := List.pairwise_cons.mp h2
    have hab : a = b := by
      rcases List.mem_cons.mp ((h a).mp (List.mem_cons_self ..)) with e | ha
      · exact e
      · rcases List.mem_cons.mp ((h b).mpr (List.mem_cons_self ..)) with e | hb
        · exact e.symm
        · exact absurd (itemLt_trans (p1.1 b hb) (p2.1 a ha)) (itemLt_irrefl a)
    subst hab
    have : l₁ = l₂ := by
      refine sorted_ext p1.2 p2.2 (fun it => ⟨fun hi => ?_, fun hi => ?_⟩)
      · rcases List.mem_cons.mp ((h it).mp (List.mem_cons_of_mem _ hi)) with e | h'
        · exact absurd (e ▸ p1.1 it hi) (itemLt_irrefl a)
        · exact h'
      · rcases List.mem_cons.mp ((h it).mpr (List.mem_cons_of_mem _ hi)) with e | h'
        · exact absurd (e ▸ p2.1 it hi) (itemLt_irrefl a)
        · exact h'
    rw [this]

/-- equal item SETS give equal item LISTS -/
theorem closureS_canonical {l₁ l₂ : List Item} (h : sameElems l₁ l₂ = true)
    (h1 : SortedI l₁) (h2 : SortedI l₂) : l₁ = l₂ :=
  sorted_ext h1 h2 (sameElems_ok h)

theorem closureS_eq {G : Grammar} {k cl : List Item} (h : closureS G k = some cl) :
    ∃ l, closureL G k = some l ∧ cl = sortI l := by
  unfold closureS at h
  cases hl : closureL G k with
  | none => rw [hl] at h; cases h
  | some l => rw [hl] at h; cases h; exact ⟨l, rfl, rfl⟩

theorem closureS_sorted {G : Grammar} {k cl : List Item} (h : closureS G k = some cl) :
    SortedI cl := by
  obtain ⟨l, _, rfl⟩ := closureS_eq h
  exact sorted_sortI l

theorem closureS_isClosureOf {G : Grammar} {k cl : List Item} (h : closureS G k = some cl) :
    isClosureOf G cl k = true := by
  obtain ⟨l, hl, rfl⟩ := closureS_eq h
  unfold isClosureOf
  rw [hl]
  exact sameElems_of (fun it => mem_sortI)

/-- the sorted closure has exactly the elements of the declarative LR(0) closure -/
theorem closureS_spec {G : Grammar} {k cl : List Item} (h : closureS G k = some cl) :
    ∀ it, it ∈ cl ↔ Cl0 G (fun x => x ∈ k) it :=
  isClosureOf_ok (closureS_isClosureOf h)

/-! ## symbols after a dot, kernels -/

theorem mem_dedupS {y : Sym} : ∀ {l : List Sym}, y ∈ dedupS l ↔ y ∈ l
  | [] => by simp [dedupS]
  | x :: xs => by
    unfold dedupS
    simp only [List.mem_cons, List.mem_filter, mem_dedupS (l := xs), bne_iff_ne, ne_eq]
    constructor
    · rintro (h | h)
      · exact Or.inl h
      · exact Or.inr h.1
    · intro h
      by_cases e : y = x
      · exact Or.inl e
      · rcases h with h | h
        · exact Or.inl h
        · exact Or.inr ⟨h, e⟩

theorem nodup_dedupS : ∀ (l : List Sym), (dedupS l).Nodup
  | [] => by simp [dedupS]
  | x :: xs => by
    unfold dedupS
    refine List.nodup_cons.mpr ⟨?_, ?_⟩
    · intro h
      have := (List.mem_filter.mp h).2
      simp at this
    · exact List.Pairwise.filter _ (nodup_dedupS xs)

theorem mem_symsOf {G : Grammar} {its : List Item} {X : Sym} :
    X ∈ symsOf G its ↔ ∃ it ∈ its, afterDot G it = some X := by
  unfold symsOf
  rw [mem_dedupS, List.mem_filterMap]

theorem nodup_symsOf (G : Grammar) (its : List Item) : (symsOf G its).Nodup := nodup_dedupS _

theorem kernels_fst (G : Grammar) (its : List Item) :
    (kernels G its).map Prod.fst = symsOf G its := by
  unfold kernels
  rw [List.map_map]
  exact List.map_id _

theorem mem_kernels {G : Grammar} {its k : List Item} {X : Sym} (h : (X, k) ∈ kernels G its) :
    k = advance G X its := by
  unfold kernels at h
  obtain ⟨Y, _, hY⟩ := List.mem_map.mp h
  cases hY
  rfl

/-! ## list indexing helpers -/

theorem getD_app_lt {α : Type} {l e : List α} {p : Nat} (d : α) (h : p < l.length) :
    (l ++ e).getD p d = l.getD p d := by
  simp [List.getD_eq_getElem?_getD, List.getElem?_append_left h]

theorem getD_app_len {α : Type} (l : List α) (x : α) (e : List α) (d : α) :
    (l ++ x :: e).getD l.length d = x := by
  simp [List.getD_eq_getElem?_getD]

theorem getD_mem {α : Type} {l : List α} {p : Nat} (d : α) (h : p < l.length) :
    l.getD p d ∈ l := by
  rw [List.getD_eq_getElem?_getD, List.getElem?_eq_getElem h]
  exact List.getElem_mem h

theorem findSt_some {cl : List Item} : ∀ {ss : List (List Item)} {j : Nat},
    findSt cl ss = some j → j < ss.length ∧ ss.getD j [] = cl
  | [], _, h => by cases h
  | s :: ss, j, h => by
    unfold findSt at h
    split at h
    · rename_i hs
      cases h
      exact ⟨Nat.zero_lt_succ _, hs⟩
    · cases hf : findSt cl ss with
      | none => rw [hf] at h; cases h
      | some j' =>
        rw [hf] at h
        cases h
        have := findSt_some hf
        exact ⟨Nat.succ_lt_succ this.1, this.2⟩

theorem findSt_none {cl : List Item} : ∀ {ss : List (List Item)}, findSt cl ss = none → cl ∉ ss
  | [], _ => by simp
  | s :: ss, h => by
    unfold findSt at h
    split at h
    · cases h
    · rename_i hs
      cases hf : findSt cl ss with
      | some j' => rw [hf] at h; cases h
      | none =>
        intro hm
        rcases List.mem_cons.mp hm with e | hm
        · exact hs e.symm
        · exact findSt_none hf hm

/-! ## one step of the worklist -/

/-- the state list is well-formed: every state is strictly sorted, no two states are equal -/
structure StOK (sts : List (List Item)) : Prop where
  sorted : ∀ q, q < sts.length → SortedI (sts.getD q [])
  distinct : ∀ p q, p < q → q < sts.length → sts.getD p [] ≠ sts.getD q []

theorem StOK.snoc {sts : List (List Item)} {cl : List Item} (h : StOK sts) (hs : SortedI cl)
    (hn : cl ∉ sts) : StOK (sts ++ [cl]) := by
  have hlen : (sts ++ [cl]).length = sts.length + 1 := by simp
  constructor
  · intro q hq
    rw [hlen] at hq
    rcases Nat.lt_succ_iff_lt_or_eq.mp hq with h' | h'
    · rw [getD_app_lt _ h']; exact h.sorted q h'
    · subst h'; rw [getD_app_len]; exact hs
  · intro p q hpq hq
    rw [hlen] at hq
    rcases Nat.lt_succ_iff_lt_or_eq.mp hq with h' | h'
    · rw [getD_app_lt _ h', getD_app_lt _ (Nat.lt_trans hpq h')]; exact h.distinct p q hpq h'
    · subst h'
      rw [getD_app_len, getD_app_lt _ hpq]
      intro e
      exact hn (e ▸ getD_mem [] hpq)

theorem stepK_spec {G : Grammar} : ∀ (ks : List (Sym × List Item)) (sts : List (List Item))
    (r : List (List Item) × List (Sym × Nat)), stepK G ks sts = some r → StOK sts →
    StOK r.1 ∧ (∃ ext, r.1 = sts ++ ext) ∧ r.2.map Prod.fst = ks.map Prod.fst ∧
    (∀ e ∈ r.2, e.2 < r.1.length ∧
      ∃ k, (e.1, k) ∈ ks ∧ closureS G k = some (r.1.getD e.2 [])) ∧
    (∀ p, sts.length ≤ p → p < r.1.length → ∃ e ∈ r.2, e.2 = p)
  | [], sts, r, h, ok => by
    unfold stepK at h
    cases h
    refine ⟨ok, ⟨[], by simp⟩, rfl, ?_, ?_⟩
    · intro e he; cases he
    · intro p h1 h2; exact absurd h2 (Nat.not_lt.mpr h1)
  | e :: ks, sts, r, h, ok => by
    unfold stepK at h
    split at h
    · cases h
    · rename_i cl hc
      split at h
      · -- an existing state
        rename_i j hf
        obtain ⟨hj, hjcl⟩ := findSt_some hf
        cases hr : stepK G ks sts with
        | none => rw [hr] at h; cases h
        | some r' =>
          rw [hr] at h
          cases h
          obtain ⟨ok', ⟨ext, he⟩, hm, hent, hnew⟩ := stepK_spec ks sts r' hr ok
          have hle : sts.length ≤ r'.1.length := by rw [he]; simp
          refine ⟨ok', ⟨ext, he⟩, ?_, ?_, ?_⟩
          · simp only [List.map_cons, hm]
          · intro e' he'
            rcases List.mem_cons.mp he' with rfl | he'
            · refine ⟨Nat.lt_of_lt_of_le hj hle, e.2, List.mem_cons_self .., ?_⟩
              show closureS G e.2 = some (r'.1.getD j [])
              rw [he, getD_app_lt _ hj, hjcl]
              exact hc
            · obtain ⟨h1, k, hk, h2⟩ := hent e' he'
              exact ⟨h1, k, List.mem_cons_of_mem _ hk, h2⟩
          · intro p h1 h2
            obtain ⟨e', he', hp⟩ := hnew p h1 h2
            exact ⟨e', List.mem_cons_of_mem _ he', hp⟩
      · -- a new state
        rename_i hf
        have ok2 : StOK (sts ++ [cl]) := ok.snoc (closureS_sorted hc) (findSt_none hf)
        cases hr : stepK G ks (sts ++ [cl]) with
        | none => rw [hr] at h; cases h
        | some r' =>
          rw [hr] at h
          cases h
          obtain ⟨ok', ⟨ext, he⟩, hm, hent, hnew⟩ := stepK_spec ks (sts ++ [cl]) r' hr ok2
          have he' : r'.1 = sts ++ cl :: ext := by rw [he]; simp
          have hlt : sts.length < r'.1.length := by
            rw [he']; simp only [List.length_append, List.length_cons]
            exact Nat.lt_add_of_pos_right (Nat.zero_lt_succ _)
          refine ⟨ok', ⟨cl :: ext, he'⟩, ?_, ?_, ?_⟩
          · simp only [List.map_cons, hm]
          · intro e'' he''
            rcases List.mem_cons.mp he'' with rfl | he''
            · refine ⟨hlt, e.2, List.mem_cons_self .., ?_⟩
              show closureS G e.2 = some (r'.1.getD sts.length [])
              rw [he', getD_app_len]
              exact hc
            · obtain ⟨h1, k, hk, h2⟩ := hent e'' he''
              exact ⟨h1, k, List.mem_cons_of_mem _ hk, h2⟩
          · intro p h1 h2
            rcases Nat.eq_or_lt_of_le h1 with e1 | h1'
            · exact ⟨(e.1, sts.length), List.mem_cons_self .., e1⟩
            · have : (sts ++ [cl]).length ≤ p := by simp; exact h1'
              obtain ⟨e', he', hp⟩ := hnew p this h2
              exact ⟨e', List.mem_cons_of_mem _ he', hp⟩

/-! ## the loop invariant -/

/-- invariant of the worklist: `gts.length` states are processed.
    (i) state 0 is the closure of the start item; (ii) all states are strictly sorted and pairwise
    distinct; (iii) a processed state has exactly one goto entry for every symbol after a dot (in
    order of first occurrence), pointing to the closure of the advanced items; (iv) every state
    other than 0 is the target of an entry of an earlier, processed state. -/
structure LInv (G : Grammar) (sts : List (List Item)) (gts : List (List (Sym × Nat))) : Prop where
  pos : 0 < sts.length
  le : gts.length ≤ sts.length
  s0 : isClosureOf G (sts.getD 0 []) [⟨0, 0⟩] = true
  ok : StOK sts
  syms : ∀ q, q < gts.length → (gts.getD q []).map Prod.fst = symsOf G (sts.getD q [])
  entry : ∀ q, q < gts.length → ∀ e ∈ gts.getD q [], e.2 < sts.length ∧
      isClosureOf G (sts.getD e.2 []) (advance G e.1 (sts.getD q [])) = true
  reach : ∀ p, 0 < p → p < sts.length →
      ∃ q, q < p ∧ q < gts.length ∧ ∃ e ∈ gts.getD q [], e.2 = p

theorem LInv.init {G : Grammar} {s0 : List Item} (h : closureS G [⟨0, 0⟩] = some s0) :
    LInv G [s0] [] := by
  refine ⟨Nat.zero_lt_succ _, Nat.zero_le _, closureS_isClosureOf h, ⟨?_, ?_⟩, ?_, ?_, ?_⟩
  · intro q hq
    have : q = 0 := Nat.lt_one_iff.mp hq
    subst this
    exact closureS_sorted h
  · intro p q hpq hq
    have : q = 0 := Nat.lt_one_iff.mp hq
    subst this
    exact absurd hpq (Nat.not_lt_zero _)
  · intro q hq; exact absurd hq (Nat.not_lt_zero _)
  · intro q hq; exact absurd hq (Nat.not_lt_zero _)
  · intro p hp hp1
    have : p = 0 := Nat.lt_one_iff.mp hp1
    subst this
    exact absurd hp (Nat.lt_irrefl _)

theorem LInv.step {G : Grammar} {sts : List (List Item)} {gts : List (List (Sym × Nat))}
    {r : List (List Item) × List (Sym × Nat)} (inv : LInv G sts gts) (hlt : gts.length < sts.length)
    (h : stepK G (kernels G (sts.getD gts.length [])) sts = some r) :
    LInv G r.1 (gts ++ [r.2]) := by
  obtain ⟨ok', ⟨ext, he⟩, hm, hent, hnew⟩ := stepK_spec _ sts r h inv.ok
  have hle : sts.length ≤ r.1.length := by rw [he]; simp
  have hst : ∀ p, p < sts.length → r.1.getD p [] = sts.getD p [] := by
    intro p hp; rw [he]; exact getD_app_lt _ hp
  have hglen : (gts ++ [r.2]).length = gts.length + 1 := by simp
  have hgo : ∀ q, q < gts.length → (gts ++ [r.2]).getD q [] = gts.getD q [] :=
    fun q hq => getD_app_lt _ hq
  have hgn : (gts ++ [r.2]).getD gts.length [] = r.2 := getD_app_len _ _ _ _
  refine ⟨Nat.lt_of_lt_of_le inv.pos hle, ?_, ?_, ok', ?_, ?_, ?_⟩
  · rw [hglen]; exact Nat.le_trans hlt hle
  · rw [hst 0 inv.pos]; exact inv.s0
  · intro q hq
    rw [hglen] at hq
    rcases Nat.lt_succ_iff_lt_or_eq.mp hq with h' | h'
    · rw [hgo q h', hst q (Nat.lt_of_lt_of_le h' inv.le)]; exact inv.syms q h'
    · subst h'
      rw [hgn, hst _ hlt, hm, kernels_fst]
  · intro q hq e hmem
    rw [hglen] at hq
    rcases Nat.lt_succ_iff_lt_or_eq.mp hq with h' | h'
    · rw [hgo q h'] at hmem
      obtain ⟨h1, h2⟩ := inv.entry q h' e hmem
      rw [hst q (Nat.lt_of_lt_of_le h' inv.le), hst e.2 h1]
      exact ⟨Nat.lt_of_lt_of_le h1 hle, h2⟩
    · subst h'
      rw [hgn] at hmem
      obtain ⟨h1, k, hk, h2⟩ := hent e hmem
      rw [hst _ hlt]
      refine ⟨h1, ?_⟩
      have := mem_kernels hk
      subst this
      exact closureS_isClosureOf h2
  · intro p hp0 hp
    rcases Nat.lt_or_ge p sts.length with h' | h'
    · obtain ⟨q, hqp, hq, e, hmem, hep⟩ := inv.reach p hp0 h'
      refine ⟨q, hqp, ?_, e, ?_, hep⟩
      · rw [hglen]; exact Nat.lt_succ_of_lt hq
      · rw [hgo q hq]; exact hmem
    · obtain ⟨e, hmem, hep⟩ := hnew p h' hp
      refine ⟨gts.length, Nat.lt_of_lt_of_le hlt h', ?_, e, ?_, hep⟩
      · rw [hglen]; exact Nat.lt_succ_self _
      · rw [hgn]; exact hmem

theorem loopL_inv {G : Grammar} : ∀ (fuel : Nat) (sts : List (List Item))
    (gts : List (List (Sym × Nat))) (A : Auto), LInv G sts gts → loopL G fuel sts gts = some A →
    LInv G A.items A.gotos ∧ A.items.length ≤ A.gotos.length
  | 0, _, _, _, _, h => by unfold loopL at h; cases h
  | fuel + 1, sts, gts, A, inv, h => by
    unfold loopL at h
    split at h
    · rename_i hdone
      cases h
      exact ⟨inv, hdone⟩
    · rename_i hnd
      split at h
      · cases h
      · rename_i r hr
        split at h
        · cases h
        · exact loopL_inv fuel r.1 (gts ++ [r.2]) A (inv.step (Nat.lt_of_not_le hnd) hr) h

theorem buildL_inv {G : Grammar} {A : Auto} (h : buildL G = some A) :
    LInv G A.items A.gotos ∧ A.items.length ≤ A.gotos.length := by
  unfold buildL at h
  split at h
  · cases h
  · rename_i s0 hs0
    exact loopL_inv _ _ _ A (LInv.init hs0) h

/-! ## from the invariant to the certificate -/

theorem range_all {n : Nat} {p : Nat → Bool} (h : ∀ i, i < n → p i = true) :
    (List.range n).all p = true :=
  List.all_eq_true.mpr (fun i hi => h i (List.mem_range.mp hi))

theorem nodupB_of_nodup {α : Type} [BEq α] [LawfulBEq α] : ∀ {l : List α}, l.Nodup → nodupB l = true
  | [], _ => rfl
  | x :: xs, h => by
    have h := List.nodup_cons.mp h
    unfold nodupB
    simp only [Bool.and_eq_true, Bool.not_eq_true', List.contains_eq_mem, decide_eq_false_iff_not]
    exact ⟨h.1, nodupB_of_nodup h.2⟩

theorem certCanon_of_inv {G : Grammar} {A : Auto} (inv : LInv G A.items A.gotos)
    (hd : A.items.length ≤ A.gotos.length) : certCanon G A = true := by
  have hlen : A.gotos.length = A.items.length := Nat.le_antisymm inv.le hd
  unfold certCanon
  simp only [Bool.and_eq_true, Auto.n, Auto.its, Auto.gts]
  refine ⟨⟨⟨⟨⟨⟨⟨⟨?_, ?_⟩, ?_⟩, ?_⟩, ?_⟩, ?_⟩, ?_⟩, ?_⟩, ?_⟩
  · exact decide_eq_true inv.pos
  · exact decide_eq_true hlen
  · exact inv.s0
  · refine range_all (fun q hq => List.all_eq_true.mpr (fun it hit => ?_))
    split
    · rfl
    · rename_i X hX
      have hm : X ∈ (A.gotos.getD q []).map Prod.fst := by
        rw [inv.syms q (hlen ▸ hq)]
        exact mem_symsOf.mpr ⟨it, hit, hX⟩
      obtain ⟨e, he, hex⟩ := List.mem_map.mp hm
      exact List.any_eq_true.mpr ⟨e, he, by simpa using hex⟩
  · refine range_all (fun q hq => List.all_eq_true.mpr (fun e he => ?_))
    have hq' : q < A.gotos.length := hlen ▸ hq
    obtain ⟨h1, h2⟩ := inv.entry q hq' e he
    have hm : e.1 ∈ symsOf G (A.items.getD q []) := by
      rw [← inv.syms q hq']
      exact List.mem_map.mpr ⟨e, he, rfl⟩
    obtain ⟨it, hit, hx⟩ := mem_symsOf.mp hm
    simp only [Bool.and_eq_true]
    exact ⟨⟨List.any_eq_true.mpr ⟨it, hit, by simpa using hx⟩, decide_eq_true h1⟩, h2⟩
  · refine range_all (fun q hq => nodupB_of_nodup ?_)
    rw [inv.syms q (hlen ▸ hq)]
    exact nodup_symsOf _ _
  · refine range_all (fun q hq => range_all (fun p hp => ?_))
    cases hse : sameElems (A.items.getD q []) (A.items.getD p []) with
    | false => rfl
    | true =>
      exact absurd (closureS_canonical hse (inv.ok.sorted q hq)
        (inv.ok.sorted p (Nat.lt_trans hp hq))).symm (inv.ok.distinct p q hp hq)
  · refine range_all (fun p hp => ?_)
    rcases Nat.eq_zero_or_pos p with h0 | h0
    · subst h0; rfl
    · obtain ⟨q, hqp, _, e, he, hep⟩ := inv.reach p h0 hp
      simp only [Bool.or_eq_true]
      refine Or.inr (List.any_eq_true.mpr ⟨q, List.mem_range.mpr hqp, ?_⟩)
      exact List.any_eq_true.mpr ⟨e, he, by simpa using hep⟩
  · exact range_all (fun q hq => nodupB_of_nodup (inv.ok.sorted q hq).nodup)

/-! ## the fuel is never the reason for `none` -/

theorem stepK_len {G : Grammar} : ∀ (ks : List (Sym × List Item)) (sts : List (List Item))
    (r : List (List Item) × List (Sym × Nat)), stepK G ks sts = some r → sts.length ≤ r.1.length
  | [], sts, r, h => by unfold stepK at h; cases h; exact Nat.le_refl _
  | e :: ks, sts, r, h => by
    unfold stepK at h
    split at h
    · cases h
    · rename_i cl _
      split at h
      · cases hr : stepK G ks sts with
        | none => rw [hr] at h; cases h
        | some r' => rw [hr] at h; cases h; exact stepK_len ks sts r' hr
      · cases hr : stepK G ks (sts ++ [cl]) with
        | none => rw [hr] at h; cases h
        | some r' =>
          rw [hr] at h; cases h
          have := stepK_len ks (sts ++ [cl]) r' hr
          rw [List.length_append] at this
          exact Nat.le_trans (Nat.le_add_right _ _) this

/-- once the fuel covers the distance to the cap, more fuel changes nothing -/
theorem loopL_fuel_succ {G : Grammar} : ∀ (fuel : Nat) (sts : List (List Item))
    (gts : List (List (Sym × Nat))), gts.length ≤ sts.length → sts.length < stateCap →
    stateCap ≤ fuel + gts.length → loopL G (fuel + 1) sts gts = loopL G fuel sts gts
  | 0, sts, gts, h1, h2, h3 => by
    rw [Nat.zero_add] at h3
    exact absurd (Nat.lt_of_lt_of_le (Nat.lt_of_le_of_lt h1 h2) h3) (Nat.lt_irrefl _)
  | fuel + 1, sts, gts, h1, h2, h3 => by
    rw [loopL.eq_def G (fuel + 1 + 1), loopL.eq_def G (fuel + 1)]
    simp only
    split
    · rfl
    · rename_i hnd
      split
      · rfl
      · rename_i r hr
        split
        · rfl
        · rename_i hcap
          refine loopL_fuel_succ fuel r.1 (gts ++ [r.2]) ?_ (Nat.lt_of_not_le hcap) ?_
          · rw [List.length_append]
            exact Nat.le_trans (Nat.lt_of_not_le hnd) (stepK_len _ _ _ hr)
          · rw [List.length_append, List.length_singleton, ← Nat.add_assoc, Nat.add_right_comm]
            exact h3

/-- `buildL` with any larger fuel gives the same result: `none` is only ever caused by a failed
    closure computation or by the 2000-state cap -/
theorem buildL_fuel (G : Grammar) (s0 : List Item) (n : Nat) :
    loopL G (stateCap + 1 + n) [s0] [] = loopL G (stateCap + 1) [s0] [] := by
  induction n with
  | zero => rfl
  | succ n ih =>
    have h2 : ([s0] : List (List Item)).length < stateCap := show 1 < 2000 by decide
    have h3 : stateCap ≤ stateCap + 1 + n + ([] : List (List (Sym × Nat))).length := by
      show stateCap ≤ stateCap + 1 + n + 0
      rw [Nat.add_zero, Nat.add_assoc]
      exact Nat.le_add_right _ _
    have key := loopL_fuel_succ (G := G) (stateCap + 1 + n) [s0] [] (Nat.zero_le _) h2 h3
    rw [← Nat.add_assoc, key]
    exact ih

end Y
