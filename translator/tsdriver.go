package main

import (
	"fmt"
	"go/ast"
	"go/parser"
	"go/token"
	"strconv"
	"strings"
)

// genTsDriver dumps the text of the LR driver of the TypeScript back end as values of the
// hand-written Lean syntax tree `Gen.Ts.Stmt` / `Gen.Ts.Expr` (Yv/Model/TsAst.lean):
//
//   - the raw string assigned to `b.StateFunc` in `buildStateFunc` (PushStateSym, PopStateSym,
//     initialize, Parser, fetchLookAhead),
//   - the raw string `str` of `buildReduceFunc` (the frame of ReduceFunc; its `%s` hole becomes the
//     one statement `.switchHole`),
//   - the string appended to the formatted frame (`initialize();`, run when the module is loaded).
//
// The three strings are located structurally in the Go syntax tree of Builder/TsGenCode.go (by
// function name and assignment target).  The TypeScript text is read by the tokenizer and the
// recursive-descent parser below, which know exactly the subset the text uses.  Nothing is
// interpreted here: the meaning is given in Lean (Yv/Model/TsSem.lean) and the agreement with the
// hand model is proved in Yv/Props/C08c.lean.  Every token, every construct and every identifier
// outside the listed subset panics (fails closed).

var tsIds = map[string]bool{}

func init() {
	for _, n := range strings.Fields(`StateSymStack StackPointer
		state num input currentPos val model lookAhead action sym SymTy gotoState
		token reduceIndex dollarDolar topIndex
		StateSym ValType number string Yystate YySymIndex pos
		ERROR_ACTION ACCEPT_ACTION
		PushStateSym PopStateSym initialize Parser fetchLookAhead ReduceFunc Action GetToken translate
		push length console error`) {
		tsIds[n] = true
	}
}

func tsId(n string) string {
	if !tsIds[n] {
		panic("identifier outside the TypeScript driver vocabulary: " + n)
	}
	return "." + n
}

// ---------------------------------------------------------------------------------------------
// locating the text in the Go source

func isSel(e ast.Expr, recv, field string) bool {
	s, ok := e.(*ast.SelectorExpr)
	if !ok || s.Sel.Name != field {
		return false
	}
	id, ok := s.X.(*ast.Ident)
	return ok && id.Name == recv
}

func rawString(e ast.Expr, what string) string {
	bl, ok := e.(*ast.BasicLit)
	if !ok || bl.Kind != token.STRING || !strings.HasPrefix(bl.Value, "`") {
		panic(what + " is not a raw string literal")
	}
	return bl.Value[1 : len(bl.Value)-1]
}

func tsMethod(f *ast.File, name string) (*ast.FuncDecl, string) {
	var found *ast.FuncDecl
	for _, d := range f.Decls {
		fd, ok := d.(*ast.FuncDecl)
		if !ok || fd.Name.Name != name {
			continue
		}
		if found != nil {
			panic("more than one " + name)
		}
		found = fd
	}
	if found == nil {
		panic("no function " + name)
	}
	if found.Recv == nil || len(found.Recv.List) != 1 || len(found.Recv.List[0].Names) != 1 {
		panic(name + " is not a method with a named receiver")
	}
	st, ok := found.Recv.List[0].Type.(*ast.StarExpr)
	if !ok {
		panic(name + ": receiver is not a pointer")
	}
	if id, ok := st.X.(*ast.Ident); !ok || id.Name != "TsBuilder" {
		panic(name + ": receiver is not *TsBuilder")
	}
	if found.Type.Params != nil && len(found.Type.Params.List) != 0 {
		panic(name + " has parameters")
	}
	return found, found.Recv.List[0].Names[0].Name
}

// every use of the field `field` in the file must be the one assignment we read, the sole argument of a `WriteString`
// call, or an element of a slice literal (the ordered list of sections a loop writes out): never an operand of another
// call or expression that could change the text on its way into the file
func checkFieldUses(f *ast.File, field string, theAssign *ast.AssignStmt) {
	allowed := map[*ast.SelectorExpr]bool{}
	allowed[theAssign.Lhs[0].(*ast.SelectorExpr)] = true
	writes := 0
	ast.Inspect(f, func(n ast.Node) bool {
		switch c := n.(type) {
		case *ast.CallExpr:
			if len(c.Args) == 1 {
				if fs, ok := c.Fun.(*ast.SelectorExpr); ok && fs.Sel.Name == "WriteString" {
					if a, ok := c.Args[0].(*ast.SelectorExpr); ok && a.Sel.Name == field {
						allowed[a] = true
						writes++
					}
				}
			}
		case *ast.CompositeLit:
			if _, isArr := c.Type.(*ast.ArrayType); isArr {
				for _, e := range c.Elts {
					if a, ok := e.(*ast.SelectorExpr); ok && a.Sel.Name == field {
						allowed[a] = true
						writes++
					}
				}
			}
		}
		return true
	})
	if writes != 1 {
		panic(fmt.Sprintf("field %s is written to the output %d times, expected once", field, writes))
	}
	ast.Inspect(f, func(n ast.Node) bool {
		if s, ok := n.(*ast.SelectorExpr); ok && s.Sel.Name == field && !allowed[s] {
			panic("field " + field + " is used outside its one assignment and its one place in the output")
		}
		return true
	})
}

func tsExtract(repo string) (stateFunc, reduceFrame, tail string) {
	fset := token.NewFileSet()
	f, err := parser.ParseFile(fset, repo+"/Builder/TsGenCode.go", nil, 0)
	if err != nil {
		panic(err)
	}
	// buildStateFunc: the body is the one assignment `b.StateFunc = `...``
	fd, recv := tsMethod(f, "buildStateFunc")
	if len(fd.Body.List) != 1 {
		panic("buildStateFunc: expected exactly one statement")
	}
	as, ok := fd.Body.List[0].(*ast.AssignStmt)
	if !ok || as.Tok != token.ASSIGN || len(as.Lhs) != 1 || len(as.Rhs) != 1 || !isSel(as.Lhs[0], recv, "StateFunc") {
		panic("buildStateFunc: expected `" + recv + ".StateFunc = ...`")
	}
	stateFunc = rawString(as.Rhs[0], "buildStateFunc: the right-hand side")
	checkFieldUses(f, "StateFunc", as)

	// buildReduceFunc: `str := `...`` first, never assigned again, and exactly one
	// `b.ReduceFunc = fmt.Sprintf(str, x) + "..."`
	fd, recv = tsMethod(f, "buildReduceFunc")
	if len(fd.Body.List) == 0 {
		panic("buildReduceFunc: empty body")
	}
	first, ok := fd.Body.List[0].(*ast.AssignStmt)
	if !ok || first.Tok != token.DEFINE || len(first.Lhs) != 1 || len(first.Rhs) != 1 {
		panic("buildReduceFunc: expected `str := ...` first")
	}
	if id, ok := first.Lhs[0].(*ast.Ident); !ok || id.Name != "str" {
		panic("buildReduceFunc: expected `str := ...` first")
	}
	reduceFrame = rawString(first.Rhs[0], "buildReduceFunc: str")
	var theAssign *ast.AssignStmt
	ast.Inspect(fd.Body, func(n ast.Node) bool {
		switch x := n.(type) {
		case *ast.AssignStmt:
			for _, l := range x.Lhs {
				if id, ok := l.(*ast.Ident); ok && id.Name == "str" && x != first {
					panic("buildReduceFunc: str is assigned more than once")
				}
				if isSel(l, recv, "ReduceFunc") {
					if theAssign != nil {
						panic("buildReduceFunc: more than one assignment to ReduceFunc")
					}
					theAssign = x
				}
			}
		case *ast.UnaryExpr:
			if id, ok := x.X.(*ast.Ident); ok && x.Op == token.AND && id.Name == "str" {
				panic("buildReduceFunc: address of str taken")
			}
		}
		return true
	})
	if theAssign == nil || theAssign.Tok != token.ASSIGN || len(theAssign.Lhs) != 1 || len(theAssign.Rhs) != 1 {
		panic("buildReduceFunc: expected one `" + recv + ".ReduceFunc = ...`")
	}
	if theAssign != fd.Body.List[len(fd.Body.List)-1] {
		panic("buildReduceFunc: the assignment to ReduceFunc is not the last statement")
	}
	sum, ok := theAssign.Rhs[0].(*ast.BinaryExpr)
	if !ok || sum.Op != token.ADD {
		panic("buildReduceFunc: expected fmt.Sprintf(str, …) + \"…\"")
	}
	call, ok := sum.X.(*ast.CallExpr)
	if !ok || len(call.Args) != 2 || !isSel(call.Fun, "fmt", "Sprintf") {
		panic("buildReduceFunc: expected fmt.Sprintf(str, …) + \"…\"")
	}
	if id, ok := call.Args[0].(*ast.Ident); !ok || id.Name != "str" {
		panic("buildReduceFunc: the format is not str")
	}
	// the hole is filled with the per-rule case text: a variable, or `x.String()` of a strings.Builder
	arg := call.Args[1]
	if ce, ok := arg.(*ast.CallExpr); ok && len(ce.Args) == 0 {
		if se, ok := ce.Fun.(*ast.SelectorExpr); ok && se.Sel.Name == "String" {
			arg = se.X
		}
	}
	if _, ok := arg.(*ast.Ident); !ok {
		panic("buildReduceFunc: the argument of the format is not a variable")
	}
	tl, ok := sum.Y.(*ast.BasicLit)
	if !ok || tl.Kind != token.STRING {
		panic("buildReduceFunc: the appended text is not a string literal")
	}
	tail, err = strconv.Unquote(tl.Value)
	if err != nil {
		panic(err)
	}
	checkFieldUses(f, "ReduceFunc", theAssign)
	return
}

// ---------------------------------------------------------------------------------------------
// tokens

type tsTok struct {
	kind string // "id", "kw", "int", "str", "p" (punctuator), "hole", "eof"
	text string
	nl   bool // a line break precedes the token
	pos  int
}

var tsKeywords = map[string]bool{"function": true, "var": true, "let": true, "const": true, "while": true,
	"if": true, "else": true, "break": true, "return": true, "new": true, "null": true, "true": true, "switch": true}

// every punctuator of ECMAScript, longest first, so that the split is the one a JavaScript
// lexer makes; only those in tsAllowed are then accepted
var jsPunct = []string{">>>=", "...", "===", "!==", "**=", "<<=", ">>=", ">>>", "&&=", "||=", "??=",
	"=>", "==", "!=", "<=", ">=", "&&", "||", "??", "?.", "++", "--", "+=", "-=", "*=", "/=", "%=", "&=", "|=", "^=",
	"<<", ">>", "**",
	"{", "}", "(", ")", "[", "]", ".", ";", ",", "<", ">", "+", "-", "*", "/", "%", "&", "|", "^", "!", "~", "?", ":", "=", "@", "#"}

var tsAllowed = map[string]bool{"{": true, "}": true, "(": true, ")": true, "[": true, "]": true, ".": true, ";": true,
	",": true, ":": true, "=": true, "==": true, "!=": true, "<": true, "<=": true, ">": true, ">=": true,
	"+": true, "-": true, "++": true, "-=": true}

func isIdStart(c byte) bool {
	return c == '_' || c == '$' || (c >= 'a' && c <= 'z') || (c >= 'A' && c <= 'Z')
}
func isDigit(c byte) bool { return c >= '0' && c <= '9' }

func tsLex(src string, allowHole bool) []tsTok {
	var out []tsTok
	i, nl := 0, false
	for i < len(src) {
		c := src[i]
		switch {
		case c == '\n' || c == '\r':
			nl = true
			i++
		case c == ' ' || c == '\t':
			i++
		case c == '/' && i+1 < len(src) && src[i+1] == '/':
			for i < len(src) && src[i] != '\n' {
				if src[i] >= 0x80 {
					panic(fmt.Sprintf("non-ASCII byte in a comment at offset %d", i))
				}
				i++
			}
		case isIdStart(c):
			j := i
			for j < len(src) && (isIdStart(src[j]) || isDigit(src[j])) {
				j++
			}
			w := src[i:j]
			k := "id"
			if tsKeywords[w] {
				k = "kw"
			}
			out = append(out, tsTok{k, w, nl, i})
			i, nl = j, false
		case isDigit(c):
			j := i
			for j < len(src) && isDigit(src[j]) {
				j++
			}
			if j < len(src) && (isIdStart(src[j]) || src[j] == '.') {
				panic(fmt.Sprintf("unsupported numeric literal at offset %d", i))
			}
			if j-i > 1 && c == '0' {
				panic(fmt.Sprintf("numeric literal with a leading zero at offset %d", i))
			}
			if j-i > 15 {
				panic(fmt.Sprintf("numeric literal too long to be an exact double at offset %d", i))
			}
			out = append(out, tsTok{"int", src[i:j], nl, i})
			i, nl = j, false
		case c == '"':
			j := i + 1
			for j < len(src) && src[j] != '"' {
				if src[j] == '\\' || src[j] < 0x20 || src[j] >= 0x7f {
					panic(fmt.Sprintf("unsupported character in a string literal at offset %d", j))
				}
				j++
			}
			if j >= len(src) {
				panic("unterminated string literal")
			}
			out = append(out, tsTok{"str", src[i+1 : j], nl, i})
			i, nl = j+1, false
		case allowHole && c == '%' && i+1 < len(src) && src[i+1] == 's':
			out = append(out, tsTok{"hole", "%s", nl, i})
			i, nl = i+2, false
		default:
			matched := ""
			for _, p := range jsPunct {
				if strings.HasPrefix(src[i:], p) {
					matched = p
					break
				}
			}
			if matched == "" {
				panic(fmt.Sprintf("unsupported character %q at offset %d", c, i))
			}
			if !tsAllowed[matched] {
				panic(fmt.Sprintf("unsupported token %q at offset %d", matched, i))
			}
			out = append(out, tsTok{"p", matched, nl, i})
			i, nl = i+len(matched), false
		}
	}
	out = append(out, tsTok{"eof", "", true, len(src)})
	return out
}

// ---------------------------------------------------------------------------------------------
// syntax

type tsParser struct {
	toks  []tsTok
	p     int
	depth int // block nesting inside the current function body (0 = the body itself)
}

func (q *tsParser) peek() tsTok { return q.toks[q.p] }
func (q *tsParser) next() tsTok { t := q.toks[q.p]; q.p++; return t }
func (q *tsParser) is(kind, text string) bool {
	t := q.peek()
	return t.kind == kind && t.text == text
}
func (q *tsParser) fail(msg string) {
	t := q.peek()
	panic(fmt.Sprintf("%s at offset %d (found %s %q)", msg, t.pos, t.kind, t.text))
}
func (q *tsParser) expect(kind, text string) tsTok {
	if !q.is(kind, text) {
		q.fail("expected " + text)
	}
	return q.next()
}
func (q *tsParser) ident() string {
	if q.peek().kind != "id" {
		q.fail("expected an identifier")
	}
	return q.next().text
}

// the end of a statement: `;`, or nothing when `}` / a line break / the end of the text follows
func (q *tsParser) endStmt() {
	if q.is("p", ";") {
		q.next()
		return
	}
	t := q.peek()
	if t.kind == "eof" || t.nl || (t.kind == "p" && t.text == "}") {
		return
	}
	q.fail("expected the end of the statement")
}

type tsFn struct {
	name string
	lean string
}

func (q *tsParser) typ() string {
	if q.is("p", "{") {
		q.next()
		var ks, ts []string
		for {
			ks = append(ks, tsId(q.ident()))
			q.expect("p", ":")
			ts = append(ts, tsId(q.ident()))
			if q.is("p", ",") {
				q.next()
				continue
			}
			break
		}
		q.expect("p", "}")
		return "(.obj [" + strings.Join(ks, ", ") + "] [" + strings.Join(ts, ", ") + "])"
	}
	return "(.name " + tsId(q.ident()) + ")"
}

// the local names of the TypeScript functions in order of declaration (parameters, then `var`/`let`/`const`); a consistent
// renaming of locals in the emitted text is undone by tsCanonLocals
var tsLocals = map[string][]string{
	"PushStateSym": {"state"}, "PopStateSym": {"num"}, "initialize": {},
	"Parser":         {"input", "currentPos", "val", "model", "lookAhead", "state", "action", "sym", "SymTy", "gotoState"},
	"fetchLookAhead": {"input", "model", "token"},
	"ReduceFunc":     {"reduceIndex", "dollarDolar", "topIndex"},
}

// tsCanonLocals renames, in the tokens of the function that starts at q.p (at `function`), the locally declared names to
// the canonical ones by order of declaration — only if their number matches and the renaming is one-to-one and captures
// no other name of the text; member names (`x.f`) and object-literal keys are left alone.
func (q *tsParser) tsCanonLocals(name string) {
	canon, ok := tsLocals[name]
	if !ok {
		return
	}
	// the extent of the function: up to the brace that closes its body
	i, par, seen := q.p, 0, false
	for i < len(q.toks) { // the brace that opens the body: the first `{` outside the parameter parentheses, after them
		if q.toks[i].kind == "p" && q.toks[i].text == "(" {
			par++
			seen = true
		} else if q.toks[i].kind == "p" && q.toks[i].text == ")" {
			par--
		} else if q.toks[i].kind == "p" && q.toks[i].text == "{" && par == 0 && seen {
			break
		}
		i++
	}
	depth, end := 0, i
	for ; end < len(q.toks); end++ {
		if q.toks[end].kind == "p" && q.toks[end].text == "{" {
			depth++
		}
		if q.toks[end].kind == "p" && q.toks[end].text == "}" {
			depth--
			if depth == 0 {
				break
			}
		}
	}
	var decls []int
	nest := 0
	for k := q.p; k < i; k++ { // parameters: identifiers followed by `:` directly inside the parameter parentheses (not inside a type literal)
		if q.toks[k].kind == "p" && (q.toks[k].text == "(" || q.toks[k].text == "{" || q.toks[k].text == "[") {
			nest++
		}
		if q.toks[k].kind == "p" && (q.toks[k].text == ")" || q.toks[k].text == "}" || q.toks[k].text == "]") {
			nest--
		}
		if nest == 1 && q.toks[k].kind == "id" && k > q.p+1 && k+1 < i && q.toks[k+1].kind == "p" && q.toks[k+1].text == ":" &&
			(q.toks[k-1].text == "(" || q.toks[k-1].text == ",") {
			decls = append(decls, k)
		}
	}
	for k := i; k < end; k++ {
		if q.toks[k].kind == "kw" && (q.toks[k].text == "var" || q.toks[k].text == "let" || q.toks[k].text == "const") && q.toks[k+1].kind == "id" {
			decls = append(decls, k+1)
		}
	}
	if len(decls) != len(canon) {
		return
	}
	fwd, back := map[string]string{}, map[string]string{}
	same := true
	for n, k := range decls {
		a := q.toks[k].text
		if c, ok := fwd[a]; ok && c != canon[n] {
			return
		}
		if b, ok := back[canon[n]]; ok && b != a {
			return
		}
		fwd[a], back[canon[n]] = canon[n], a
		if a != canon[n] {
			same = false
		}
	}
	if same {
		return
	}
	isName := func(k int) bool { // an identifier in a position where it names a variable (not `x.f`, not a key `{k : v}`)
		if q.toks[k].kind != "id" {
			return false
		}
		if k > 0 && q.toks[k-1].kind == "p" && q.toks[k-1].text == "." {
			return false
		}
		isDecl := false
		for _, d := range decls {
			if d == k {
				isDecl = true
			}
		}
		if !isDecl && k+1 < len(q.toks) && q.toks[k+1].kind == "p" && q.toks[k+1].text == ":" {
			return false
		}
		return true
	}
	for k := q.p; k <= end && k < len(q.toks); k++ {
		if isName(k) {
			if _, isLocal := fwd[q.toks[k].text]; !isLocal {
				if _, clash := back[q.toks[k].text]; clash {
					return // a canonical name is also a non-local name of the text: it would be captured
				}
			}
		}
	}
	for k := q.p; k <= end && k < len(q.toks); k++ {
		if isName(k) {
			if c, ok := fwd[q.toks[k].text]; ok {
				q.toks[k].text = c
			}
		}
	}
}

func (q *tsParser) function() tsFn {
	if q.is("kw", "function") && q.p+1 < len(q.toks) {
		q.tsCanonLocals(q.toks[q.p+1].text)
	}
	q.expect("kw", "function")
	name := q.ident()
	tsId(name)
	q.expect("p", "(")
	var ps []string
	if !q.is("p", ")") {
		for {
			x := tsId(q.ident())
			q.expect("p", ":")
			ps = append(ps, "("+x+", "+q.typ()+")")
			if q.is("p", ",") {
				q.next()
				continue
			}
			break
		}
	}
	q.expect("p", ")")
	ret := "none"
	if q.is("p", ":") {
		q.next()
		ret = "(some " + q.typ() + ")"
	}
	q.depth = 0
	body := q.block("      ")
	return tsFn{name, fmt.Sprintf("  { params := [%s],\n    ret := %s,\n    body :=\n%s }", strings.Join(ps, ", "), ret, body)}
}

func tsList(items []string, ind string) string {
	if len(items) == 0 {
		return ind + "[]"
	}
	return ind + "[\n" + strings.Join(items, ",\n") + " ]"
}

func (q *tsParser) block(ind string) string {
	q.expect("p", "{")
	var out []string
	for !q.is("p", "}") {
		if q.peek().kind == "eof" {
			q.fail("unterminated block")
		}
		out = append(out, q.stmt(ind+"  "))
	}
	q.next()
	return tsList(out, ind)
}

func (q *tsParser) nested(ind string) string {
	q.depth++
	b := q.block(ind)
	q.depth--
	return b
}

func (q *tsParser) ifStmt(ind string) string {
	q.expect("kw", "if")
	q.expect("p", "(")
	c := q.expr()
	q.expect("p", ")")
	thn := q.nested(ind + "  ")
	els := ind + "  []"
	if q.is("kw", "else") {
		q.next()
		if q.is("kw", "if") {
			els = tsList([]string{q.ifStmt(ind + "    ")}, ind+"  ")
		} else {
			els = q.nested(ind + "  ")
		}
	}
	return ind + ".ite " + c + "\n" + thn + "\n" + els
}

func (q *tsParser) stmt(ind string) string {
	t := q.peek()
	if t.kind == "kw" {
		switch t.text {
		case "var", "let", "const":
			q.next()
			if t.text == "var" && q.depth != 0 {
				panic("`var` inside a nested block (function scope is not modelled)")
			}
			kind := map[string]string{"var": ".kVar", "let": ".kLet", "const": ".kConst"}[t.text]
			x := tsId(q.ident())
			ty, ini := "none", "none"
			if q.is("p", ":") {
				q.next()
				ty = "(some " + q.typ() + ")"
			}
			if q.is("p", "=") {
				q.next()
				ini = "(some " + q.expr() + ")"
			} else if t.text == "const" {
				panic("const without initialiser")
			}
			q.endStmt()
			return ind + ".decl " + kind + " " + x + " " + ty + " " + ini
		case "while":
			q.next()
			q.expect("p", "(")
			q.expect("kw", "true")
			q.expect("p", ")")
			return ind + ".loop\n" + q.nested(ind+"  ")
		case "if":
			return q.ifStmt(ind)
		case "break":
			q.next()
			q.endStmt()
			return ind + ".brk"
		case "return":
			q.next()
			n := q.peek()
			if n.nl || n.kind == "eof" || (n.kind == "p" && (n.text == ";" || n.text == "}")) {
				q.fail("`return` without a value")
			}
			e := q.expr()
			q.endStmt()
			return ind + ".ret " + e
		case "switch":
			q.next()
			q.expect("p", "(")
			e := q.expr()
			q.expect("p", ")")
			q.expect("p", "{")
			if q.peek().kind != "hole" {
				q.fail("only `switch (e) { %s }` is supported")
			}
			q.next()
			q.expect("p", "}")
			return ind + ".switchHole " + e
		case "new", "null":
			// falls through to the expression statement, which rejects it
		default:
			q.fail("unsupported statement")
		}
	}
	if t.kind == "p" && t.text == "{" {
		q.fail("a statement may not start with `{`")
	}
	lhs, isCall := q.postfix()
	switch {
	case q.is("p", "="):
		tsTarget(lhs, isCall)
		q.next()
		e := q.expr()
		q.endStmt()
		return ind + ".assign " + lhs + " " + e
	case q.is("p", "-="):
		tsTarget(lhs, isCall)
		q.next()
		e := q.expr()
		q.endStmt()
		return ind + ".subAssign " + lhs + " " + e
	case q.is("p", "++"):
		tsTarget(lhs, isCall)
		if q.peek().nl {
			q.fail("line break before `++`")
		}
		q.next()
		q.endStmt()
		return ind + ".inc " + lhs
	}
	if !isCall {
		q.fail("expression statement that is not a call")
	}
	q.endStmt()
	return ind + ".expr " + lhs
}

func tsTarget(lhs string, isCall bool) {
	if isCall || !(strings.HasPrefix(lhs, "(.id ") || strings.HasPrefix(lhs, "(.sel ") || strings.HasPrefix(lhs, "(.index ")) {
		panic("unsupported assignment target " + lhs)
	}
}

// precedence, lowest first: == !=  |  < <= > >=  |  + -  |  unary -  |  postfix
var tsBin = []map[string]string{{"==": "eq", "!=": "ne"}, {"<": "lt", "<=": "le", ">": "gt", ">=": "ge"}, {"+": "add", "-": "sub"}}

func (q *tsParser) expr() string { return q.binary(0) }

func (q *tsParser) binary(level int) string {
	if level == len(tsBin) {
		return q.unary()
	}
	l := q.binary(level + 1)
	for {
		t := q.peek()
		op, ok := tsBin[level][t.text]
		if t.kind != "p" || !ok {
			return l
		}
		q.next()
		r := q.binary(level + 1)
		l = "(.bin ." + op + " " + l + " " + r + ")"
	}
}

func (q *tsParser) unary() string {
	if q.is("p", "-") {
		q.next()
		return "(.neg " + q.unary() + ")"
	}
	e, _ := q.postfix()
	if q.is("p", "++") && !q.peek().nl {
		q.fail("`++` inside an expression")
	}
	return e
}

func (q *tsParser) args(closing string) string {
	var out []string
	if !q.is("p", closing) {
		for {
			out = append(out, q.expr())
			if q.is("p", ",") {
				q.next()
				continue
			}
			break
		}
	}
	q.expect("p", closing)
	return "[" + strings.Join(out, ", ") + "]"
}

// primary expression followed by `.f`, `[i]`, `(args)`; the flag says that the outermost node is a call
func (q *tsParser) postfix() (string, bool) {
	e := q.primary()
	isCall := false
	for {
		switch {
		case q.is("p", "."):
			q.next()
			e = "(.sel " + e + " " + tsId(q.ident()) + ")"
			isCall = false
		case q.is("p", "["):
			q.next()
			i := q.expr()
			q.expect("p", "]")
			e = "(.index " + e + " " + i + ")"
			isCall = false
		case q.is("p", "("):
			q.next()
			e = "(.call " + e + " " + q.args(")") + ")"
			isCall = true
		default:
			return e, isCall
		}
	}
}

func (q *tsParser) primary() string {
	t := q.next()
	switch t.kind {
	case "id":
		return "(.id " + tsId(t.text) + ")"
	case "int":
		return "(.int " + t.text + ")"
	case "str":
		return "(.str " + strconv.Quote(t.text) + ")"
	case "kw":
		switch t.text {
		case "null":
			return ".null"
		case "new":
			cls := tsId(q.ident())
			q.expect("p", "(")
			return "(.new " + cls + " " + q.args(")") + ")"
		}
	case "p":
		switch t.text {
		case "(":
			e := q.expr()
			q.expect("p", ")")
			return e
		case "[":
			return "(.arr " + q.args("]") + ")"
		case "{":
			var ks, vs []string
			if q.is("p", "}") {
				panic("empty object literal")
			}
			for {
				ks = append(ks, tsId(q.ident()))
				q.expect("p", ":")
				vs = append(vs, q.expr())
				if q.is("p", ",") {
					q.next()
					continue
				}
				break
			}
			q.expect("p", "}")
			return "(.obj [" + strings.Join(ks, ", ") + "] [" + strings.Join(vs, ", ") + "])"
		}
	}
	q.p--
	q.fail("unsupported expression")
	return ""
}

func tsFunctions(src string, allowHole bool) []tsFn {
	q := &tsParser{toks: tsLex(src, allowHole)}
	var out []tsFn
	for q.peek().kind != "eof" {
		out = append(out, q.function())
	}
	return out
}

func genTsDriver(repo, outdir string) {
	stateFunc, reduceFrame, tail := tsExtract(repo)

	want := []struct{ ts, lean string }{{"PushStateSym", "push"}, {"PopStateSym", "pop"}, {"initialize", "«initialize»"}, // `initialize` is a Lean keyword
		{"Parser", "parser"}, {"fetchLookAhead", "fetchLookAhead"}}
	fns := tsFunctions(stateFunc, false)
	byName := map[string]string{}
	for _, f := range fns {
		if _, dup := byName[f.name]; dup {
			panic("function declared twice: " + f.name)
		}
		byName[f.name] = f.lean
	}
	if len(fns) != len(want) {
		panic(fmt.Sprintf("StateFunc declares %d functions, expected %d", len(fns), len(want)))
	}

	if strings.Count(reduceFrame, "%") != 1 {
		panic("the ReduceFunc frame must contain exactly one `%` (the `%s` hole)")
	}
	rf := tsFunctions(reduceFrame, true)
	if len(rf) != 1 || rf[0].name != "ReduceFunc" {
		panic("the ReduceFunc frame must declare exactly the function ReduceFunc")
	}
	if strings.Count(rf[0].lean, ".switchHole") != 1 {
		panic("the ReduceFunc frame must contain the hole exactly once")
	}

	// the appended text: top-level statements
	tq := &tsParser{toks: tsLex(tail, false)}
	var tailStmts []string
	for tq.peek().kind != "eof" {
		tailStmts = append(tailStmts, tq.stmt("    "))
	}

	var sb strings.Builder
	sb.WriteString("-- GENERATED from Builder/TsGenCode.go (buildStateFunc, buildReduceFunc); do not edit\nimport Yv.Model.TsAst\nnamespace Gen.Ts\n\n")
	for _, w := range want {
		l, ok := byName[w.ts]
		if !ok {
			panic("StateFunc does not declare " + w.ts)
		}
		fmt.Fprintf(&sb, "/-- `%s` -/\ndef %s : Fn :=\n%s\n\n", w.ts, w.lean, l)
	}
	fmt.Fprintf(&sb, "/-- `ReduceFunc`: the frame around the per-grammar `case`s (`.switchHole` = the `%%s` of the format) -/\ndef reduceFrame : Fn :=\n%s\n\n", rf[0].lean)
	fmt.Fprintf(&sb, "/-- the statements appended to the formatted `ReduceFunc`: they run when the module is loaded -/\ndef moduleTail : List Stmt :=\n%s\n\n", tsList(tailStmts, "  "))
	sb.WriteString("end Gen.Ts\n")
	writeIfChanged(outdir+"/TsDriver.lean", sb.String())
}
