import Yv.Proofs.GenTabFacts
import Yv.Proofs.GenTabCore
import Yv.Proofs.PipelineFacts
import Yv.Props.C09gen
import Yv.Props.C03
import Yv.Props.C01
import Yv.Props.C02
import Yv.Props.C06
/-! # C01 / C02 for all grammars (on the model): table generation always yields a certified table

`genTableL` (Yv/Model/GenTab.lean) is the list-based model of the implementation's `GenTable`:
per state the candidate actions (transitions first, then the reductions of the complete items,
lookahead by lookahead), folded pairwise per symbol by a resolution function `res`, the winner
written into the cell.

* `genTable_certT`: for every grammar, automaton and lookahead table passing the decidable checks
  `gramWF`, `certA`, `gotosOK` (goto lists without repeated symbols, on symbols `≥ 2`), `laOK`
  (lookaheads of complete items are terminals; `start' → S ·` only has `$`), and for ANY pairwise
  resolution that returns one of its arguments or an error marker, the generated table passes
  `certT`.  Hence (`C01_generator`, `C06_generator`) the driver on it is sound and never crashes.
* `genTable_certC`: when no cell has two candidates (`maxCandsL ≤ 1`, the LALR(1) case) the
  generated table also passes `certC`; hence (`C02_generator`) the driver accepts every sentence.

* `laL_checks`, `buildL_checks`: `laL`'s table always satisfies `laOK`/`laTerm` (+ the closedness
  checks), `buildL`'s automaton always satisfies `certA`/`gotosOK` (via `C09_gen`); hence the
  end-to-end corollaries `pipeline_certT`, `C01_pipeline`, `C06_pipeline` (all grammars) and
  `C02_pipeline` (LALR(1) grammars: the driver accepts EXACTLY the language).
* `C01_pairWinner_sel`, `C01_pairWinner_is_go`: the implementation's resolution (mirror
  `Core.pairWinner` = the Go text translated in `Yv/Gen/Resolve.lean`) is an admissible `res`.
* `genRowL_eq_core`, `genTableCore_eq`, `maxCandsL_eq_core`: the list-based generator computes
  exactly the rows of the array model `Core.genRow` (for all inputs), so the harness's comparison of
  `Core.genRow` with the implementation's rows also validates `genTableL`.

The side conditions `gotosOK` / `laOK` are necessary (counterexamples at the end). -/
namespace Y.Props
open Y Y.D Y.GT
open Core (Action)

/-- **The generated table is certified.** -/
theorem genTable_certT (res : Action → Action → Action) (hR : ResSel res)
    (G : Grammar) (nS : Nat) (P : PrecData) (A : Auto) (t : LATab)
    (hG : gramWF G nS = true) (hA : certA G A = true) (hE : gotosOK nS A = true)
    (hL : laOK G A t = true) :
    certT G nS A (genTableL res G nS P A t) = true := by
  have hG' := gramWF_ok hG
  have hA' := certA_ok hA
  have hE' := gotosOK_ok hE
  have hL' := laOK_ok hL
  refine certT_intro (genTable_length res G nS P A t) (genTable_row res G nS P A t) ?_ ?_
  · intro q a hq ha
    exact ⟨_, cell_genTable res G nS P A t hq ha, genCell_chk hR hG' hA' hE' hL' hq a⟩
  · intro q hq e he hX
    rw [cell_genTable res G nS P A t hq (hE'.sym q hq e he).2, genCell_nt hA' hE' hL' hq he hX]

/-- **Completeness side.** Without conflicts (at most one candidate per cell) every lookahead of a
    complete item holds its reduction and every terminal after a dot holds its shift. -/
theorem genTable_certC (res : Action → Action → Action)
    (G : Grammar) (nS : Nat) (P : PrecData) (A : Auto) (t : LATab)
    (hG : gramWF G nS = true) (hA : certA G A = true) (hL : laOK G A t = true)
    (hM : maxCandsL G nS P A t ≤ 1) :
    certC G A t (genTableL res G nS P A t) = true := by
  have hG' := gramWF_ok hG
  have hA' := certA_ok hA
  have hL' := laOK_ok hL
  unfold certC
  simp only [List.all_eq_true, List.mem_range]
  intro q hq it hit
  obtain ⟨hr, hd⟩ := hA'.item_ok q hq it hit
  obtain ⟨rl, hrl⟩ := rule_of_lt hr
  have hrhs : G.rhsOf it.r = rl.rhs := rhsOf_eq hrl
  split
  · rename_i hnone
    have hd' : it.d = (G.rhsOf it.r).length := by
      have := List.getElem?_eq_none_iff.mp hnone
      omega
    simp only [List.all_eq_true, beq_iff_eq]
    intro a ha
    have hT := hL'.term q hq it hit hd' a ha
    have haS : a < nS := Nat.lt_of_le_of_lt (isT_pos hT).2 hG'.nTS
    have hc : (a, P.redAct it.r) ∈ candsL G P A t q :=
      mem_candsL.mpr (Or.inr ⟨it, hit, rl, hrl, by rw [← hrhs]; exact hd', ha, rfl⟩)
    rw [cell_genTable res G nS P A t hq haS, genCell_unique hM hq haS hc, decode_red]
  · rename_i X hX
    split
    · obtain ⟨p, hg, _⟩ := hA'.gotoC q hq it hit X hX
      obtain ⟨_, hp0, _⟩ := hA'.edge q hq X p hg
      have hXS : X < nS := by
        rw [hrhs] at hX
        exact (hG'.rhs_ok it.r rl hrl X (List.mem_of_getElem? hX)).2
      have hc : (X, P.shiftAct X p) ∈ candsL G P A t q :=
        mem_candsL.mpr (Or.inl ⟨(X, p), Auto.goto_mem hg, rfl, rfl⟩)
      simp only [hg]
      rw [cell_genTable res G nS P A t hq hXS, genCell_unique hM hq hXS hc, decode_shift P A.n X p hp0]
      simp
    · rfl

/-- **C01 for the generator**: the driver on the generated table is sound, for every grammar,
    automaton and lookahead table passing the decidable checks, whatever the resolution does. -/
theorem C01_generator {V : Type} (res : Action → Action → Action) (hR : ResSel res)
    (G : Grammar) (nS : Nat) (P : PrecData) (A : Auto) (t : LATab)
    (sem : Nat → List V → V) (eofVal bv : V)
    (hG : gramWF G nS = true) (hA : certA G A = true) (hE : gotosOK nS A = true)
    (hL : laOK G A t = true)
    (w : List (Sym × V)) (hw : ∀ x ∈ w, x.1 ≤ G.nT ∧ x.1 ≠ 1)
    (fuel : Nat) (v : V) (c' : D.Cfg V)
    (hrun : run (dparams G (genTableL res G nS P A t) A.n sem eofVal) fuel (init bv w) = .accept v c') :
    ∃ rl0, G.rules[0]? = some rl0 ∧ rl0.lhs = 0 ∧
      RmDer G rl0.rhs c'.reds (w.map Prod.fst) ∧ c'.rest = [] ∧ c'.req = w.length + 1 :=
  C01_sound G nS A _ sem eofVal bv hG hA (genTable_certT res hR G nS P A t hG hA hE hL) w hw fuel v c' hrun

/-- **C06 for the generator**: on the generated table the driver never crashes and reports syntax
    errors exactly at the offending token. -/
theorem C06_generator {V : Type} (res : Action → Action → Action) (hR : ResSel res)
    (G : Grammar) (nS : Nat) (P : PrecData) (A : Auto) (t : LATab)
    (sem : Nat → List V → V) (eofVal bv : V)
    (hG : gramWF G nS = true) (hA : certA G A = true) (hE : gotosOK nS A = true)
    (hL : laOK G A t = true)
    (w : List (Sym × V)) (hw : ∀ x ∈ w, x.1 ≤ G.nT ∧ x.1 ≠ 1) (fuel : Nat) :
    run (dparams G (genTableL res G nS P A t) A.n sem eofVal) fuel (init bv w) ≠ .crash ∧
    ∀ c', run (dparams G (genTableL res G nS P A t) A.n sem eofVal) fuel (init bv w) = .syntaxError c' →
      c'.req + c'.rest.length = w.length + 1 :=
  C06_safe G nS A _ sem eofVal bv hG hA (genTable_certT res hR G nS P A t hG hA hE hL) w hw fuel

/-- **C02 for the generator**: when no cell has two candidates, the driver on the generated table
    accepts every sentence (and, by C01, performs a rightmost derivation of it). -/
theorem C02_generator {V : Type} (res : Action → Action → Action) (hR : ResSel res)
    (G : Grammar) (nS : Nat) (P : PrecData) (A : Auto) (S : Sets) (t : LATab)
    (sem : Nat → List V → V) (eofVal bv : V)
    (hG : gramWF G nS = true) (hA : certA G A = true) (hE : gotosOK nS A = true)
    (hL : laOK G A t = true) (hM : maxCandsL G nS P A t ≤ 1)
    (hS : setsClosed G S = true) (hLC : laClosed G S (toLAData A t) = true)
    (hLT : laTerm G A t = true)
    (S₀ : Sym) (h0 : G.rules[0]? = some ⟨0, [S₀]⟩)
    (w : List (Sym × V)) (hw : GenL G [S₀] (w.map Prod.fst)) (hwT : ∀ x ∈ w, x.1 ≤ G.nT ∧ x.1 ≠ 1) :
    ∃ fuel v c', run (dparams G (genTableL res G nS P A t) A.n sem eofVal) fuel (init bv w) = .accept v c' ∧
      RmDer G [S₀] c'.reds (w.map Prod.fst) ∧ c'.rest = [] ∧ c'.req = w.length + 1 :=
  C02_complete_sound G nS A _ S t sem eofVal bv hG hA (genTable_certT res hR G nS P A t hG hA hE hL)
    hS hLC (genTable_certC res G nS P A t hG hA hL hM) hLT S₀ h0 w hw hwT

/-! ## the implementation's resolution; agreement with the array model -/

/-- `Core.pairWinner` (the mirror of `ResolveConflict` / `UseDefaultResolveConflict`) returns one of
    its two arguments or the `%nonassoc` error marker, so all theorems above apply to it -/
theorem C01_pairWinner_sel : ResSel Core.pairWinner := pairWinner_sel

/-- the verified list-based generator computes exactly the rows of the array model `Core.genRow`
    (which the harness compares with the implementation's rows) — for all inputs -/
theorem genRowL_eq_core (g : Core.Gram) (a : Core.Auto) (t : Core.LATab) (q : Nat) :
    genRowCore g a t q = (Core.genRow g a t q).toList := GT.genRowL_eq_core g a t q

theorem genTableCore_eq (g : Core.Gram) (a : Core.Auto) (t : Core.LATab) :
    genTableCore g a t = (List.range a.states.size).map fun q => (Core.genRow g a t q).toList :=
  GT.genTableCore_eq g a t

/-- … and the same LALR(1) test as `Core.maxCands` -/
theorem maxCandsL_eq_core (g : Core.Gram) (a : Core.Auto) (t : Core.LATab) :
    maxCandsL (gramOfCore g) g.nSyms (precOfCore g) (autoOfCore a) (laOfCore t) =
      Core.maxCands g a t := GT.maxCandsL_eq_core g a t

/-! ## with the verified lookahead oracle `laL` -/

/-- the table returned by `laL` satisfies the side conditions on lookaheads (no productivity
    assumption: by an invariant of the iteration) -/
theorem laL_checks (G : Grammar) (nS : Nat) (A : Auto) (t : LATab) (hG : gramWF G nS = true)
    (hLa : laL G nS A = some t) :
    laOK G A t = true ∧ laTerm G A t = true ∧
      ∃ S, setsClosed G S = true ∧ laClosed G S (toLAData A t) = true := by
  obtain ⟨S, hS, _, hc⟩ := laL_some hLa
  exact ⟨laL_laOK hG hLa, laL_laTerm hG hLa, S, (setsL_some hS).2, hc⟩

/-- **C02 for the generator with `laL`'s lookaheads**: for a grammar without LALR(1) conflicts on
    the automaton `A`, the driver on the generated table accepts exactly the sentences. -/
theorem C02_generator_laL {V : Type} (res : Action → Action → Action) (hR : ResSel res)
    (G : Grammar) (nS : Nat) (P : PrecData) (A : Auto) (t : LATab)
    (sem : Nat → List V → V) (eofVal bv : V)
    (hG : gramWF G nS = true) (hA : certA G A = true) (hE : gotosOK nS A = true)
    (hLa : laL G nS A = some t) (hM : maxCandsL G nS P A t ≤ 1)
    (S₀ : Sym) (h0 : G.rules[0]? = some ⟨0, [S₀]⟩)
    (w : List (Sym × V)) (hwT : ∀ x ∈ w, G.isT x.1 = true ∧ x.1 ≠ 1) :
    (∃ fuel v c', run (dparams G (genTableL res G nS P A t) A.n sem eofVal) fuel (init bv w) = .accept v c')
      ↔ GenL G [S₀] (w.map Prod.fst) := by
  obtain ⟨hL, hLT, S, hS, hLC⟩ := laL_checks G nS A t hG hLa
  have hw : ∀ x ∈ w, x.1 ≤ G.nT ∧ x.1 ≠ 1 := fun x hx => ⟨(isT_pos (hwT x hx).1).2, (hwT x hx).2⟩
  constructor
  · rintro ⟨fuel, v, c', hrun⟩
    obtain ⟨rl0, hr0, _, hder, _, _⟩ :=
      C01_generator res hR G nS P A t sem eofVal bv hG hA hE hL w hw fuel v c' hrun
    rw [h0] at hr0; cases hr0
    refine RmDer_GenL hder ?_
    intro a ha
    obtain ⟨x, hx, rfl⟩ := List.mem_map.mp ha
    exact (hwT x hx).1
  · intro hgen
    obtain ⟨fuel, v, c', hrun, _⟩ :=
      C02_generator res hR G nS P A S t sem eofVal bv hG hA hE hL hM hS hLC hLT S₀ h0 w hgen hw
    exact ⟨fuel, v, c', hrun⟩

/-! ## end to end: `buildL` ⇒ `laL` ⇒ `genTableL` -/

/-- the automaton built by the verified worklist `buildL` passes the LR(0) certificate and the side
    condition on goto lists, for every well-formed grammar -/
theorem buildL_checks (G : Grammar) (nS : Nat) (A : Auto) (hG : gramWF G nS = true)
    (hB : buildL G = some A) : certA G A = true ∧ gotosOK nS A = true :=
  ⟨certA_of_canon hG (C09_gen G A hB), gotosOK_of_canon hG (C09_gen G A hB)⟩

/-- the whole verified pipeline always produces a certified table -/
theorem pipeline_certT (res : Action → Action → Action) (hR : ResSel res)
    (G : Grammar) (nS : Nat) (P : PrecData) (A : Auto) (t : LATab)
    (hG : gramWF G nS = true) (hB : buildL G = some A) (hLa : laL G nS A = some t) :
    certA G A = true ∧ certT G nS A (genTableL res G nS P A t) = true :=
  have h := buildL_checks G nS A hG hB
  ⟨h.1, genTable_certT res hR G nS P A t hG h.1 h.2 (laL_laOK hG hLa)⟩

/-- **C01, end to end**: for every well-formed grammar for which the generators return, the driver
    on the generated table only accepts what it has derived — whatever the resolution does. -/
theorem C01_pipeline {V : Type} (res : Action → Action → Action) (hR : ResSel res)
    (G : Grammar) (nS : Nat) (P : PrecData) (A : Auto) (t : LATab)
    (sem : Nat → List V → V) (eofVal bv : V)
    (hG : gramWF G nS = true) (hB : buildL G = some A) (hLa : laL G nS A = some t)
    (w : List (Sym × V)) (hw : ∀ x ∈ w, x.1 ≤ G.nT ∧ x.1 ≠ 1)
    (fuel : Nat) (v : V) (c' : D.Cfg V)
    (hrun : run (dparams G (genTableL res G nS P A t) A.n sem eofVal) fuel (init bv w) = .accept v c') :
    ∃ rl0, G.rules[0]? = some rl0 ∧ rl0.lhs = 0 ∧
      RmDer G rl0.rhs c'.reds (w.map Prod.fst) ∧ c'.rest = [] ∧ c'.req = w.length + 1 :=
  have h := buildL_checks G nS A hG hB
  C01_generator res hR G nS P A t sem eofVal bv hG h.1 h.2 (laL_laOK hG hLa) w hw fuel v c' hrun

/-- **C06, end to end**: no crash, syntax errors reported at the offending token. -/
theorem C06_pipeline {V : Type} (res : Action → Action → Action) (hR : ResSel res)
    (G : Grammar) (nS : Nat) (P : PrecData) (A : Auto) (t : LATab)
    (sem : Nat → List V → V) (eofVal bv : V)
    (hG : gramWF G nS = true) (hB : buildL G = some A) (hLa : laL G nS A = some t)
    (w : List (Sym × V)) (hw : ∀ x ∈ w, x.1 ≤ G.nT ∧ x.1 ≠ 1) (fuel : Nat) :
    run (dparams G (genTableL res G nS P A t) A.n sem eofVal) fuel (init bv w) ≠ .crash ∧
    ∀ c', run (dparams G (genTableL res G nS P A t) A.n sem eofVal) fuel (init bv w) = .syntaxError c' →
      c'.req + c'.rest.length = w.length + 1 :=
  have h := buildL_checks G nS A hG hB
  C06_generator res hR G nS P A t sem eofVal bv hG h.1 h.2 (laL_laOK hG hLa) w hw fuel

/-- **C02, end to end**: for every LALR(1) grammar (no cell with two candidates), `buildL`'s
    automaton + `laL`'s lookaheads + `genTableL`'s table accept exactly the language. -/
theorem C02_pipeline {V : Type} (res : Action → Action → Action) (hR : ResSel res)
    (G : Grammar) (nS : Nat) (P : PrecData) (A : Auto) (t : LATab)
    (sem : Nat → List V → V) (eofVal bv : V)
    (hG : gramWF G nS = true) (hB : buildL G = some A) (hLa : laL G nS A = some t)
    (hM : maxCandsL G nS P A t ≤ 1)
    (S₀ : Sym) (h0 : G.rules[0]? = some ⟨0, [S₀]⟩)
    (w : List (Sym × V)) (hwT : ∀ x ∈ w, G.isT x.1 = true ∧ x.1 ≠ 1) :
    (∃ fuel v c', run (dparams G (genTableL res G nS P A t) A.n sem eofVal) fuel (init bv w) = .accept v c')
      ↔ GenL G [S₀] (w.map Prod.fst) :=
  have h := buildL_checks G nS A hG hB
  C02_generator_laL res hR G nS P A t sem eofVal bv hG h.1 h.2 hLa hM S₀ h0 w hwT

/-! ## Non-vacuity

* the grammar `S' → S ; S → a S | b` of C01/C02: the generator returns exactly the table `exT`,
  from the data `exA`/`exLA` and through the whole pipeline;
* the LALR(1)-but-not-SLR(1) grammar `laG` of C03: no conflict, the pipeline's table;
* `E → E + E | E * E | id` with `%left '+'`, `%left '*'`: two candidates in some cells, resolved by
  precedence (state 5 = `E → E + E ·`: reduce on `+`, shift on `*`; state 6 = `E → E * E ·`: reduce);
  without precedence data the default (shift) is taken;
* `E → E < E | id` with `%nonassoc '<'`: the cell of state 4 on `<` is the error code. -/

def noPrec : PrecData := ⟨[], [], []⟩

example : genTableL Core.pairWinner exG 5 noPrec exA exLA = exT := by decide

example : gotosOK 5 exA = true ∧ laOK exG exA exLA = true ∧ maxCandsL exG 5 noPrec exA exLA = 1 := by
  decide

example : ((buildL exG).bind fun A => (laL exG 5 A).map fun t =>
    genTableL Core.pairWinner exG 5 noPrec A t) = some exT := by decide

set_option maxRecDepth 4000 in
example : ((buildL laG).bind fun A => (laL laG 8 A).map fun t =>
    (genTableL Core.pairWinner laG 8 noPrec A t, maxCandsL laG 8 noPrec A t)) =
  some ([[110, 110, 110, 4, 5, 1, 2, 3], [110, 210, 110, 110, 110, 110, 110, 110],
         [110, -5, 6, 110, 110, 110, 110, 110], [110, -2, 110, 110, 110, 110, 110, 110],
         [110, 110, 110, 4, 5, 110, 8, 7], [110, -4, -4, 110, 110, 110, 110, 110],
         [110, 110, 110, 4, 5, 110, 8, 9], [110, -3, -3, 110, 110, 110, 110, 110],
         [110, -5, -5, 110, 110, 110, 110, 110], [110, -1, 110, 110, 110, 110, 110, 110]], 1) := by
  decide

def exprG : Grammar := { nT := 4, rules := [⟨0, [5]⟩, ⟨5, [5, 2, 5]⟩, ⟨5, [5, 3, 5]⟩, ⟨5, [4]⟩] }
def exprP : PrecData := ⟨[-1, -1, 1, 2, -1, -1], [2, 2, 0, 0, 2, 2], [-1, 2, 3, -1]⟩

set_option maxRecDepth 4000 in
example : ((buildL exprG).bind fun A => (laL exprG 6 A).map fun t =>
    (genTableL Core.pairWinner exprG 6 exprP A t, maxCandsL exprG 6 exprP A t)) =
  some ([[107, 107, 107, 107, 2, 1], [107, 207, 3, 4, 107, 107], [107, -3, -3, -3, 107, 107],
         [107, 107, 107, 107, 2, 5], [107, 107, 107, 107, 2, 6], [107, -1, -1, 4, 107, 107],
         [107, -2, -2, -2, 107, 107]], 2) := by decide

example : ((buildL exprG).bind fun A => (laL exprG 6 A).map fun t =>
    genTableL Core.pairWinner exprG 6 noPrec A t) =
  some [[107, 107, 107, 107, 2, 1], [107, 207, 3, 4, 107, 107], [107, -3, -3, -3, 107, 107],
        [107, 107, 107, 107, 2, 5], [107, 107, 107, 107, 2, 6], [107, -1, 3, 4, 107, 107],
        [107, -2, 3, 4, 107, 107]] := by decide

def cmpG : Grammar := { nT := 3, rules := [⟨0, [4]⟩, ⟨4, [4, 2, 4]⟩, ⟨4, [3]⟩] }
def cmpP : PrecData := ⟨[-1, -1, 1, -1, -1], [2, 2, 2, 2, 2], [-1, 2, -1]⟩

example : ((buildL cmpG).bind fun A => (laL cmpG 5 A).map fun t =>
    genTableL Core.pairWinner cmpG 5 cmpP A t) =
  some [[105, 105, 105, 2, 1], [105, 205, 3, 105, 105], [105, -2, -2, 105, 105],
        [105, 105, 105, 2, 4], [105, -1, 105, 105, 105]] := by decide

example : gramWF exprG 6 = true ∧ gramWF cmpG 5 = true ∧ gramWF laG 8 = true := by decide

/-! ## the side conditions are needed

`certA` does not constrain an edge into a state without kernel items, nor repeated symbols in a
goto list; `genTable_certT` is false without `gotosOK`, and without `laOK`: -/

/-- `exA` plus an empty state 5 entered from state 0 on the end marker: passes `certA`, but the
    generated table shifts `$` -/
def badA1 : Auto := { items := exA.items ++ [[]], gotos := [[(4,1), (2,2), (3,3), (1,5)], [], [(2,2), (4,4), (3,3)], [], [], []] }

example : certA exG badA1 = true ∧ laOK exG badA1 exLA = true ∧ gotosOK 5 badA1 = false ∧
    certT exG 5 badA1 (genTableL Core.pairWinner exG 5 noPrec badA1 exLA) = false := by decide

/-- `exA` plus a copy (state 5) of state 3 entered from state 0 by a second edge on `b`: passes
    `certA`; a resolution that prefers its second argument writes the second edge's target, which is
    not `A.goto` -/
def badA2 : Auto := { items := exA.items ++ [[⟨2,1⟩]], gotos := [[(4,1), (2,2), (3,3), (3,5)], [], [(2,2), (4,4), (3,3)], [], [], []] }
def badLA2 : LATab := { tab := exLA.tab ++ [[(⟨2,1⟩, [1])]] }

example : ResSel (fun _ b => b) := fun _ _ => Or.inr (Or.inl rfl)

example : certA exG badA2 = true ∧ laOK exG badA2 badLA2 = true ∧ gotosOK 5 badA2 = false ∧
    certT exG 5 badA2 (genTableL (fun _ b => b) exG 5 noPrec badA2 badLA2) = false := by decide

/-- a lookahead table that gives `start' → S ·` the lookahead `a`: accept would be written in
    column `a` -/
def badLA3 : LATab := { tab := [[], [(⟨0,1⟩, [1, 2])], [], [(⟨2,1⟩, [1])], [(⟨1,2⟩, [1])]] }

example : gotosOK 5 exA = true ∧ laOK exG exA badLA3 = false ∧
    certT exG 5 exA (genTableL Core.pairWinner exG 5 noPrec exA badLA3) = false := by decide

end Y.Props

#print axioms Y.Props.genTable_certT
#print axioms Y.Props.genTable_certC
#print axioms Y.Props.C01_generator
#print axioms Y.Props.C06_generator
#print axioms Y.Props.C02_generator
#print axioms Y.Props.C02_generator_laL
#print axioms Y.Props.pipeline_certT
#print axioms Y.Props.C01_pipeline
#print axioms Y.Props.C06_pipeline
#print axioms Y.Props.C02_pipeline
#print axioms Y.Props.genRowL_eq_core
#print axioms Y.Props.maxCandsL_eq_core
#print axioms Y.Props.C01_pairWinner_sel
