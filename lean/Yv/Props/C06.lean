import Yv.Proofs.DSound
/-! # C06 — syntax errors are reported through the error channel, never by a crash

`C06_safe`: on every table passing the certificates, for every input and every fuel, the driver's
outcome is `accept`, `syntaxError` or `outOfFuel` — never `crash` (no out-of-range state, symbol,
stack slice or goto), and when it reports a syntax error the number of tokens requested is exactly
one more than the number of tokens it has shifted (nothing after the offending token was asked for). -/
namespace Y.Props
open Y Y.D

theorem C06_safe {V : Type} (G : Grammar) (nS : Nat) (A : Auto) (T : Dense)
    (sem : Nat → List V → V) (eofVal bv : V)
    (hG : gramWF G nS = true) (hA : certA G A = true) (hT : certT G nS A T = true)
    (w : List (Sym × V)) (hw : ∀ t ∈ w, t.1 ≤ G.nT ∧ t.1 ≠ 1) (fuel : Nat) :
    run (dparams G T A.n sem eofVal) fuel (init bv w) ≠ .crash ∧
    ∀ c', run (dparams G T A.n sem eofVal) fuel (init bv w) = .syntaxError c' →
      c'.req + c'.rest.length = w.length + 1 := by
  rcases run_cases sem eofVal (gramWF_ok hG) (certA_ok hA) (certT_ok hT) fuel _
      (init_inv (G := G) (A := A) bv w hw) with ⟨v2, c2, h2, _⟩ | ⟨c2, h2, hi⟩ | h2
  · rw [h2]; exact ⟨by simp, by intro c' h; cases h⟩
  · rw [h2]
    refine ⟨by simp, ?_⟩
    intro c' h; cases h
    simpa using hi.cnt
  · rw [h2]; exact ⟨by simp, by intro c' h; cases h⟩

end Y.Props
