#!/usr/bin/env python3
"""usage: seed_meta.py <seed-id> <property> <needs> <caught-by (comma list or 'none')> [note]"""
import json, sys
sid, prop, needs, caught = sys.argv[1:5]
note = sys.argv[5] if len(sys.argv) > 5 else ""
meta = {"id": sid, "breaks": prop, "source": "independent sub-agent given only the property text and a scratch worktree",
        "needs_to_manifest": needs,
        "confirmed": "tools/confirm_seed.sh: go build ./... and go test pass with the change; demo/run.sh prints FAIL with the change and PASS without it",
        "checks_run_against_it": caught, "note": note}
json.dump(meta, open("/verif/seeded/%s/meta.json" % sid, "w"), indent=1)
print("meta written for", sid)
