package main

func genFacts(repo, outdir string) {}
