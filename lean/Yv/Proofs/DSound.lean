import Yv.Model.Drive
import Yv.Proofs.CertFacts
/-! Invariants of the concrete driver on a certified table: stack-path invariant, the handle
    lemma, the rightmost-derivation invariant; one-step preservation (`step_inv`), safety
    (`step_safe`: a step from an invariant configuration is never `crash`). -/
namespace Y.D
open Y

variable {V : Type}

def stTop (st : List (Entry V)) : Nat := match st with | [] => 0 | e :: _ => e.st

/-- entries above the bottom follow edges of the automaton -/
inductive PathOK (A : Auto) : List (Entry V) → Prop
  | bottom (v : V) : PathOK A [⟨0, 1, v⟩]
  | push (e : Entry V) (st : List (Entry V)) :
      PathOK A st → A.goto (stTop st) e.sym = some e.st → PathOK A (e :: st)

/-- the grammar symbols on the stack, bottom entry excluded, left to right -/
def ssyms : List (Entry V) → List Sym
  | [] => []
  | [_] => []
  | e :: f :: st => ssyms (f :: st) ++ [e.sym]

theorem ssyms_cons (e f : Entry V) (st : List (Entry V)) :
    ssyms (e :: f :: st) = ssyms (f :: st) ++ [e.sym] := rfl

theorem PathOK.ne_nil {A : Auto} {st : List (Entry V)} (h : PathOK A st) : st ≠ [] := by
  cases h <;> simp

theorem PathOK.top_lt {G : Grammar} {A : Auto} (hA : AOK G A) {st : List (Entry V)} (h : PathOK A st) :
    stTop st < A.n := by
  induction h with
  | bottom v => exact hA.npos
  | push e st hp hg ih => exact (hA.edge _ ih _ _ hg).1

/-- Handle lemma: an item `(r,d)` of the top state has its first `d` right-hand-side symbols on
    top of the stack, above a state that holds `(r,0)`. -/
theorem handle {G : Grammar} {A : Auto} (hA : AOK G A) :
    ∀ (d : Nat) (st : List (Entry V)) (r : Nat), PathOK A st → (⟨r, d⟩ : Item) ∈ A.its (stTop st) →
      d + 1 ≤ st.length ∧ ssyms st = ssyms (st.drop d) ++ (G.rhsOf r).take d ∧
      PathOK A (st.drop d) ∧ (⟨r, 0⟩ : Item) ∈ A.its (stTop (st.drop d)) := by
  intro d
  induction d with
  | zero =>
    intro st r hp hit
    refine ⟨?_, by simp, by simpa using hp, by simpa using hit⟩
    have := hp.ne_nil
    cases st with
    | nil => exact absurd rfl this
    | cons => simp
  | succ d ih =>
    intro st r hp hit
    cases hp with
    | bottom v =>
      have := hA.s0_dot _ hit
      simp at this
    | push e st' hp' hg =>
      have hq := hp'.top_lt hA
      obtain ⟨_, _, hall⟩ := hA.edge _ hq _ _ hg
      have := hall _ hit
      simp only [Nat.add_one_ne_zero, Nat.add_sub_cancel, false_or] at this
      obtain ⟨hx, hprev⟩ := this
      obtain ⟨hlen, hsy, hpd, hr0⟩ := ih st' r hp' hprev
      refine ⟨by simp; omega, ?_, by simpa using hpd, by simpa using hr0⟩
      simp only [List.drop_succ_cons]
      have htake : (G.rhsOf r).take (d + 1) = (G.rhsOf r).take d ++ [e.sym] := by
        rw [List.take_add_one]; simp [hx]
      cases st' with
      | nil => exact absurd rfl hp'.ne_nil
      | cons f st'' =>
        rw [ssyms_cons, hsy, htake, List.append_assoc]

/-- the invariant of a run on input `w` (the tokens before the end marker) -/
structure Inv (G : Grammar) (A : Auto) (w : List Sym) (c : Cfg V) : Prop where
  path : PathOK A c.stack
  term : ∀ t ∈ c.rest, t.1 ≤ G.nT ∧ t.1 ≠ 1
  der : (∀ t ∈ c.rest, t.1 ≠ 0) → RmDer G (ssyms c.stack ++ c.rest.map Prod.fst) c.reds w
  cnt : c.req + c.rest.length = w.length + 1

theorem isT_of {G : Grammar} {a : Sym} (h1 : a ≤ G.nT) (h0 : a ≠ 0) : G.isT a = true := by
  unfold Grammar.isT
  simp only [Bool.and_eq_true, decide_eq_true_eq]
  exact ⟨Nat.pos_of_ne_zero h0, h1⟩

theorem look_nil {ev : V} {c : Cfg V} (h : c.rest = []) : look ev c = (1, ev) := by
  simp [look, h]

theorem look_cons {ev : V} {c : Cfg V} {x : Sym × V} {xs : List (Sym × V)}
    (h : c.rest = x :: xs) : look ev c = x := by
  simp [look, h]

/-- the lookahead is a terminal column or 0 -/
theorem look_le {G : Grammar} {A : Auto} {w : List Sym} {ev : V} {c : Cfg V}
    (hG : 1 ≤ G.nT) (h : Inv G A w c) : (look ev c).1 ≤ G.nT := by
  cases hr : c.rest with
  | nil => rw [look_nil hr]; exact hG
  | cons x xs => rw [look_cons hr]; exact (h.term x (by simp [hr])).1

theorem pathOK_top0 {G : Grammar} {A : Auto} (hA : AOK G A) {st : List (Entry V)} (hp : PathOK A st)
    (h0 : stTop st = 0) : ∃ v, st = [⟨0, 1, v⟩] := by
  cases hp with
  | bottom v => exact ⟨v, rfl⟩
  | push e st' hp' hg =>
    have := (hA.edge _ (hp'.top_lt hA) _ _ hg).2.1
    simp [stTop] at h0
    exact absurd h0 this

theorem rhsOf_eq {G : Grammar} {r : Nat} {rl : Rule} (h : G.rules[r]? = some rl) : G.rhsOf r = rl.rhs := by
  simp [Grammar.rhsOf, h]

theorem lhsOf_eq {G : Grammar} {r : Nat} {rl : Rule} (h : G.rules[r]? = some rl) : G.lhsOf r = rl.lhs := by
  simp [Grammar.lhsOf, h]

/-- One step from an invariant configuration on a certified table: never `crash`; `next` keeps the
    invariant; `acc` only with the whole input consumed and exactly the start rule's body on the stack. -/
theorem step_cases {G : Grammar} {nS : Nat} {A : Auto} {T : Dense} {w : List Sym}
    (sem : Nat → List V → V) (eofVal : V)
    (hG : GOK G nS) (hA : AOK G A) (hT : TOK G nS A T) {c : Cfg V} (h : Inv G A w c) :
    (∃ c', step (dparams G T A.n sem eofVal) c = .next c' ∧ Inv G A w c') ∨
    (∃ v, step (dparams G T A.n sem eofVal) c = .acc v c ∧ c.rest = [] ∧
        ∃ rl0, G.rules[0]? = some rl0 ∧ ssyms c.stack = rl0.rhs) ∨
    step (dparams G T A.n sem eofVal) c = .err c := by
  obtain ⟨hpath, hterm, hder, hcnt⟩ := h
  cases hst : c.stack with
  | nil => exact absurd hst hpath.ne_nil
  | cons top below =>
  rw [hst] at hpath
  have hq : top.st < A.n := hpath.top_lt hA
  have hale : (look eofVal c).1 ≤ G.nT := by
    cases hr : c.rest with
    | nil => rw [look_nil hr]; exact hG.nT1
    | cons x xs => rw [look_cons hr]; exact (hterm x (by simp [hr])).1
  have haS : (look eofVal c).1 < nS := Nat.lt_of_le_of_lt hale hG.nTS
  obtain ⟨v, hv⟩ := hT.total _ _ hq haS
  -- abbreviations
  generalize hlook : look eofVal c = lk at *
  by_cases he : v = errCode A.n
  · right; right
    unfold step; rw [hst]
    simp only [dparams, hlook] at hv ⊢
    simp [hv, he]
  by_cases hacc : v = accCode A.n
  · right; left
    subst hacc
    obtain ⟨ha1, hit⟩ := hT.acc _ _ hv
    have hne : accCode A.n ≠ errCode A.n := by unfold accCode errCode; omega
    have hrest : c.rest = [] := by
      cases hr : c.rest with
      | nil => rfl
      | cons x xs =>
        rw [look_cons hr] at hlook
        have := (hterm x (by simp [hr])).2
        rw [hlook] at this; exact absurd ha1 this
    refine ⟨top.val, ?_, hrest, ?_⟩
    · unfold step; rw [hst]
      simp only [dparams, hlook] at hv ⊢
      simp [hv, hne]
    · obtain ⟨rl0, hr0, _, hlen⟩ := hG.r0
      obtain ⟨_, hsy, hpd, hr00⟩ := handle hA 1 (top :: below) 0 hpath (by simpa [stTop] using hit)
      have h0 := hA.start_only0 _ (hpd.top_lt hA) hr00
      obtain ⟨v0, hbot⟩ := pathOK_top0 hA hpd h0
      refine ⟨rl0, hr0, ?_⟩
      rw [hsy, hbot, rhsOf_eq hr0]
      simp [ssyms]
      cases hrr : rl0.rhs with
      | nil => simp [hrr] at hlen
      | cons x xs =>
        cases xs with
        | nil => simp
        | cons y ys => simp [hrr] at hlen
  by_cases hpos : 0 < v
  · left
    obtain ⟨ha1, hgoto⟩ := hT.shift _ _ _ hv he hacc hpos
    have ha0 : lk.1 ≠ 0 := by
      intro h0
      rw [h0] at hv
      exact he (hT.col0 _ _ hv)
    cases hr : c.rest with
    | nil => rw [look_nil hr] at hlook; rw [← hlook] at ha1; exact absurd rfl ha1
    | cons x xs =>
      rw [look_cons hr] at hlook
      subst hlook
      refine ⟨{ c with stack := ⟨v.toNat, x.1, x.2⟩ :: top :: below, rest := c.rest.tail,
                       req := c.req + 1, trace := .shift x.1 v.toNat :: c.trace }, ?_, ?_⟩
      · unfold step; rw [hst]
        simp only [dparams, look, hr] at hv ⊢
        simp only [hv, he, hacc, hpos, if_false, if_true]
      · refine ⟨?_, ?_, ?_, by simp [hr] at hcnt ⊢; omega⟩
        · exact PathOK.push _ _ hpath (by simpa [stTop] using hgoto)
        · intro t ht
          have ht' : t ∈ xs := by simpa [hr] using ht
          exact hterm t (by rw [hr]; exact List.mem_cons_of_mem _ ht')
        · intro hz
          have hz' : ∀ t ∈ c.rest, t.1 ≠ 0 := by
            intro t ht; rw [hr] at ht
            rcases List.mem_cons.mp ht with rfl | ht
            · exact ha0
            · exact hz t (by simpa [hr] using ht)
          have := hder hz'
          rw [hst, hr] at this
          simpa [ssyms_cons, List.append_assoc, hr] using this
  · left
    obtain ⟨hr1, hrlt, haT, hit⟩ := hT.red _ _ _ hv he hacc hpos
    have hrl : ∃ rl, G.rules[(-v).toNat]? = some rl := ⟨G.rules[(-v).toNat], by simp [hrlt]⟩
    obtain ⟨rl, hrl⟩ := hrl
    rw [rhsOf_eq hrl] at hit
    obtain ⟨hlen, hsy, hpd, hr0⟩ := handle hA rl.rhs.length (top :: below) _ hpath (by simpa [stTop] using hit)
    rw [rhsOf_eq hrl, List.take_length] at hsy
    have hnb : rl.rhs.length ≤ below.length := by simp at hlen; omega
    cases hdrop : (top :: below).drop rl.rhs.length with
    | nil => rw [hdrop] at hpd; exact absurd rfl hpd.ne_nil
    | cons under rest' =>
    rw [hdrop] at hpd hr0 hsy
    have hqu : under.st < A.n := hpd.top_lt hA
    have hrne : (-v).toNat ≠ 0 := by omega
    obtain ⟨jt, hj, hjx⟩ := hA.just _ hqu _ hr0 rfl hrne
    rw [lhsOf_eq hrl] at hjx
    obtain ⟨p, hgp, _⟩ := hA.gotoC _ hqu _ hj _ hjx
    have hnt := hG.lhsNT _ _ hrl hr1
    have hcell := hT.ntEdge _ hqu _ _ hgp hnt
    refine ⟨{ c with
        stack := ⟨p, rl.lhs, sem (-v).toNat (((top :: below).take rl.rhs.length).reverse.map Entry.val)⟩ ::
                   under :: rest',
        reds := (-v).toNat :: c.reds,
        trace := .shift rl.lhs p :: .reduce lk.1 (-v).toNat p :: c.trace }, ?_, ?_⟩
    · unfold step; rw [hst]
      simp only [dparams, hlook] at hv ⊢
      simp only [hv, he, hacc, hpos, if_false, hrne, hrl, Option.map_some, hnb, if_true, hdrop, hcell]
      have : ¬ ((p : Int) < 0) := by omega
      simp only [this, if_false, Int.toNat_natCast]
    · refine ⟨?_, hterm, ?_, hcnt⟩
      · exact PathOK.push _ _ hpd (by simpa [stTop] using hgp)
      · intro hz
        have hd := hder hz
        rw [hst, hsy] at hd
        have hzT : ∀ t ∈ c.rest.map Prod.fst, G.isT t = true := by
          intro t ht
          obtain ⟨x, hx, rfl⟩ := List.mem_map.mp ht
          exact isT_of (hterm x hx).1 (hz x hx)
        have := RmDer.step (G := G) (ssyms (under :: rest')) (-v).toNat rl (c.rest.map Prod.fst)
          c.reds w hrl hzT hd
        simpa [ssyms_cons, List.append_assoc] using this

end Y.D

namespace Y.D
open Y
variable {V : Type}

theorem init_inv {G : Grammar} {A : Auto} (bv : V) (w : List (Sym × V))
    (hw : ∀ t ∈ w, t.1 ≤ G.nT ∧ t.1 ≠ 1) : Inv G A (w.map Prod.fst) (init bv w) := by
  refine ⟨PathOK.bottom bv, hw, fun _ => ?_, by simp [init]; omega⟩
  simpa [init, ssyms] using RmDer.nil (G := G) (w.map Prod.fst)

/-- run-level consequences of `step_cases` -/
theorem run_cases {G : Grammar} {nS : Nat} {A : Auto} {T : Dense} {w : List Sym}
    (sem : Nat → List V → V) (eofVal : V)
    (hG : GOK G nS) (hA : AOK G A) (hT : TOK G nS A T) :
    ∀ (fuel : Nat) (c : Cfg V), Inv G A w c →
      (∃ v c', run (dparams G T A.n sem eofVal) fuel c = .accept v c' ∧ Inv G A w c' ∧ c'.rest = [] ∧
          ∃ rl0, G.rules[0]? = some rl0 ∧ ssyms c'.stack = rl0.rhs) ∨
      (∃ c', run (dparams G T A.n sem eofVal) fuel c = .syntaxError c' ∧ Inv G A w c') ∨
      run (dparams G T A.n sem eofVal) fuel c = .outOfFuel := by
  intro fuel
  induction fuel with
  | zero => intro c _; right; right; rfl
  | succ n ih =>
    intro c h
    rcases step_cases sem eofVal hG hA hT h with ⟨c', hs, hi⟩ | ⟨v, hs, hr, hrl⟩ | hs
    · have := ih c' hi
      simpa [run, hs] using this
    · left; exact ⟨v, c, by simp [run, hs], h, hr, hrl⟩
    · right; left; exact ⟨c, by simp [run, hs], h⟩

end Y.D
