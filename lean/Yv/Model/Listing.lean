import Yv.Cert.Auto
/-! Model of the TEXT listing that `yaccgo debug` prints in `ComputeLALR` when `utils.DebugFlags` is on
    (`LALR/LALR.go`):

    * the state section, `lalr.G.Show()` (`Grammar/grammar.go: Show, ShowCloure`): for every item
      collection in order the header `--------state %d------------`, one line per item
      (`lhs-->`, ` %s ` for every right-hand-side symbol before the dot, `@`, ` %s ` for every symbol after
      the dot), the line `GOTO:` and one line `at %s goto %d ` (with the trailing blank) per entry of
      `IC.GoTo`, in its stored order;
    * the section `==========Show LookAhead SET===============` (`LALR/Utils.go: ShowLookAheadSet,
      showTrans`): one line `%d:%s-->` + ` %s ` per right-hand-side symbol + ` : ` + ` name` per lookahead
      symbol, for every reduce transition.  The implementation ranges over a Go map there, so the order of
      these lines is unspecified: the section is modelled as the list of lines of a given list of
      `(state, rule, lookaheads)` entries.

    The listing is kept structured (`ListState`: state number, item lines, goto lines); `stateLines` /
    `renderStates` print it.  `names` is the RAW spelling of a symbol (`Symbols[i].Name`), which differs
    from the spelling used in the DOT graph.

    `r.RighPart[:it.Dot]` / `r.RighPart[it.Dot:]` are modelled by `take` / `drop` (the implementation
    panics when the dot is beyond the right end; items of the grammar never are). -/
namespace Y

/-- `for _, sy := range syms { fmt.Printf(" %s ", sy.Name) }` -/
def symsStr (names : Nat → String) : List Sym → String
  | [] => ""
  | x :: xs => " " ++ names x ++ " " ++ symsStr names xs

/-- the item line of `ShowCloure` (without the newline):
    `lhs-->`, the symbols before the dot, `@`, the symbols after the dot -/
def listItemStr (names : Nat → String) (G : Grammar) (it : Item) : String :=
  names (G.lhsOf it.r) ++ "-->" ++ symsStr names ((G.rhsOf it.r).take it.d) ++ "@" ++
    symsStr names ((G.rhsOf it.r).drop it.d)

/-- `fmt.Printf("at %s goto %d \n", g.Sym.Name, g.ItemCl)` (without the newline, with the blank) -/
def listGotoStr (names : Nat → String) (e : Sym × Nat) : String :=
  "at " ++ names e.1 ++ " goto " ++ toString e.2 ++ " "

/-- one state of the listing: its number (printed in the header), its item lines, its goto lines -/
structure ListState where
  state : Nat
  items : List String
  gotos : List String
deriving Repr, DecidableEq

/-- `Show`: one entry per item collection, in order; the items in order; the gotos in the stored order
    of `IC.GoTo` (the automaton's own goto list of that state) -/
def listingView (names : Nat → String) (G : Grammar) (A : Auto) : List ListState :=
  (List.range A.n).map fun q =>
    { state := q,
      items := (A.its q).map (listItemStr names G),
      gotos := (A.gts q).map (listGotoStr names) }

/-- `str_set` of `ShowLookAheadSet`: `" " + name` per lookahead symbol -/
def laStr (names : Nat → String) : List Sym → String
  | [] => ""
  | a :: as => " " ++ names a ++ laStr names as

/-- one line of the lookahead section (without the newline): `showTrans` of the reduce transition
    (`q:lhs-->` and ` %s ` per right-hand-side symbol), then ` : `, then the lookahead symbols -/
def laLineStr (names : Nat → String) (G : Grammar) (q r : Nat) (la : List Sym) : String :=
  toString q ++ ":" ++ names (G.lhsOf r) ++ "-->" ++ symsStr names (G.rhsOf r) ++ " : " ++ laStr names la

/-- the lookahead section for the entries `(state, rule, lookaheads)`, in the order given -/
def laView (names : Nat → String) (G : Grammar) (L : List (Nat × Nat × List Sym)) : List String :=
  L.map fun e => laLineStr names G e.1 e.2.1 e.2.2

/-! ## printing -/

def stateHeader (q : Nat) : String := "--------state " ++ toString q ++ "------------"

/-- the lines `ShowCloure` prints for one state (each is followed by a newline in the output) -/
def stateLines (st : ListState) : List String :=
  stateHeader st.state :: (st.items ++ "GOTO:" :: st.gotos)

/-- the lines of the whole state section, in order -/
def listingLinesOf (L : List ListState) : List String := L.flatMap stateLines

/-- the exact text of `Show()` -/
def renderStates (L : List ListState) : String :=
  String.join ((listingLinesOf L).map fun l => l ++ "\n")

/-- the text of the lookahead section for lines in a given order -/
def renderLA (lines : List String) : String := String.join (lines.map fun l => l ++ "\n")

end Y
