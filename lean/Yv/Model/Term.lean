import Yv.Model.Drive
/-! Termination certificate for the LR driver (`Y.D.step` / `Y.D.run`), evaluated on the table alone.

    Between two shifts the driver only reduces under a fixed lookahead `a`, and a reduce move
    depends only on the *states* on the stack.  `rstep` is that reduce-only move on a list of
    states (top at the head); `simHalts` iterates it; `certTerm` asks that the simulation, started
    from `[0]` and from every pair `[q, p]` where `q` occurs as a non-negative value in row `p`
    (so `q` may be pushed directly on top of `p` by a shift or a goto; values that are not row
    numbers are skipped, the driver crashes on them at once), leaves the reduce-only
    regime (`stop`) or asks for states below the simulated ones (`under`) within `F` moves — for
    every lookahead — and that no row shifts the end marker (column 1).

    Everything here is executable; `certTermFast` is the array-backed evaluator, equal to
    `certTerm` (`Y.Term.certTermFast_eq` in `Yv/Proofs/TermFacts.lean`). -/
namespace Y.Term
open Y Y.D

inductive RStep
  | stop
  | under
  | next (s : List Nat)
deriving DecidableEq, Repr

/-- the reduce-only move on a stack of states -/
def rstep (L : Nat → Nat → Option Int) (errC accC : Int) (rule : Nat → Option (Sym × Nat))
    (a : Sym) (s : List Nat) : RStep :=
  match s with
  | [] => .stop
  | top :: below =>
    match L top a with
    | none => .stop
    | some v =>
      if v = errC then .stop
      else if v = accC then .stop
      else if 0 < v then .stop
      else
        match rule (-v).toNat with
        | none => .stop
        | some (lhs, n) =>
          if n ≤ below.length then
            match (top :: below).drop n with
            | [] => .stop
            | u :: rest' =>
              match L u lhs with
              | none => .stop
              | some g => if g < 0 then .stop else .next (g.toNat :: u :: rest')
          else .under

/-- at most `F` moves of `rstep`; `true` iff `stop` or `under` is reached -/
def simHalts (L : Nat → Nat → Option Int) (errC accC : Int) (rule : Nat → Option (Sym × Nat)) :
    Nat → Sym → List Nat → Bool
  | 0, _, _ => false
  | F + 1, a, s =>
    match rstep L errC accC rule a s with
    | .stop => true
    | .under => true
    | .next s' => simHalts L errC accC rule F a s'

/-- number of columns: the longest row -/
def ncols (T : Dense) : Nat := T.foldl (fun m row => max m row.length) 0

/-- the simulation from `s` halts under every lookahead `< nc` -/
def simAll (L : Nat → Nat → Option Int) (errC accC : Int) (rule : Nat → Option (Sym × Nat))
    (F nc : Nat) (s : List Nat) : Bool :=
  (List.range nc).all fun a => simHalts L errC accC rule F a s

/-- is `v` a shift action? -/
def isShift (errC accC : Int) (v : Int) : Bool := decide (0 < v) && v != errC && v != accC

/-- the certificate for `nr` rows and `nc` columns (parameters, so that they are computed once).
    A value that is not the number of a row (`nr ≤ v`: in particular the error and accept codes of
    an ordinary table) needs no simulation: the lookup in that row fails, which is `stop`. -/
def certTermCore (L : Nat → Nat → Option Int) (errC accC : Int) (rule : Nat → Option (Sym × Nat))
    (T : Dense) (F nr nc : Nat) : Bool :=
  decide (0 < F) &&
  simAll L errC accC rule F nc [0] &&
  (T.zipIdx.all fun rp => rp.1.all fun v =>
      decide (v < 0) || decide (nr ≤ v.toNat) || simAll L errC accC rule F nc [v.toNat, rp.2]) &&
  (T.all fun row =>
      match row[1]? with
      | none => true
      | some v => !isShift errC accC v)

/-- the certificate, for any lookup function `L` that agrees with the rows `T` -/
def certTermWith (L : Nat → Nat → Option Int) (errC accC : Int) (rule : Nat → Option (Sym × Nat))
    (T : Dense) (F : Nat) : Bool :=
  certTermCore L errC accC rule T F T.length (ncols T)

/-- the driver parameters without values: the same `L`, `errC`, `accC`, `rule` as `dparams` -/
def tparams (G : Grammar) (T : Dense) (n : Nat) : Params Unit := dparams G T n (fun _ _ => ()) ()

def certTerm (G : Grammar) (T : Dense) (n : Nat) (F : Nat) : Bool :=
  certTermWith (tparams G T n).L (tparams G T n).errC (tparams G T n).accC (tparams G T n).rule T F

/-! ## array-backed evaluator -/

def cellA (A : Array (Array Int)) (q a : Nat) : Option Int := (A[q]?).bind (fun row => row[a]?)

def ruleA (R : Array (Sym × Nat)) (r : Nat) : Option (Sym × Nat) := if r = 0 then none else R[r]?

def certTermFast (G : Grammar) (T : Dense) (n : Nat) (F : Nat) : Bool :=
  certTermWith (cellA (T.map List.toArray).toArray) (errCode n) (accCode n)
    (ruleA (G.rules.map fun rl => (rl.lhs, rl.rhs.length)).toArray) T F

end Y.Term
