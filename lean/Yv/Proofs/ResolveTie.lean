import Yv.Model.GenTab
import Yv.Gen.Resolve
/-! The pairwise resolution `Core.pairWinner` used to instantiate the table generator IS the Go text:
    `ResolveConflict`, and `UseDefaultResolveConflict` when it fails, as translated mechanically from
    LALR/Table.go into `Yv/Gen/Resolve.lean` (the loop body of `CheckAndResolveConflict`). -/
namespace Y.GT
open Core (Action)

def toGen (a : Action) : Gen.Action := ⟨a.ty, a.idx, a.precTy, a.prec⟩
def ofGen (a : Gen.Action) : Action := ⟨a.actionType, a.actionIndex, a.precType, a.prec⟩

/-- the body of `CheckAndResolveConflict`'s loop, on the functions translated from Table.go -/
def goWinner (a b : Gen.Action) : Gen.Action :=
  match Gen.resolveConflict a b with
  | .ok x => x
  | .error _ => Gen.useDefaultResolveConflict a b

def exOpt (e : Except Unit Gen.Action) : Option Action :=
  match e with
  | .ok x => some (ofGen x)
  | .error _ => none

/-- shape-independent: both sides are unfolded and the case analysis is left to `grind`, so an
    equivalent rewrite of the Go text (other nesting, `switch`, swapped comparisons) re-proves -/
theorem rc_eq_go (a b : Action) :
    Core.resolveConflict a b = exOpt (Gen.resolveConflict (toGen a) (toGen b)) := by
  obtain ⟨t1, i1, pt1, p1⟩ := a
  obtain ⟨t2, i2, pt2, p2⟩ := b
  unfold Core.resolveConflict Gen.resolveConflict toGen
  by_cases hc : (t2 == 1 && t1 == 0) = true
  · have hc' : t2 = 1 ∧ t1 = 0 := by simpa using hc
    simp only [hc, if_true]
    simp only [exOpt, ofGen]
    grind
  · have hc' : ¬ (t2 = 1 ∧ t1 = 0) := by simpa using hc
    simp only [hc]
    simp only [exOpt, ofGen]
    grind

theorem ud_eq_go (a b : Action) :
    Core.useDefault a b = ofGen (Gen.useDefaultResolveConflict (toGen a) (toGen b)) := by
  obtain ⟨t1, i1, pt1, p1⟩ := a
  obtain ⟨t2, i2, pt2, p2⟩ := b
  unfold Core.useDefault Gen.useDefaultResolveConflict toGen ofGen
  simp only [beq_iff_eq]
  grind

/-- the resolution used by the model is the translated Go text -/
theorem pairWinner_eq_go (a b : Action) :
    Core.pairWinner a b = ofGen (goWinner (toGen a) (toGen b)) := by
  unfold Core.pairWinner goWinner
  rw [rc_eq_go, ud_eq_go]
  cases Gen.resolveConflict (toGen a) (toGen b) <;> rfl

/-- the translated Go resolution, on the model's action type -/
def goRes (a b : Action) : Action := ofGen (goWinner (toGen a) (toGen b))

theorem pairWinner_eq_goRes : Core.pairWinner = goRes := by
  funext a b; exact pairWinner_eq_go a b

end Y.GT
