import Yv.Cert.CompleteX
import Yv.Model.Drive
import Yv.Proofs.CertFacts
import Yv.Proofs.DSound
/-! C02 (completeness) for the concrete driver on a certified dense table.

    1. `CompleteX` / `simX`: the completeness simulation of `Yv.Abs.Complete`, with the `reduce`
       clause restricted to user rules (the table holds *accept*, not *reduce 0*, on the completed
       start item) — sound because no right-hand side mentions the left-hand side of rule 0.
    2. `complete_of_certs`: the Bool certificates give `CompleteX G (absTab G A T) (ItOf A la)`.
    3. `sim_step` / `sim_steps`: the concrete driver follows the abstract machine on `absTab`.
    4. `complete_run`: every sentence is accepted. -/
namespace Y

/-- `Complete` with the reduce clause for user rules only -/
structure CompleteX (G : Grammar) (T : Tab) (It : Nat → Nat → Nat → Sym → Prop) : Prop where
  closure : ∀ (q r d : Nat) (b : Sym) (rl : Rule) (a : Sym) (r' : Nat) (rl' : Rule), It q r d b → G.rules[r]? = some rl →
      G.rules[r']? = some rl' → rl.rhs[d]? = some rl'.lhs →
      FirstOf G (rl.rhs.drop (d+1) ++ [b]) a → It q r' 0 a
  shift : ∀ (q r d : Nat) (b : Sym) (rl : Rule) (t : Sym), It q r d b → G.rules[r]? = some rl → rl.rhs[d]? = some t →
      G.isT t = true → ∃ p, T.act q t = .shift p ∧ It p r (d+1) b
  goto : ∀ (q r d : Nat) (b : Sym) (rl : Rule) (B : Sym), It q r d b → G.rules[r]? = some rl → rl.rhs[d]? = some B →
      G.isT B = false → ∃ p, T.goto q B = some p ∧ It p r (d+1) b
  reduce : ∀ (q r : Nat) (a : Sym) (rl : Rule), r ≠ 0 → G.rules[r]? = some rl → It q r rl.rhs.length a →
      T.act q a = .reduce r
  lookT : ∀ (q r d : Nat) (b : Sym), It q r d b → G.isT b = true

/-- grammar facts used by `simX`: left-hand sides are nonterminals, and a rule whose left-hand side
    occurs in a right-hand side is not rule 0 -/
structure GWFX (G : Grammar) : Prop where
  lhsNT : ∀ (r : Nat) (rl : Rule), G.rules[r]? = some rl → G.isT rl.lhs = false
  noStart : ∀ (r : Nat) (rl : Rule) (r' : Nat) (rl' : Rule) (d : Nat), G.rules[r]? = some rl →
      G.rules[r']? = some rl' → rl.rhs[d]? = some rl'.lhs → r' ≠ 0

/-- Main simulation lemma (`sim` with `CompleteX`): parsing the remainder `γ = rhs.drop k` of an item. -/
theorem simX (G : Grammar) (T : Tab) (It) (hG : GWFX G) (hC : CompleteX G T It) :
    ∀ (γ w : List Sym), GenL G γ w →
    ∀ (c : Cfg) (r k : Nat) (a : Sym) (rl : Rule) (v : List Sym),
    It (top c) r k a → G.rules[r]? = some rl → k ≤ rl.rhs.length → rl.rhs.drop k = γ →
    c.rest = w ++ a :: v →
    ∃ n c', steps G T n c = some c' ∧
      (∃ ext : List (Nat × Sym), c'.stack = ext ++ c.stack ∧ ext.length = γ.length) ∧
      c'.rest = a :: v ∧ It (top c') r rl.rhs.length a := by
  intro γ w h
  induction h with
  | nil =>
    intro c r k a rl v hit hr hk hdrop hrest
    have : k = rl.rhs.length := by
      have := congrArg List.length hdrop; simp at this; omega
    subst this
    exact ⟨0, c, rfl, ⟨[], by simp, rfl⟩, by simpa using hrest, hit⟩
  | tm t γ w' ht _ ih =>
    intro c r k a rl v hit hr hk hdrop hrest
    have hk' : k < rl.rhs.length := by
      have := congrArg List.length hdrop; simp at this; omega
    have hx : rl.rhs[k]? = some t := by
      have := congrArg (·[0]?) hdrop; simpa using this
    have hdrop' : rl.rhs.drop (k+1) = γ := by
      have := congrArg (List.drop 1) hdrop; simpa using this
    obtain ⟨p, hact, hp⟩ := hC.shift (top c) r k a rl t hit hr hx ht
    let c1 : Cfg := { c with stack := (p, t) :: c.stack, rest := w' ++ a :: v }
    have hs1 : steps G T 1 c = some c1 := by
      simp at hrest
      simp [steps, step, hrest, hact, c1]
    have htop1 : top c1 = p := top_cons c1 p t c.stack rfl
    obtain ⟨n, c', hs, ⟨ext, hext, hlen⟩, hr', hit'⟩ :=
      ih c1 r (k+1) a rl v (by rw [htop1]; exact hp) hr (by omega) hdrop' rfl
    refine ⟨1 + n, c', steps_add G T 1 n c c1 c' hs1 hs, ⟨ext ++ [(p, t)], ?_, ?_⟩, hr', hit'⟩
    · simp [hext, c1]
    · simp [hlen]
  | nt r' rl' γ u w' hr' _ _ ih1 ih2 =>
    intro c r k a rl v hit hr hk hdrop hrest
    have hk' : k < rl.rhs.length := by
      have := congrArg List.length hdrop; simp at this; omega
    have hx : rl.rhs[k]? = some rl'.lhs := by
      have := congrArg (·[0]?) hdrop; simpa using this
    have hdrop' : rl.rhs.drop (k+1) = γ := by
      have := congrArg (List.drop 1) hdrop; simpa using this
    have hr'0 : r' ≠ 0 := hG.noStart r rl r' rl' k hr hr' hx
    -- the token that follows the yield of this nonterminal
    have haT : G.isT a = true := hC.lookT _ _ _ _ hit
    obtain ⟨a1, v1, hw1⟩ : ∃ a1 v1, w' ++ a :: v = a1 :: v1 := by
      cases w' with
      | nil => exact ⟨a, v, rfl⟩
      | cons x xs => exact ⟨x, xs ++ a :: v, rfl⟩
    have hfirst : FirstOf G (rl.rhs.drop (k+1) ++ [a]) a1 := by
      rw [hdrop']
      rename_i hγ
      have := GenL.snocT hγ a haT
      cases w' with
      | nil => simp at hw1; obtain ⟨rfl, _⟩ := hw1; exact ⟨[], by simpa using this⟩
      | cons x xs => simp at hw1; obtain ⟨rfl, _⟩ := hw1; exact ⟨xs ++ [a], by simpa using this⟩
    have hit0 : It (top c) r' 0 a1 := hC.closure (top c) r k a rl a1 r' rl' hit hr hr' hx hfirst
    -- parse the body of rule r'
    obtain ⟨n1, c1, hs1, ⟨ext1, hext1, hlen1⟩, hrest1, hit1⟩ :=
      ih1 c r' 0 a1 rl' v1 hit0 hr' (by omega) (by simp) (by rw [hrest, List.append_assoc, hw1])
    -- reduce by r'
    have hact : T.act (top c1) a1 = .reduce r' := hC.reduce _ _ _ _ hr'0 hr' hit1
    obtain ⟨p, hgoto, hp⟩ := hC.goto (top c) r k a rl rl'.lhs hit hr hx (hG.lhsNT r' rl' hr')
    let c2 : Cfg := { c1 with stack := (p, rl'.lhs) :: c.stack, reds := r' :: c1.reds }
    have hs2 : steps G T 1 c1 = some c2 := by
      have := step_reduce G T c1 a1 v1 r' rl' ext1 c.stack p hrest1 hact hr' hext1 hlen1 hgoto
      simp [steps, this, c2]
    have htop2 : top c2 = p := top_cons c2 p rl'.lhs c.stack rfl
    have hrest2 : c2.rest = w' ++ a :: v := by simp [c2, hrest1, hw1]
    obtain ⟨n3, c3, hs3, ⟨ext3, hext3, hlen3⟩, hrest3, hit3⟩ :=
      ih2 c2 r (k+1) a rl v (by rw [htop2]; exact hp) hr (by omega) hdrop' hrest2
    refine ⟨(n1 + 1) + n3, c3, ?_, ⟨ext3 ++ [(p, rl'.lhs)], ?_, ?_⟩, hrest3, hit3⟩
    · exact steps_add G T (n1+1) n3 c c2 c3 (steps_add G T n1 1 c c1 c2 hs1 hs2) hs3
    · simp [hext3, c2]
    · simp [hlen3]

/-! ## From the Bool certificates to `CompleteX` -/

/-- the lookahead-annotated items of the data: `⟨r,d⟩` is an item of state `q` and `b` is one of its
    stored lookaheads -/
def ItOf (A : Auto) (la : LATab) (q r d : Nat) (b : Sym) : Prop :=
  q < A.n ∧ (⟨r, d⟩ : Item) ∈ A.its q ∧ b ∈ la.get q ⟨r, d⟩

theorem gwfx_of_gok {G : Grammar} {nS : Nat} (h : GOK G nS) : GWFX G := by
  obtain ⟨rl0, hr0, hl0, _⟩ := h.r0
  refine ⟨?_, ?_⟩
  · intro r rl hr
    cases r with
    | zero =>
      rw [hr0] at hr; cases hr
      rw [hl0]; rfl
    | succ k => exact h.lhsNT _ _ hr (by omega)
  · intro r rl r' rl' d hr hr' hx h0
    subst h0
    rw [hr0] at hr'; cases hr'
    rw [hl0] at hx
    have := (h.rhs_ok r rl hr 0 (List.mem_of_getElem? hx)).1
    exact absurd this (by decide)

theorem gwf_of_gok {G : Grammar} {nS : Nat} (h : GOK G nS) : GWF G := ⟨(gwfx_of_gok h).lhsNT⟩

theorem actOf_shift {n p : Nat} (hp : p < n) (h0 : p ≠ 0) : actOf n (some (p : Int)) = .shift p := by
  have h1 : (p : Int) ≠ errCode n := by unfold errCode; omega
  have h2 : (p : Int) ≠ accCode n := by unfold accCode; omega
  simp [actOf, h1, h2, h0]

theorem actOf_reduce {n r : Nat} : actOf n (some (-(r : Int))) = .reduce r := by
  have h1 : -(r : Int) ≠ errCode n := by unfold errCode; omega
  have h2 : -(r : Int) ≠ accCode n := by unfold accCode; omega
  simp [actOf, h1, h2]

theorem actOf_acc (n : Nat) : actOf n (some (accCode n)) = .accept := by
  have h1 : accCode n ≠ errCode n := by unfold errCode accCode; omega
  simp [actOf, h1]

theorem gotoOf_nat {n p : Nat} (hp : p < n) : gotoOf n (some (p : Int)) = some p := by
  have h1 : (p : Int) ≠ errCode n := by unfold errCode; omega
  simp [gotoOf, h1]

theorem laTerm_ok {G : Grammar} {A : Auto} {la : LATab} (h : laTerm G A la = true)
    {q : Nat} (hq : q < A.n) {it : Item} (hit : it ∈ A.its q) {b : Sym} (hb : b ∈ la.get q it) :
    G.isT b = true := by
  unfold laTerm at h
  exact List.all_eq_true.mp (List.all_eq_true.mp (all_range h q hq) it hit) b hb

theorem certC_ok {G : Grammar} {A : Auto} {la : LATab} {T : Dense} (h : certC G A la T = true)
    {q : Nat} (hq : q < A.n) {it : Item} (hit : it ∈ A.its q) :
    ((G.rhsOf it.r)[it.d]? = none → ∀ a ∈ la.get q it,
        cell T q a = some (if it.r = 0 then accCode A.n else -(it.r : Int))) ∧
    (∀ X, (G.rhsOf it.r)[it.d]? = some X → G.isT X = true →
        ∃ p, A.goto q X = some p ∧ cell T q X = some (p : Int)) := by
  unfold certC at h
  have h1 := List.all_eq_true.mp (all_range h q hq) it hit
  refine ⟨fun hn a ha => ?_, fun X hX hT => ?_⟩
  · simp only [hn, List.all_eq_true, beq_iff_eq] at h1
    exact h1 a ha
  · simp only [hX, hT, if_true] at h1
    cases hg : A.goto q X with
    | none => simp [hg] at h1
    | some p =>
      simp only [hg, beq_iff_eq] at h1
      exact ⟨p, rfl, h1⟩

/-- the certificates give the completeness facts for the decoded table -/
theorem complete_of_certs {G : Grammar} {nS : Nat} {A : Auto} {T : Dense} {S : Sets} {la : LATab}
    (hA : AOK G A) (hT : TOK G nS A T)
    (hS : setsClosed G S = true) (hL : laClosed G S (toLAData A la) = true)
    (hC : certC G A la T = true) (hLT : laTerm G A la = true) :
    CompleteX G (absTab G A T) (ItOf A la) := by
  refine ⟨?_, ?_, ?_, ?_, ?_⟩
  · -- closure
    intro q r d b rl a r' rl' ⟨hq, hit, hb⟩ hr hr' hx hF
    have := (laClosed_item (D := toLAData A la) hL hq hit (it := ⟨r, d⟩) hr hx).2 r' rl' hr' rfl
    exact ⟨hq, this.1, this.2 b hb a (firstOf_sets G S hS _ a hF)⟩
  · -- shift
    intro q r d b rl t ⟨hq, hit, hb⟩ hr hx ht
    have hx' : (G.rhsOf r)[d]? = some t := by rw [D.rhsOf_eq hr]; exact hx
    obtain ⟨p, hg, hcell⟩ := (certC_ok hC hq hit).2 t hx' ht
    obtain ⟨hp, hp0, _⟩ := hA.edge q hq t p hg
    have := (laClosed_item (D := toLAData A la) hL hq hit (it := ⟨r, d⟩) hr hx).1 p hg
    refine ⟨p, ?_, hp, this.2.1, this.2.2 b hb⟩
    show actOf A.n (cell T q t) = .shift p
    rw [hcell]; exact actOf_shift hp hp0
  · -- goto
    intro q r d b rl B ⟨hq, hit, hb⟩ hr hx hB
    have hx' : (G.rhsOf r)[d]? = some B := by rw [D.rhsOf_eq hr]; exact hx
    obtain ⟨p, hg, _⟩ := hA.gotoC q hq _ hit B hx'
    have hcell := hT.ntEdge q hq B p hg hB
    obtain ⟨hp, _, _⟩ := hA.edge q hq B p hg
    have := (laClosed_item (D := toLAData A la) hL hq hit (it := ⟨r, d⟩) hr hx).1 p hg
    refine ⟨p, ?_, hp, this.2.1, this.2.2 b hb⟩
    show gotoOf A.n (cell T q B) = some p
    rw [hcell]; exact gotoOf_nat hp
  · -- reduce
    intro q r a rl hr0 hr ⟨hq, hit, ha⟩
    have hn : (G.rhsOf r)[rl.rhs.length]? = none := by rw [D.rhsOf_eq hr]; simp
    have hcell := (certC_ok hC hq hit).1 hn a ha
    simp only [hr0, if_false] at hcell
    show actOf A.n (cell T q a) = .reduce r
    rw [hcell]; exact actOf_reduce
  · -- lookT
    intro q r d b ⟨hq, hit, hb⟩
    exact laTerm_ok hLT hq hit hb

end Y

/-! ## The concrete driver follows the abstract machine on `absTab` -/
namespace Y.D
open Y
variable {V : Type}

theorem step_shift' (P : Params V) (c : Cfg V) (a : Int)
    (hne : c.stack ≠ []) (hL : P.L (stTop c.stack) (look P.eofVal c).1 = some a)
    (h1 : a ≠ P.errC) (h2 : a ≠ P.accC) (h3 : 0 < a) :
    step P c = .next { c with
      stack := ⟨a.toNat, (look P.eofVal c).1, (look P.eofVal c).2⟩ :: c.stack,
      rest := c.rest.tail, req := c.req + 1,
      trace := .shift (look P.eofVal c).1 a.toNat :: c.trace } := by
  cases hst : c.stack with
  | nil => exact absurd hst hne
  | cons top below =>
    rw [hst] at hL
    unfold step; rw [hst]
    simp only [stTop] at hL
    simp only [hL, h1, h2, h3, if_false, if_true]

theorem step_reduce' (P : Params V) (c : Cfg V) (a : Int) (lhs : Sym) (n : Nat)
    (under : Entry V) (rest' : List (Entry V)) (g : Int)
    (hL : P.L (stTop c.stack) (look P.eofVal c).1 = some a)
    (h1 : a ≠ P.errC) (h2 : a ≠ P.accC) (h3 : ¬ 0 < a)
    (hrule : P.rule (-a).toNat = some (lhs, n)) (hlen : n + 1 ≤ c.stack.length)
    (hdrop : c.stack.drop n = under :: rest') (hg : P.L under.st lhs = some g) (hg0 : ¬ g < 0) :
    step P c = .next { c with
      stack := ⟨g.toNat, lhs, P.sem (-a).toNat ((c.stack.take n).reverse.map Entry.val)⟩ :: under :: rest',
      reds := (-a).toNat :: c.reds,
      trace := .shift lhs g.toNat :: .reduce (look P.eofVal c).1 (-a).toNat g.toNat :: c.trace } := by
  cases hst : c.stack with
  | nil => rw [hst] at hlen; simp at hlen
  | cons top below =>
    rw [hst] at hL hdrop hlen
    have hnb : n ≤ below.length := by simp at hlen; omega
    unfold step; rw [hst]
    simp only [stTop] at hL
    simp only [hL, h1, h2, h3, if_false, hrule, hnb, if_true, hdrop, hg, hg0]

theorem step_acc' (P : Params V) (c : Cfg V)
    (hne : c.stack ≠ []) (hL : P.L (stTop c.stack) (look P.eofVal c).1 = some P.accC)
    (h1 : P.accC ≠ P.errC) : ∃ v, step P c = .acc v c := by
  cases hst : c.stack with
  | nil => exact absurd hst hne
  | cons top below =>
    rw [hst] at hL
    refine ⟨top.val, ?_⟩
    unfold step; rw [hst]
    simp only [stTop] at hL
    simp only [hL, h1, if_false, if_true]

/-- the (state, symbol) pair of a concrete stack entry -/
def pr (e : Entry V) : Nat × Sym := (e.st, e.sym)

/-- a concrete stack (bottom entry with state 0 included) abstracts to the pairs above the bottom -/
def AbsStk (st : List (Entry V)) (as : List (Nat × Sym)) : Prop :=
  ∃ ents bot, st = ents ++ [bot] ∧ bot.st = 0 ∧ as = ents.map pr

theorem AbsStk.top {st : List (Entry V)} {as : List (Nat × Sym)} (h : AbsStk st as) :
    stTop st = topOf as := by
  obtain ⟨ents, bot, rfl, hb, rfl⟩ := h
  cases ents with
  | nil => simp [stTop, topOf, hb]
  | cons e es => simp [stTop, topOf, pr]

theorem AbsStk.push {st : List (Entry V)} {as : List (Nat × Sym)} (h : AbsStk st as) (e : Entry V) :
    AbsStk (e :: st) ((e.st, e.sym) :: as) := by
  obtain ⟨ents, bot, rfl, hb, rfl⟩ := h
  exact ⟨e :: ents, bot, rfl, hb, rfl⟩

theorem AbsStk.length {st : List (Entry V)} {as : List (Nat × Sym)} (h : AbsStk st as) :
    st.length = as.length + 1 := by
  obtain ⟨ents, bot, rfl, hb, rfl⟩ := h
  simp

theorem AbsStk.drop {st : List (Entry V)} {as : List (Nat × Sym)} (h : AbsStk st as) (n : Nat)
    (hn : n ≤ as.length) : AbsStk (st.drop n) (as.drop n) := by
  obtain ⟨ents, bot, rfl, hb, rfl⟩ := h
  refine ⟨ents.drop n, bot, ?_, hb, by simp [List.map_drop]⟩
  rw [List.drop_append_of_le_length (by simpa using hn)]

theorem AbsStk.cons {st : List (Entry V)} {as : List (Nat × Sym)} (h : AbsStk st as) :
    ∃ e st', st = e :: st' := by
  have := h.length
  cases st with
  | nil => simp at this
  | cons e st' => exact ⟨e, st', rfl⟩

/-- abstraction of a concrete configuration: same states and symbols above the bottom entry, the
    remaining symbols followed by the end marker, the same reductions -/
structure Abs (cc : Cfg V) (c : Y.Cfg) : Prop where
  stk : AbsStk cc.stack c.stack
  rest : c.rest = cc.rest.map Prod.fst ++ [1]
  reds : c.reds = cc.reds

theorem look_abs {ev : V} {cc : Cfg V} {rest : List Sym} {a : Sym} {v : List Sym}
    (h : rest = cc.rest.map Prod.fst ++ [1]) (hr : rest = a :: v) :
    (look ev cc).1 = a ∧ (a ≠ 1 → v = cc.rest.tail.map Prod.fst ++ [1]) := by
  rw [hr] at h
  cases hc : cc.rest with
  | nil =>
    rw [hc] at h
    simp at h
    rw [look_nil hc]
    exact ⟨h.1.symm, fun hne => absurd h.1 hne⟩
  | cons x xs =>
    rw [hc] at h
    simp at h
    rw [look_cons hc]
    exact ⟨h.1.symm, fun _ => by simpa using h.2⟩

end Y.D

namespace Y

theorem step_shift_eq (G : Grammar) (T : Tab) (c : Cfg) (a : Sym) (v : List Sym) (p : Nat)
    (hrest : c.rest = a :: v) (hact : T.act (top c) a = .shift p) :
    step G T c = .next { c with stack := (p, a) :: c.stack, rest := v } := by
  simp [step, hrest, hact]

theorem step_reduce_inv (G : Grammar) (T : Tab) (c c' : Cfg) (a : Sym) (v : List Sym) (r : Nat)
    (hrest : c.rest = a :: v) (hact : T.act (top c) a = .reduce r) (hs : step G T c = .next c') :
    ∃ rl p, G.rules[r]? = some rl ∧ rl.rhs.length ≤ c.stack.length ∧
      T.goto (topOf (c.stack.drop rl.rhs.length)) rl.lhs = some p ∧
      c' = { c with stack := (p, rl.lhs) :: c.stack.drop rl.rhs.length, reds := r :: c.reds } := by
  unfold step at hs
  rw [hrest] at hs
  simp only [hact] at hs
  split at hs
  · cases hs
  · rename_i rl hrl
    split at hs
    · rename_i hlen
      split at hs
      · cases hs
      · rename_i p hg
        cases hs
        exact ⟨rl, p, hrl, hlen, hg, by rw [hrest]⟩
    · cases hs

theorem gotoOf_inv {n : Nat} {x : Option Int} {p : Nat} (h : gotoOf n x = some p) :
    ∃ g, x = some g ∧ ¬ g < 0 ∧ p = g.toNat := by
  cases x with
  | none => simp [gotoOf] at h
  | some g =>
    unfold gotoOf at h
    by_cases h1 : g = errCode n
    · simp [h1] at h
    · by_cases h2 : g < 0
      · simp [h1, h2] at h
      · simp [h1, h2] at h
        exact ⟨g, rfl, h2, h.symm⟩

end Y

namespace Y.D
open Y
variable {V : Type}

/-- one abstract step on the decoded table is matched by one step of the concrete driver -/
theorem sim_step {G : Grammar} {nS : Nat} {A : Auto} {T : Dense} (sem : Nat → List V → V) (eofVal : V)
    (hT : TOK G nS A T) {cc : Cfg V} {c c' : Y.Cfg}
    (ha : Abs cc c) (hs : Y.step G (absTab G A T) c = .next c') :
    ∃ cc', step (dparams G T A.n sem eofVal) cc = .next cc' ∧ Abs cc' c' := by
  obtain ⟨hstk, hrest, hreds⟩ := ha
  cases hr : c.rest with
  | nil => simp [Y.step, hr] at hs
  | cons a v =>
  obtain ⟨hlook, htail⟩ := look_abs (ev := eofVal) hrest hr
  have htop : stTop cc.stack = Y.top c := hstk.top
  obtain ⟨e0, st0, hst0⟩ := hstk.cons
  have hne : cc.stack ≠ [] := by rw [hst0]; simp
  cases hcell : cell T (Y.top c) a with
  | none =>
    have hact : (absTab G A T).act (Y.top c) a = .error := by simp [absTab, actOf, hcell]
    simp [Y.step, hr, hact] at hs
  | some x =>
  have hL : (dparams G T A.n sem eofVal).L (stTop cc.stack) (look (dparams G T A.n sem eofVal).eofVal cc).1
      = some x := by
    show cell T (stTop cc.stack) (look eofVal cc).1 = some x
    rw [htop, hlook]; exact hcell
  by_cases he : x = errCode A.n
  · have hact : (absTab G A T).act (Y.top c) a = .error := by simp [absTab, actOf, hcell, he]
    simp [Y.step, hr, hact] at hs
  by_cases hacc : x = accCode A.n
  · have hact : (absTab G A T).act (Y.top c) a = .accept := by
      subst hacc; simp [absTab, actOf, hcell, he]
    simp [Y.step, hr, hact] at hs
  by_cases hpos : 0 < x
  · have hact : (absTab G A T).act (Y.top c) a = .shift x.toNat := by
      simp [absTab, actOf, hcell, he, hacc, hpos]
    rw [step_shift_eq G _ c a v _ hr hact] at hs
    cases hs
    have ha1 : a ≠ 1 := (hT.shift _ _ _ hcell he hacc hpos).1
    refine ⟨_, step_shift' _ cc x hne hL he hacc hpos, ?_, ?_, hreds⟩
    · have := hstk.push ⟨x.toNat, (look eofVal cc).1, (look eofVal cc).2⟩
      show AbsStk (⟨x.toNat, (look eofVal cc).1, (look eofVal cc).2⟩ :: cc.stack) ((x.toNat, a) :: c.stack)
      rw [← hlook]; exact this
    · exact htail ha1
  · have hact : (absTab G A T).act (Y.top c) a = .reduce (-x).toNat := by
      simp [absTab, actOf, hcell, he, hacc, hpos]
    obtain ⟨rl, p, hrl, hlen, hgoto, rfl⟩ := step_reduce_inv G _ c c' a v _ hr hact hs
    have hr1 : 1 ≤ (-x).toNat := (hT.red _ _ _ hcell he hacc hpos).1
    have hrule : (dparams G T A.n sem eofVal).rule (-x).toNat = some (rl.lhs, rl.rhs.length) := by
      have : (-x).toNat ≠ 0 := by omega
      simp [dparams, this, hrl]
    have hd := hstk.drop rl.rhs.length hlen
    obtain ⟨under, rest', hdrop⟩ := hd.cons
    have hut : under.st = topOf (c.stack.drop rl.rhs.length) := by
      have := hd.top
      rw [hdrop] at this
      simpa [stTop] using this
    obtain ⟨g, hg, hg0, hp⟩ := gotoOf_inv (show gotoOf A.n (cell T _ rl.lhs) = some p from hgoto)
    rw [← hut] at hg
    subst hp
    have hlen' : rl.rhs.length + 1 ≤ cc.stack.length := by rw [hstk.length]; omega
    refine ⟨_, step_reduce' _ cc x rl.lhs rl.rhs.length under rest' g hL he hacc hpos hrule hlen' hdrop hg hg0,
      ?_, hrest, ?_⟩
    · rw [hdrop] at hd
      have := hd.push ⟨g.toNat, rl.lhs,
        sem (-x).toNat ((cc.stack.take rl.rhs.length).reverse.map Entry.val)⟩
      exact this
    · show (-x).toNat :: c.reds = (-x).toNat :: cc.reds
      rw [hreds]

end Y.D

namespace Y.D
open Y
variable {V : Type}

/-- abstract accept ↦ concrete `.acc`: in a configuration whose abstract lookahead cell holds the
    accept code the concrete driver accepts -/
theorem acc_step {G : Grammar} {A : Auto} {T : Dense} (sem : Nat → List V → V) (eofVal : V)
    {cc : Cfg V} {c : Y.Cfg} {a : Sym} {v : List Sym} (ha : Abs cc c) (hr : c.rest = a :: v)
    (hcell : cell T (Y.top c) a = some (accCode A.n)) :
    ∃ val, step (dparams G T A.n sem eofVal) cc = .acc val cc := by
  obtain ⟨hstk, hrest, _⟩ := ha
  obtain ⟨hlook, _⟩ := look_abs (ev := eofVal) hrest hr
  obtain ⟨e0, st0, hst0⟩ := hstk.cons
  have hne : cc.stack ≠ [] := by rw [hst0]; simp
  refine step_acc' _ cc hne ?_ ?_
  · show cell T (stTop cc.stack) (look eofVal cc).1 = some (accCode A.n)
    rw [hstk.top, hlook]; exact hcell
  · show accCode A.n ≠ errCode A.n
    unfold accCode errCode; omega

/-- `n` abstract steps on the decoded table are matched by `n` steps of the concrete run -/
theorem sim_steps {G : Grammar} {nS : Nat} {A : Auto} {T : Dense} (sem : Nat → List V → V) (eofVal : V)
    (hT : TOK G nS A T) :
    ∀ (n : Nat) (c c' : Y.Cfg) (cc : Cfg V), Abs cc c → steps G (absTab G A T) n c = some c' →
      ∃ cc', Abs cc' c' ∧
        ∀ fuel, run (dparams G T A.n sem eofVal) (n + fuel) cc = run (dparams G T A.n sem eofVal) fuel cc' := by
  intro n
  induction n with
  | zero =>
    intro c c' cc ha hs
    change some c = some c' at hs
    cases hs
    exact ⟨cc, ha, fun fuel => by simp⟩
  | succ k ih =>
    intro c c' cc ha hs
    unfold steps at hs
    split at hs
    · rename_i c1 hs1
      obtain ⟨cc1, hstep, ha1⟩ := sim_step sem eofVal hT ha hs1
      obtain ⟨cc', ha', hrun⟩ := ih c1 c' cc1 ha1 hs
      refine ⟨cc', ha', fun fuel => ?_⟩
      have : k + 1 + fuel = (k + fuel) + 1 := by omega
      rw [this, ← hrun fuel]
      simp [run, hstep]
    · cases hs

theorem init_abs (bv : V) (w : List (Sym × V)) :
    Abs (init bv w) { stack := [], rest := w.map Prod.fst ++ [1], reds := [] } :=
  ⟨⟨[], ⟨0, 1, bv⟩, rfl, rfl, rfl⟩, rfl, rfl⟩

/-- C02 on Prop-level certificate facts: every sentence (a terminal string derived from the body of
    rule 0) is accepted by the concrete driver -/
theorem complete_run {G : Grammar} {nS : Nat} {A : Auto} {T : Dense} {S : Sets} {la : LATab}
    (sem : Nat → List V → V) (eofVal bv : V)
    (hG : GOK G nS) (hA : AOK G A) (hT : TOK G nS A T)
    (hS : setsClosed G S = true) (hL : laClosed G S (toLAData A la) = true)
    (hC : certC G A la T = true) (hLT : laTerm G A la = true)
    (w : List (Sym × V)) (rl0 : Rule) (h0 : G.rules[0]? = some rl0)
    (hw : GenL G rl0.rhs (w.map Prod.fst)) :
    ∃ fuel v c', run (dparams G T A.n sem eofVal) fuel (init bv w) = .accept v c' := by
  have hCX := complete_of_certs hA hT hS hL hC hLT
  let c0 : Y.Cfg := { stack := [], rest := w.map Prod.fst ++ [1], reds := [] }
  have hit0 : ItOf A la (Y.top c0) 0 0 1 := by
    have h := hL
    simp only [laClosed, Bool.and_eq_true] at h
    show ItOf A la 0 0 0 1
    refine ⟨hA.npos, ?_, ?_⟩
    · have := h.1.1; simpa [toLAData] using this
    · have := h.1.2; simpa [toLAData] using this
  obtain ⟨n, c', hsteps, _, hrest', hit'⟩ :=
    simX G (absTab G A T) (ItOf A la) (gwfx_of_gok hG) hCX rl0.rhs (w.map Prod.fst) hw
      c0 0 0 1 rl0 [] hit0 h0 (by omega) (by simp) rfl
  obtain ⟨hq, hit, hla⟩ := hit'
  have hn : (G.rhsOf ({ r := 0, d := rl0.rhs.length } : Item).r)[({ r := 0, d := rl0.rhs.length } : Item).d]? = none := by
    show (G.rhsOf 0)[rl0.rhs.length]? = none
    rw [rhsOf_eq h0]; simp
  have hcell := (certC_ok hC hq hit).1 hn 1 hla
  simp only [if_true] at hcell
  obtain ⟨cc', ha', hrun⟩ := sim_steps sem eofVal hT n c0 c' (init bv w) (init_abs bv w) hsteps
  obtain ⟨val, hacc⟩ := acc_step (G := G) sem eofVal ha' hrest' hcell
  refine ⟨n + 1, val, cc', ?_⟩
  rw [hrun 1]
  simp [run, hacc]

end Y.D
