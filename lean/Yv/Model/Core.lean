/-! Prototype: executable mirror of the core pipeline — LR(0) collection with the implementation's
    numbering, LALR(1) lookaheads as a propagation fixpoint, conflict resolution, dense table. -/
namespace Core

structure Rule where
  lhs : Nat
  rhs : Array Nat
  precSym : Int          -- symbol id carrying the rule's precedence, or -1
deriving Repr, Inhabited

structure Gram where
  nSyms : Nat
  nT : Nat               -- terminals are 1..nT
  prec : Array Int       -- per symbol: precedence level or -1
  assoc : Array Int      -- per symbol: 0 left, 1 right, 2 none
  rules : Array Rule

def Gram.isNT (g : Gram) (x : Nat) : Bool := x == 0 || x > g.nT

abbrev Item := Nat × Nat   -- (rule, dot)

def itemLe (a b : Item) : Bool := a.1 < b.1 || (a.1 == b.1 && a.2 ≤ b.2)

def Gram.afterDot (g : Gram) (it : Item) : Option Nat :=
  match g.rules[it.1]? with
  | some r => r.rhs[it.2]?
  | none => none

/-- ComputeIClosure: add `B → ·γ` for every item with the nonterminal B after the dot, to a fixpoint,
    then sort by (rule, dot). -/
def closureLoop (g : Gram) : Nat → List Item → List Item → List Item
  | 0, _, acc => acc
  | _, [], acc => acc
  | fuel+1, it :: todo, acc =>
    match g.afterDot it with
    | some b =>
      if g.isNT b then
        let news := (List.range g.rules.size).filterMap fun ri =>
          match g.rules[ri]? with
          | some r => if r.lhs == b && !(acc.contains (ri, 0)) then some (ri, 0) else none
          | none => none
        closureLoop g fuel (todo ++ news) (acc ++ news)
      else closureLoop g fuel todo acc
    | none => closureLoop g fuel todo acc

def closure (g : Gram) (kernel : List Item) : List Item :=
  let k := kernel.eraseDups
  (closureLoop g (g.rules.size + k.length + 1) k k).mergeSort itemLe

/-- ComputeGotoItemNoneRec, first loop: successor kernels in order of first occurrence of the symbol -/
def gotoKernels (g : Gram) (items : List Item) : List (Nat × List Item) :=
  items.foldl (fun acc it =>
    match g.afterDot it with
    | some x =>
      let adv : Item := (it.1, it.2 + 1)
      if acc.any (·.1 == x) then acc.map (fun (y, k) => if y == x then (y, k ++ [adv]) else (y, k))
      else acc ++ [(x, [adv])]
    | none => acc) []

structure Auto where
  states : Array (List Item)
  gotos : Array (List (Nat × Nat))     -- per state: (symbol, target) in GoTo order
deriving Repr

def findState (states : Array (List Item)) (its : List Item) : Option Nat :=
  (List.range states.size).find? (fun i => states[i]! == its)

/-- ComputeAllGoto: worklist over state indices, cap at 2000 states -/
def buildLoop (g : Gram) : Nat → Nat → Auto → Option Auto
  | 0, _, a => some a
  | fuel+1, i, a =>
    if i ≥ a.states.size then some a
    else
      let ks := gotoKernels g a.states[i]!
      let (states, gl) := ks.foldl (fun (acc : Array (List Item) × List (Nat × Nat)) (x, k) =>
        let cl := closure g k
        match findState acc.1 cl with
        | some j => (acc.1, acc.2 ++ [(x, j)])
        | none => (acc.1.push cl, acc.2 ++ [(x, acc.1.size)])) (a.states, [])
      if states.size ≥ 2000 then none
      else buildLoop g fuel (i + 1) { states := states, gotos := a.gotos.push gl }

def buildLR0 (g : Gram) : Option Auto :=
  buildLoop g 2001 0 { states := #[closure g [(0, 0)]], gotos := #[] }

/-! ### nullable / first (fuel + stability) -/

def iter {α : Type} [BEq α] (f : α → α) : Nat → α → Option α
  | 0, _ => none
  | n+1, x => let y := f x; if y == x then some x else iter f n y

def nullableStep (g : Gram) (nl : Array Bool) : Array Bool :=
  g.rules.foldl (fun nl r => if r.rhs.all (fun s => nl[s]!) then nl.set! r.lhs true else nl) nl

def insertSorted (x : Nat) : List Nat → List Nat
  | [] => [x]
  | y :: ys => if x < y then x :: y :: ys else if x == y then y :: ys else y :: insertSorted x ys

def unionSorted (a b : List Nat) : List Nat := a.foldl (fun acc x => insertSorted x acc) b

/-- FIRST of a symbol sequence followed by the lookahead set `la` -/
def firstSeq (g : Gram) (nl : Array Bool) (first : Array (List Nat)) : List Nat → List Nat → List Nat
  | [], la => la
  | s :: rest, la =>
    let f := first[s]!
    if nl[s]! then unionSorted f (firstSeq g nl first rest la) else f

def firstStep (g : Gram) (nl : Array Bool) (first : Array (List Nat)) : Array (List Nat) :=
  g.rules.foldl (fun first r =>
    first.set! r.lhs (unionSorted (firstSeq g nl first r.rhs.toList []) first[r.lhs]!)) first

/-! ### LALR(1) lookaheads: propagation fixpoint over the LR(0) automaton -/

abbrev LATab := Array (List (Item × List Nat))     -- per state: item ↦ sorted lookahead list

def laGet (t : LATab) (q : Nat) (it : Item) : List Nat :=
  match (t[q]!).find? (·.1 == it) with
  | some (_, l) => l
  | none => []

def laAdd (t : LATab) (q : Nat) (it : Item) (xs : List Nat) : LATab :=
  t.set! q ((t[q]!).map fun (i, l) => if i == it then (i, unionSorted xs l) else (i, l))

def laStep (g : Gram) (a : Auto) (nl : Array Bool) (first : Array (List Nat)) (t : LATab) : LATab :=
  (List.range a.states.size).foldl (fun t q =>
    (a.states[q]!).foldl (fun t it =>
      match g.afterDot it with
      | none => t
      | some x =>
        let mine := laGet t q it
        -- goto propagation
        let t := match (a.gotos[q]!).find? (·.1 == x) with
          | some (_, p) => laAdd t p (it.1, it.2 + 1) mine
          | none => t
        -- closure propagation
        if g.isNT x then
          let beta := ((g.rules[it.1]!).rhs.toList.drop (it.2 + 1))
          let fs := firstSeq g nl first beta mine
          (List.range g.rules.size).foldl (fun t ri =>
            if (g.rules[ri]!).lhs == x then laAdd t q (ri, 0) fs else t) t
        else t) t) t

def lalr (g : Gram) (a : Auto) : Option LATab :=
  let nl0 : Array Bool := Array.replicate g.nSyms false
  match iter (nullableStep g) (g.rules.size + 2) nl0 with
  | none => none
  | some nl =>
    let f0 : Array (List Nat) := (Array.range g.nSyms).map fun s => if g.isNT s then [] else [s]
    match iter (firstStep g nl) (g.nSyms * g.nSyms + 2) f0 with
    | none => none
    | some first =>
      let t0 : LATab := a.states.map fun its => its.map fun it => (it, [])
      let t0 := laAdd t0 0 (0, 0) [1]
      iter (laStep g a nl first) (a.states.size * g.nSyms * 4 + 10) t0

/-! ### conflict resolution and the dense table -/

structure Action where
  ty : Int        -- 0 shift, 1 reduce, 2 error
  idx : Int
  precTy : Int
  prec : Int
deriving Repr, BEq

def resolveConflict (a1 a2 : Action) : Option Action :=
  let (f, s) := if a2.ty == 1 && a1.ty == 0 then (a2, a1) else (a1, a2)
  if f.prec == -1 || s.prec == -1 then none
  else if f.prec > s.prec then some f
  else if f.prec == s.prec then
    if f.precTy == 2 || s.precTy == 2 then some ⟨2, 0, 2, f.prec⟩
    else if f.precTy == 0 then some f
    else if f.precTy == 1 then some s
    else none
  else some s

def useDefault (a1 a2 : Action) : Action :=
  if a1.ty == 0 then a1 else if a2.ty == 0 then a2
  else if a1.idx < a2.idx then a2 else a1      -- with the F4 repair: the smaller rule number wins

def pairWinner (a b : Action) : Action :=
  match resolveConflict a b with | some x => x | none => useDefault a b

/-- the left fold of CheckAndResolveConflict over the candidate list -/
def resolveCell : List Action → Option Action
  | [] => none
  | a :: rest => some (rest.foldl pairWinner a)

def genRow (g : Gram) (a : Auto) (t : LATab) (q : Nat) : Array Int :=
  let err : Int := a.states.size + 100
  let acc : Int := a.states.size + 200
  let shifts : List (Nat × Action) := (a.gotos[q]!).map fun (x, p) => (x, ⟨0, p, g.assoc[x]!, g.prec[x]!⟩)
  let reduces : List (Nat × Action) := (a.states[q]!).foldl (fun l it =>
    match g.rules[it.1]? with
    | some r =>
      if it.2 == r.rhs.size then
        let ps : Int := r.precSym
        let (pt, pr) : Int × Int := if ps < 0 then (2, -1) else (g.assoc[ps.toNat]!, g.prec[ps.toNat]!)
        l ++ (laGet t q it).map fun s => (s, (⟨1, -(it.1 : Int), pt, pr⟩ : Action))
      else l
    | none => l) []
  let cands := shifts ++ reduces
  (Array.range g.nSyms).map fun s =>
    match resolveCell ((cands.filter (·.1 == s)).map (·.2)) with
    | none => err
    | some w => if w.ty == 2 then err else if w.idx != 0 then w.idx else acc

/-- the candidate actions of state `q`, in the order `CheckAndResolveConflict` sees them -/
def cands (g : Gram) (a : Auto) (t : LATab) (q : Nat) : List (Nat × Action) :=
  let shifts : List (Nat × Action) := (a.gotos[q]!).map fun (x, p) => (x, ⟨0, p, g.assoc[x]!, g.prec[x]!⟩)
  let reduces : List (Nat × Action) := (a.states[q]!).foldl (fun l it =>
    match g.rules[it.1]? with
    | some r =>
      if it.2 == r.rhs.size then
        let ps : Int := r.precSym
        let (pt, pr) : Int × Int := if ps < 0 then (2, -1) else (g.assoc[ps.toNat]!, g.prec[ps.toNat]!)
        l ++ (laGet t q it).map fun s => (s, (⟨1, -(it.1 : Int), pt, pr⟩ : Action))
      else l
    | none => l) []
  shifts ++ reduces

/-- warnings printed while folding one cell: the action types of each pair that precedence cannot resolve -/
def cellWarnings : List Action → List (Int × Int)
  | [] => []
  | a :: rest =>
    (rest.foldl (fun (st : Action × List (Int × Int)) b =>
      match resolveConflict st.1 b with
      | some x => (x, st.2)
      | none => (useDefault st.1 b, st.2 ++ [(st.1.ty, b.ty)])) (a, [])).2

/-- all warnings of state `q`: (symbol, type of first, type of second) -/
def stateWarnings (g : Gram) (a : Auto) (t : LATab) (q : Nat) : List (Nat × Int × Int) :=
  let cs := cands g a t q
  (List.range g.nSyms).flatMap fun s =>
    (cellWarnings ((cs.filter (·.1 == s)).map (·.2))).map fun (x, y) => (s, x, y)

/-- number of candidate actions per cell; the grammar is LALR(1) iff no cell has two -/
def maxCands (g : Gram) (a : Auto) (t : LATab) : Nat :=
  (List.range a.states.size).foldl (fun m q =>
    let cs := cands g a t q
    (List.range g.nSyms).foldl (fun m s => max m (cs.filter (·.1 == s)).length) m) 0

/-- the nullable and FIRST tables `lalr` uses (exposed so that the driver can check them with the
    verified closedness certificate `Y.setsClosed`) -/
def sets (g : Gram) : Option (Array Bool × Array (List Nat)) :=
  let nl0 : Array Bool := Array.replicate g.nSyms false
  match iter (nullableStep g) (g.rules.size + 2) nl0 with
  | none => none
  | some nl =>
    let f0 : Array (List Nat) := (Array.range g.nSyms).map fun s => if g.isNT s then [] else [s]
    match iter (firstStep g nl) (g.nSyms * g.nSyms + 2) f0 with
    | none => none
    | some first => some (nl, first)

end Core
