-- GENERATED from Builder/GoCodeTemplate.go and Builder/GoObjectTemplate.go; do not edit
namespace Gen

def idx (l : List Int) (i : Int) : Int := if i < 0 then 0 else l.getD i.toNat 0
def len (l : List Int) : Int := (l.length : Int)

/-- the packed `Action` method of the global template -/
def actionPackedGlobal (act off chk adef gdef : List Int) (nterminals errorAction : Int) (q a : Int) : Int :=
  if (((idx off q) + a) < 0) then
    errorAction
  else
    if ((((idx off q) + a) ≥ (len chk)) ∨ ((idx chk ((idx off q) + a)) ≠ q)) then
      if (a > nterminals) then
        (idx gdef ((a - nterminals) - 1))
      else
        (idx adef q)
    else
      (idx act ((idx off q) + a))

/-- the packed `Action` method of the object template -/
def actionPackedObject (act off chk adef gdef : List Int) (nterminals errorAction : Int) (q a : Int) : Int :=
  if (((idx off q) + a) < 0) then
    errorAction
  else
    if ((((idx off q) + a) ≥ (len chk)) ∨ ((idx chk ((idx off q) + a)) ≠ q)) then
      if (a > nterminals) then
        (idx gdef ((a - nterminals) - 1))
      else
        (idx adef q)
    else
      (idx act ((idx off q) + a))

end Gen
