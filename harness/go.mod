module yharness

go 1.18

require github.com/acekingke/yaccgo v0.0.0

require github.com/awalterschulze/gographviz v2.0.3+incompatible // indirect

replace github.com/acekingke/yaccgo => /repo
