import Yv.Proofs.LAOracleFacts
/-! # C03 — the lookahead set attached to each reduction equals the LALR(1) lookahead set

`laL G nS A` (`Yv/Cert/LAOracle.lean`) is an executable oracle that computes, for the LR(0)
automaton `A` given as data, a lookahead list for every item of every state.  This file proves it
**exact**: whenever it returns a table `t` (i.e. the computed nullable/FIRST sets passed
`setsClosed` and the computed table passed `laClosed`) and the grammar passes the decidable check
`prodOK` (the end marker is a terminal; every left-hand side and every right-hand-side symbol
derives some terminal string), then

* `a ∈ t.get q it ↔ LA G A.goto q it a` — membership in the table is exactly the least solution of
  the LALR(1) propagation rules init / closure / goto over the automaton, and hence (`LA_iff`)
* `a ∈ t.get q it ↔ ∃ γ, pathr A.goto γ = some q ∧ St1 G γ it a` — exactly the union of the LR(1)
  lookaheads of `it` over all canonical LR(1) states whose access path leads to `q` (= the LR(1)
  states with the same core).

The harness compares `laLines G A t` (the lookaheads of the complete items) with the lookahead
sets the implementation attaches to its reductions.

Completeness (`←`) needs only that the table was returned and `0 < A.n`; it also yields that the
state is a state of `A` and the item an item of that state.  Soundness (`→`) needs `prodOK`
(because `FirstOf` speaks about derivable *terminal strings*) and no assumption at all on `A`. -/
namespace Y.Props
open Y

/-- the oracle's table is exactly the LALR(1) lookahead relation `LA` -/
theorem C03_oracle_exact (G : Grammar) (nS : Nat) (A : Auto) (t : LATab)
    (h : laL G nS A = some t) (hp : prodOK G nS = true) (hn : 0 < A.n)
    (q : Nat) (it : Item) (a : Sym) :
    a ∈ t.get q it ↔ LA G A.goto q it a :=
  ⟨fun ha => laL_sound h hp ha, fun hla => (laL_complete h hn hla).2.2⟩

/-- LALR(1) facts only concern states of the automaton and items of those states -/
theorem C03_oracle_range (G : Grammar) (nS : Nat) (A : Auto) (t : LATab)
    (h : laL G nS A = some t) (hp : prodOK G nS = true) (hn : 0 < A.n)
    (q : Nat) (it : Item) (a : Sym) (ha : a ∈ t.get q it) : q < A.n ∧ it ∈ A.its q :=
  have := laL_complete h hn (laL_sound h hp ha)
  ⟨this.1, this.2.1⟩

/-- the oracle's table is exactly the union of the LR(1) lookaheads over all canonical LR(1) states
    with the same access state -/
theorem C03_oracle_lr1 (G : Grammar) (nS : Nat) (A : Auto) (t : LATab)
    (h : laL G nS A = some t) (hp : prodOK G nS = true) (hn : 0 < A.n)
    (q : Nat) (it : Item) (a : Sym) :
    a ∈ t.get q it ↔ ∃ γ, pathr A.goto γ = some q ∧ St1 G γ it a :=
  (C03_oracle_exact G nS A t h hp hn q it a).trans (LA_iff G A.goto q it a)

/-- what the harness prints: every line `(q, r, las)` of `laLines` is a complete item of state `q`
    with `las` listing exactly its LALR(1) lookaheads -/
theorem C03_laLines (G : Grammar) (nS : Nat) (A : Auto) (t : LATab)
    (h : laL G nS A = some t) (hp : prodOK G nS = true) (hn : 0 < A.n)
    (q r : Nat) (las : List Sym) (hl : (q, r, las) ∈ laLines G A t) :
    q < A.n ∧ (⟨r, (G.rhsOf r).length⟩ : Item) ∈ A.its q ∧
      ∀ a, a ∈ las ↔ LA G A.goto q ⟨r, (G.rhsOf r).length⟩ a := by
  unfold laLines at hl
  obtain ⟨q', hq', hm⟩ := List.mem_flatMap.mp hl
  obtain ⟨it, hit, he⟩ := List.mem_filterMap.mp hm
  split at he
  · rename_i hd
    cases he
    have hd' : it.d = (G.rhsOf it.r).length := by simpa using hd
    have hit' : it = ⟨it.r, (G.rhsOf it.r).length⟩ := by
      obtain ⟨r0, d0⟩ := it
      simp only at hd'
      rw [hd']
    refine ⟨List.mem_range.mp hq', hit' ▸ hit, fun a => ?_⟩
    rw [mem_sortS, ← hit']
    exact C03_oracle_exact G nS A t h hp hn q it a
  · cases he

/-! ## Non-vacuity

`S' → S ; S → L = R | R ; L → * R | id ; R → L` with terminals `$`=1, `=`=2, `*`=3, `id`=4 and
nonterminals `S`=5, `L`=6, `R`=7 — the textbook grammar that is LALR(1) but not SLR(1).  State 2 is
`{S → L · = R, R → L ·}`; the oracle gives `R → L ·` the lookahead `$` only there (line
`(2, 5, [1])`), while FOLLOW(R) also contains `=`. -/

def laG : Grammar :=
  { nT := 4, rules := [⟨0, [5]⟩, ⟨5, [6, 2, 7]⟩, ⟨5, [7]⟩, ⟨6, [3, 7]⟩, ⟨6, [4]⟩, ⟨7, [6]⟩] }

def laA : Auto :=
  { items := [[⟨0,0⟩, ⟨1,0⟩, ⟨2,0⟩, ⟨3,0⟩, ⟨4,0⟩, ⟨5,0⟩], [⟨0,1⟩], [⟨1,1⟩, ⟨5,1⟩], [⟨2,1⟩],
              [⟨3,0⟩, ⟨3,1⟩, ⟨4,0⟩, ⟨5,0⟩], [⟨4,1⟩], [⟨1,2⟩, ⟨3,0⟩, ⟨4,0⟩, ⟨5,0⟩], [⟨3,2⟩], [⟨5,1⟩],
              [⟨1,3⟩]],
    gotos := [[(5,1), (6,2), (7,3), (3,4), (4,5)], [], [(2,6)], [], [(3,4), (7,7), (4,5), (6,8)],
              [], [(7,9), (3,4), (4,5), (6,8)], [], [], []] }

example : prodOK laG 8 = true := by decide

theorem laG_lines : (laL laG 8 laA).map (laLines laG laA) =
    some [(1, 0, [1]), (2, 5, [1]), (3, 2, [1]), (5, 4, [1, 2]), (7, 3, [1, 2]), (8, 5, [1, 2]),
          (9, 1, [1])] := by decide

/-- consequence, through `C03_laLines`: in state 2 the LALR(1) lookahead set of `R → L ·` is
    exactly `{$}` -/
example : ∀ a, LA laG laA.goto 2 ⟨5, 1⟩ a ↔ a = 1 := by
  have hl := laG_lines
  cases h : laL laG 8 laA with
  | none => rw [h] at hl; cases hl
  | some t =>
    rw [h] at hl
    have hm : (2, 5, [1]) ∈ laLines laG laA t := by
      have e : laLines laG laA t = _ := Option.some.inj hl
      rw [e]; decide
    have := (C03_laLines laG 8 laA t h (by decide) (by decide) 2 5 [1] hm).2.2
    intro a
    have h2 := this a
    exact h2.symm.trans (by simp)

end Y.Props
