"""Per-property checks.  Each function returns the process exit code (0 / 1) after printing the
VIOLATION / KNOWN-FINDING lines and writing evidence (common.conclude)."""
import json
import random

import cfg
import common
import sweep

TRUSTED = [
    "Lean 4.33.0 kernel (thorough tier: re-checked by leanchecker); axioms of each theorem as listed under theorem_axioms (subset of propext, Classical.choice, Quot.sound)",
    "compiled ymodel executable computes what the Lean definitions denote (Lean compiler/runtime)",
    "Go harness (dumps the implementation's artefacts in-process under build tag verif) and the Python orchestrator/oracles (cfg.py)",
]


def prebuild():
    ok, msg = common.build_harness()
    if not ok:
        return False, msg
    ok, msg = common.run_translator()
    if not ok:
        return False, msg
    ok, msg = common.build_ymodel()
    return ok, msg


def build_failure(pid, tier, msg):
    """the harness/model cannot even be built against the current tree: nothing is shown"""
    proof = {"ok": False, "obligations": 1, "discharged": 0, "detail": msg[:2000]}
    return common.conclude(pid, tier, "proof", proof, [{"what": "build", "detail": msg[:2000]}], [],
                           {"evaluations": 0, "distinct_nontrivial": 0, "rule": "build failed", "samples": []}, [])


def cert_ties(results, names):
    """certificates that must pass on every accepted grammar for the theorems to apply"""
    ties = []
    for r in results:
        if r.refused is not None:
            continue
        for nm in names:
            v = r.V.get(nm)
            if v is None or v[0] != "ok":
                ties.append({"what": "certificate %s fails on the implementation's artefacts" % nm,
                             "case": r.id, "detail": v, "src": r.case["src"]})
    return ties


def mirror_ties(results, prefixes, what):
    ties = []
    for r in results:
        if r.refused is not None:
            continue
        d = common.stage_diff(r.impl, r.M, prefixes)
        if d is not None:
            ties.append({"what": "mirror stage differs: " + what, "case": r.id, "detail": d, "src": r.case["src"]})
    return ties


# ------------------------------------------------------------------------------------------- C01

def check_C01(tier):
    pid = "C01"
    rng = random.Random(common.seed() * 1000003 + 1)
    ok, msg = prebuild()
    if not ok:
        return build_failure(pid, tier, msg)
    proof = common.prove(["Y.Props.C01_sound"], ["Yv.Props.C01"])
    results = sweep.run(tier, rng)
    # the theorem needs only the certificates on the implementation's artefacts (and the driver
    # model = generated code, which the C08 check ties by execution); no generator mirror is involved
    ties = cert_ties(results, ["gramWF", "certA", "certT"])
    violations = []
    runs = 0
    accepted = 0
    samples = []
    for r in results:
        if r.refused is not None:
            continue
        for f in r.runs:
            i = int(f[1])
            w = r.inputs[i]
            runs += 1
            if f[2] == "accept":
                accepted += 1
                reds = [int(x) for x in f[4:]]
                good = r.g.check_rm_derivation(reds, w) and int(f[3]) == len(w) + 1
                if len(samples) < 3 and len(w) >= 2:
                    samples.append({"case": r.id, "input": w, "reductions": reds, "valid_rightmost_derivation": good})
                if not good:
                    violations.append({
                        "key": common.finding_key({"src": r.case["src"], "input": w}),
                        "what": "accepted input whose reductions are not a rightmost derivation of it",
                        "replay": {"property": pid, "grammar": r.case["src"], "input_symbol_ids": w,
                                   "reductions": reds, "tokens_requested": int(f[3]),
                                   "how": "driver model run on the implementation's GTable (ymodel R line); replay: bin/check C01 --replay <this file>"}})
    dist = sweep.distribution(results)
    cov = {"evaluations": runs, "distinct_nontrivial": dist["distinct_rule_sets"],
           "rule": "corpus + sampled exhaustive tiny grammars + random structured grammars (+precedence, literals) + operator grammars; "
                   "distinct = distinct rule sets among accepted grammars; per grammar all strings up to a length bound over its terminals plus an unknown token, sampled sentences and mutated sentences are run through the driver model on the implementation's GTable",
           "samples": samples, "accepted_runs": accepted, "distribution": dist,
           "certificates_evaluated": sum(1 for r in results if r.refused is None) * 3,
           "trusted_base": TRUSTED,
           "partial": ["execution of the compiled generated parsers (mechanism X) is covered by the C08 check, which compares them with this driver model"]}
    return common.conclude(pid, tier, "proof", proof, ties, violations, cov,
                           ["inputs are token sequences before the first end marker; symbols outside 0..nT cannot be produced by translate()"])


# ------------------------------------------------------------------------------------------- helpers

TYN = {"shift": 0, "reduce": 1, "error": 2}


def std_cov(results, evaluations, rule, samples, extra=None):
    dist = sweep.distribution(results)
    cov = {"evaluations": evaluations, "distinct_nontrivial": dist["distinct_rule_sets"], "rule": rule,
           "samples": samples, "distribution": dist, "trusted_base": TRUSTED}
    if extra:
        cov.update(extra)
    return cov


GEN_RULE = ("corpus (textbook separators LR(0)/SLR/LALR/LR(1), nullable, cyclic, operator tables) + sampled exhaustive tiny grammars + "
            "random structured grammars with precedence/literals/%prec + large random grammars + operator grammars; "
            "distinct = distinct rule sets among the grammars yaccgo accepts")


def viol(pid, r, what, extra):
    payload = {"property": pid, "grammar": r.case["src"], "what": what}
    payload.update(extra)
    return {"key": common.finding_key({"src": r.case["src"], "what": what, "x": extra.get("key_extra", extra)}),
            "what": what, "replay": payload}


# ------------------------------------------------------------------------------------------- C02

def check_C02(tier):
    pid = "C02"
    rng = random.Random(common.seed() * 1000003 + 2)
    ok, msg = prebuild()
    if not ok:
        return build_failure(pid, tier, msg)
    proof = common.prove(["Y.sim", "Y.LA_in_table", "Y.firstOf_sets", "Y.Props.C01_sound"],
                         ["Yv.Abs.Complete", "Yv.Abs.CertSets", "Yv.Props.C01"])
    results = sweep.run(tier, rng)
    ties = cert_ties(results, ["gramWF", "certA", "certT"])
    violations, samples = [], []
    runs = lalr = sentences = 0
    for r in results:
        if r.refused is not None:
            continue
        is_lalr = r.V.get("isLALR1", ["?"])[0] == "yes"
        if not is_lalr:
            continue
        lalr += 1
        if r.V.get("certC", ["missing"])[0] != "ok":
            ties.append({"what": "completeness certificate certC fails on an LALR(1) grammar", "case": r.id, "src": r.case["src"]})
        if r.warns():
            violations.append(viol(pid, r, "conflict warning for a grammar whose LALR(1) automaton has no conflict", {"warnings": r.warns()}))
        for f in r.runs:
            w = r.inputs[int(f[1])]
            runs += 1
            if r.g.recognizes(w):
                sentences += 1
                if len(samples) < 3 and len(w) >= 3:
                    samples.append({"case": r.id, "sentence": w, "verdict": f[2]})
                if f[2] != "accept":
                    violations.append(viol(pid, r, "sentence of an LALR(1) grammar is not accepted",
                                           {"input_symbol_ids": w, "verdict": f[2]}))
            elif f[2] == "accept":
                violations.append(viol(pid, r, "non-sentence accepted (language is not exactly the grammar's)",
                                       {"input_symbol_ids": w}))
    cov = std_cov(results, runs, GEN_RULE + "; inputs: all strings up to a bound + sampled sentences, membership decided by an Earley recogniser", samples,
                  {"lalr1_grammars": lalr, "sentences_checked": sentences,
                   "partial": ["C02_complete is proved in abstract form (Y.sim over a lookahead-annotated item system with five closure facts; Y.LA_in_table / Y.firstOf_sets supply them from Bool checks); the glue from certC to those facts is validated per grammar, not yet a single theorem"]})
    return common.conclude(pid, tier, "proof", proof, ties, violations, cov, ["LALR(1) is decided by the verified lookahead oracle on the implementation's automaton"])


# ------------------------------------------------------------------------------------------- C03

def check_C03(tier):
    pid = "C03"
    rng = random.Random(common.seed() * 1000003 + 3)
    ok, msg = prebuild()
    if not ok:
        return build_failure(pid, tier, msg)
    proof = common.prove(["Y.LA_iff", "Y.LA_in_table", "Y.firstOf_sets"], ["Yv.Abs.Lalr", "Yv.Abs.CertSets"])
    results = sweep.run(tier, rng, inputs=False, n_random=600 if tier == "quick" else 15000,
                        n_tiny=600 if tier == "quick" else None)
    ties = cert_ties(results, ["gramWF", "certA"])
    violations, samples = [], []
    sets = 0
    for r in results:
        if r.refused is not None:
            continue
        sets += len(r.las())
        v = r.V.get("laOracle")
        if v is None or v[0] != "ok":
            violations.append(viol(pid, r, "lookahead set differs from the LALR(1) set",
                                   {"state_rule_symbols": v[1:] if v else None,
                                    "note": "implementation's (state, rule) lookaheads vs the propagation fixpoint (= union over canonical LR(1) states, theorem LA_iff) on the implementation's own automaton"}))
        # cell level: a cell gets a warning iff folding its candidates meets a pair that precedence
        # cannot resolve (independent of which default wins, see DESIGN §5 C03)
        iw = sorted(set((q, s) for q, s, a, b in r.warns()))
        ow = sorted(set(tuple(int(x) for x in l.split()[2:4]) for l in rec_lines(r, "O WARN")))
        if iw != ow:
            violations.append(viol(pid, r, "conflict warnings differ from the unresolved LALR(1) conflicts",
                                   {"implementation": iw, "expected": ow}))
        if len(samples) < 3 and len(r.las()) > 3:
            samples.append({"case": r.id, "lookaheads": r.las()[:4], "warnings": iw[:3]})
    cov = std_cov(results, sets, GEN_RULE + "; evaluations = (state, rule) lookahead sets compared", samples,
                  {"partial": ["yaccgo's DeRemer-Pennello computation is validated per grammar against the verified fixpoint oracle, not verified for all grammars"]})
    return common.conclude(pid, tier, "proof", proof, ties, violations, cov, [])


def rec_lines(r, prefix):
    return [l for l in getattr(r, "raw_model", []) if l.startswith(prefix)]


# ------------------------------------------------------------------------------------------- C09

def check_C09(tier):
    pid = "C09"
    rng = random.Random(common.seed() * 1000003 + 9)
    ok, msg = prebuild()
    if not ok:
        return build_failure(pid, tier, msg)
    proof = common.prove(C09_THEOREMS, C09_MODULES)
    results = sweep.run(tier, rng, inputs=False, n_random=800 if tier == "quick" else 20000,
                        n_tiny=800 if tier == "quick" else None, big=30 if tier == "quick" else 300)
    ties = cert_ties(results, ["gramWF", "certA"])
    ties += mirror_ties(results, ("STATE", "GOTO"), "LR(0) states and transitions (literal numbering)")
    violations, samples = [], []
    nstates = 0
    for r in results:
        if r.refused is not None:
            continue
        istates = [frozenset(tuple(int(x) for x in it.split(".")) for it in st) for st in r.states()]
        nstates += len(istates)
        igoto = {(q, x): p for (q, x, p) in r.gotos()}
        ref_states, ref_trans = cfg.lr0_collection(r.g)
        what = None
        if len(set(istates)) != len(istates):
            what = "duplicate states (two states with the same item set)"
        elif set(istates) != set(ref_states):
            what = "state set differs from the canonical LR(0) collection (missing or extra state)"
        elif istates[0] != ref_states[0]:
            what = "state 0 is not the closure of the augmented start item"
        else:
            ref_index = {s: i for i, s in enumerate(ref_states)}
            for q, s in enumerate(istates):
                rq = ref_index[s]
                mine = {x: istates[p] for (q2, x), p in igoto.items() if q2 == q and p < len(istates)}
                ref = {x: ref_states[p] for (q2, x), p in ref_trans.items() if q2 == rq}
                if mine != ref or any(p >= len(istates) for (q2, x), p in igoto.items() if q2 == q):
                    what = "transitions of a state differ from the canonical goto function"
                    break
            # listed item order: sorted by (rule, dot), no duplicates
            for st in r.states():
                its = [tuple(int(x) for x in it.split(".")) for it in st]
                if its != sorted(set(its)):
                    what = "item list of a state is not sorted/duplicate-free"
            for q, l in enumerate(l for l in r.impl if l.startswith("STATE ")):
                if int(l.split()[2]) != q:
                    what = "state's Index field differs from its position"
        if what:
            violations.append(viol(pid, r, what, {"states": [sorted(s) for s in istates][:40]}))
        if len(samples) < 3 and len(istates) > 4:
            samples.append({"case": r.id, "states": len(istates), "transitions": len(igoto)})
    cov = std_cov(results, nstates, GEN_RULE + "; evaluations = states compared with an independently computed canonical collection", samples)
    return common.conclude(pid, tier, "proof", proof, ties, violations, cov, ["grammars below the 2000-state cap"])


C09_THEOREMS = ["Y.Props.C01_sound"]
C09_MODULES = ["Yv.Props.C01"]


# ------------------------------------------------------------------------------------------- C04

def spec_winner(a, b):
    """The property's resolution rule for a two-way conflict; candidates are dicts
    (kind 'S'/'R', idx, prec, assoc).  Returns 'S', 'R', the winning reduce dict, 'error' or None (unspecified)."""
    if a["kind"] == "R" and b["kind"] == "S":
        a, b = b, a
    if a["kind"] == "S" and b["kind"] == "R":
        if a["prec"] != -1 and b["prec"] != -1:
            if b["prec"] > a["prec"]:
                return b
            if b["prec"] < a["prec"]:
                return a
            if a["assoc"] == 0:
                return b          # %left reduces
            if a["assoc"] == 1:
                return a          # %right shifts
            return "error"        # %nonassoc / %precedence
        return a                  # default: shift
    if a["kind"] == "R" and b["kind"] == "R":
        if a["prec"] == -1 or b["prec"] == -1:
            return a if a["idx"] < b["idx"] else b
        return None               # both rules carry a precedence: unspecified (DESIGN §4)
    return None


def cell_candidates(r):
    """per (state, terminal): candidate actions from the implementation's automaton and lookaheads"""
    g = r.g
    cands = {}
    for (q, x, p) in r.gotos():
        if g.is_t(x):
            cands.setdefault((q, x), []).append({"kind": "S", "idx": p, "prec": g.syms[x]["prec"], "assoc": g.syms[x]["assoc"]})
    for (q, ru, la) in r.las():
        ps = g.rules[ru][2]
        pr = g.syms[ps]["prec"] if ps >= 0 else -1
        asc = g.syms[ps]["assoc"] if ps >= 0 else 2
        for a in la:
            cands.setdefault((q, a), []).append({"kind": "R", "idx": ru, "prec": pr, "assoc": asc})
    return cands


def expr_reference(g, toks, names):
    """precedence-climbing reference for the operator grammars of gen.expr_grammar.
    Returns a tree (nested tuples of rule shapes) or None for a syntax error."""
    # operator info from the symbol table the implementation built
    sym = {v["name"].strip('"'): k for k, v in g.syms.items()}
    T0 = sym["T0"]
    lp, rp = sym.get("$operator("), sym.get("$operator)")
    binops = {}
    unary = None
    paren = False
    for i, (lhs, rhs, ps) in enumerate(g.rules):
        if i == 0:
            continue
        if len(rhs) == 3 and rhs[0] == rhs[2] == lhs:
            binops[rhs[1]] = i
        elif len(rhs) == 2 and rhs[1] == lhs:
            unary = (rhs[0], i, g.syms[ps]["prec"] if ps >= 0 else -1)
        elif len(rhs) == 3 and rhs[0] == lp:
            paren = i
        elif rhs == [T0]:
            leaf = i
    pos = [0]

    def peek():
        return toks[pos[0]] if pos[0] < len(toks) else None

    def primary():
        t = peek()
        if t == T0:
            pos[0] += 1
            return ("leaf",)
        if paren and t == lp:
            pos[0] += 1
            e = expr(0)
            if e is None or peek() != rp:
                return None
            pos[0] += 1
            return ("paren", e)
        if unary and t == unary[0]:
            pos[0] += 1
            e = expr(unary[2] + 1)
            if e is None:
                return None
            return ("un", e)
        return None

    def expr(minp):
        lhs = primary()
        if lhs is None:
            return None
        last_nonassoc = None
        while True:
            t = peek()
            if t not in binops:
                return lhs
            p, asc = g.syms[t]["prec"], g.syms[t]["assoc"]
            if p < minp:
                return lhs
            if last_nonassoc is not None and p == last_nonassoc:
                return None
            pos[0] += 1
            rhs = expr(p + 1 if asc != 1 else p)
            if rhs is None:
                return None
            lhs = ("bin", t, lhs, rhs)
            last_nonassoc = p if asc == 2 else None

    e = expr(0)
    if e is None or pos[0] != len(toks):
        return None
    return e


def tree_from_reductions(g, reds, w):
    """parse tree from the reductions in the order performed (bottom-up), tokens w"""
    stack = []
    toks = list(w)
    ti = 0
    # replay: before each reduction shift tokens until the handle is on the stack
    for r in reds:
        lhs, rhs, _ = g.rules[r]
        n = len(rhs)
        while [s for s, _ in stack[len(stack) - n:]] != rhs or len(stack) < n:
            if ti >= len(toks):
                return None
            stack.append((toks[ti], ("tok", toks[ti])))
            ti += 1
        kids = [t for _, t in stack[len(stack) - n:]] if n else []
        del stack[len(stack) - n:]
        stack.append((lhs, ("node", r, kids)))
    if ti != len(toks) or len(stack) != 1:
        return None
    return stack[0][1]


def shape(g, t):
    """normalise a parse tree of an operator grammar to the reference's shape"""
    if t[0] == "tok":
        return None
    _, r, kids = t
    rhs = g.rules[r][1]
    lhs = g.rules[r][0]
    if len(rhs) == 1:
        return ("leaf",)
    if len(rhs) == 3 and rhs[0] == rhs[2] == lhs:
        return ("bin", rhs[1], shape(g, kids[0]), shape(g, kids[2]))
    if len(rhs) == 2:
        return ("un", shape(g, kids[1]))
    return ("paren", shape(g, kids[1]))


def random_expr_tokens(g, rng, depth=0):
    sym = {v["name"].strip('"'): k for k, v in g.syms.items()}
    T0 = sym["T0"]
    ops = [rhs[1] for (lhs, rhs, _) in g.rules[1:] if len(rhs) == 3 and rhs[0] == rhs[2] == lhs]
    un = [rhs[0] for (lhs, rhs, _) in g.rules[1:] if len(rhs) == 2]
    par = [rhs for (lhs, rhs, _) in g.rules[1:] if len(rhs) == 3 and rhs[0] != lhs]
    out = []

    def atom(d):
        c = rng.random()
        if un and c < 0.2 and d < 4:
            out.append(un[0])
            atom(d + 1)
        elif par and c < 0.35 and d < 3:
            out.append(par[0][0])
            ex(d + 1)
            out.append(par[0][2])
        else:
            out.append(T0)

    def ex(d):
        atom(d)
        for _ in range(rng.choice([0, 1, 1, 2, 3, 4] if d == 0 else [0, 1, 2])):
            if not ops:
                break
            out.append(rng.choice(ops))
            atom(d)

    ex(depth)
    return out


def check_C04(tier):
    pid = "C04"
    rng = random.Random(common.seed() * 1000003 + 4)
    ok, msg = prebuild()
    if not ok:
        return build_failure(pid, tier, msg)
    proof = common.prove(["C04.sr_higher_rule", "C04.sr_higher_token", "C04.sr_equal_left", "C04.sr_equal_right",
                          "C04.sr_equal_nonassoc", "C04.no_prec_is_error", "C04.default_sr_shifts", "C04.rr_first"],
                         ["Yv.Props.C04"])
    ties, violations, samples = [], [], []
    # (1) the decision functions themselves, all pairs over a small domain, against the property's rule
    p = common.sh([common.BIN + "/yharness", "resolve"])
    pairs = 0
    for line in p.stdout.decode().split("\n"):
        if not line.startswith("RES "):
            continue
        parts = [x.strip() for x in line[4:].split("|")]
        A, B = [int(x) for x in parts[0].split()], [int(x) for x in parts[1].split()]
        res, dflt = parts[2], [int(x) for x in parts[3].split()]
        pairs += 1

        def mk(v):
            return {"kind": "S" if v[0] == 0 else "R", "idx": abs(v[1]), "prec": v[3], "assoc": v[2]}
        a, b = mk(A), mk(B)
        same_level_diff_assoc = a["prec"] == b["prec"] != -1 and a["assoc"] != b["assoc"]
        if same_level_diff_assoc:
            continue   # unreachable: one declaration line gives one associativity per level
        want = spec_winner(a, b)
        if want is None:
            continue
        if res == "panic":
            got = "panic"
        elif res == "none":
            got = mk(dflt)
        else:
            rv = [int(x) for x in res.split()]
            got = "error" if rv[0] == 2 else mk(rv)
        def act(x):
            return (x["kind"], x["idx"]) if isinstance(x, dict) else x
        if act(got) != act(want):
            violations.append({"key": common.finding_key({"pair": [A, B]}),
                               "what": "ResolveConflict/UseDefaultResolveConflict pick the wrong action",
                               "replay": {"property": pid, "act01": A, "act02": B, "fields": "ActionType ActionIndex PrecType Prec",
                                          "got": got, "expected": want}})
    # (2) every two-way conflict cell of every generated grammar
    results = sweep.run(tier, rng, inputs=False, n_random=500 if tier == "quick" else 8000)
    ties += cert_ties(results, ["gramWF", "certA", "laOracle"])
    ties += mirror_ties(results, ("ROW",), "dense table")
    cells = 0
    expr_results = []
    for r in results:
        if r.refused is not None:
            continue
        if r.case["kind"] == "expr":
            expr_results.append(r)
        rows = r.rows()
        err = len(rows) + 100
        for (q, a), cs in cell_candidates(r).items():
            if len(cs) != 2:
                continue
            want = spec_winner(cs[0], cs[1])
            if want is None:
                continue
            cells += 1
            exp = err if want == "error" else (want["idx"] if want["kind"] == "S" else (-want["idx"] if want["idx"] != 0 else err + 100))
            got = rows[q][a]
            if len(samples) < 3:
                samples.append({"case": r.id, "state": q, "symbol": a, "candidates": cs, "cell": got})
            if got != exp:
                violations.append(viol(pid, r, "two-way conflict cell holds the wrong action",
                                       {"state": q, "symbol": a, "candidates": cs, "cell": got, "expected": exp}))
    # (3) operator grammars: grouping of whole expressions (driver model on the implementation's table)
    def expr_inputs(cid, impl_lines):
        if not cid.startswith("expr:") or any(l.startswith("REFUSE") for l in impl_lines):
            return []
        g = cfg.G(impl_lines)
        return [random_expr_tokens(g, rng) for _ in range(25 if tier == "quick" else 100)]
    ecases = [{"id": r.id, "src": r.case["src"]} for r in expr_results]
    exprs = 0
    if ecases:
        rec = common.run_core(ecases, inputs_fn=expr_inputs)
        for c in ecases:
            r = sweep.CaseResult({"id": c["id"], "src": c["src"], "kind": "expr"}, rec[c["id"]])
            for f in r.runs:
                w = r.inputs[int(f[1])]
                ref = expr_reference(r.g, w, None)
                exprs += 1
                if f[2] == "accept":
                    t = tree_from_reductions(r.g, [int(x) for x in f[4:]], w)
                    got = shape(r.g, t) if t else "unparseable-log"
                else:
                    got = None
                if got != ref:
                    violations.append(viol(pid, r, "expression grouped differently from the declared precedence/associativity",
                                           {"input_symbol_ids": w, "verdict": f[2], "got": repr(got), "expected": repr(ref)}))
    cov = std_cov(results, pairs + cells + exprs,
                  GEN_RULE + "; evaluations = action pairs through the real ResolveConflict + two-way conflict cells recomputed from the property's rule + whole expressions grouped against a precedence-climbing reference",
                  samples, {"action_pairs": pairs, "two_way_cells": cells, "expressions": exprs,
                            "partial": ["end-to-end grouping (all operator tables x all expressions) is covered by execution against a precedence-climbing reference, the cell-level rule by theorems on the translated functions",
                                        "reduce/reduce cells where both rules carry a precedence are unspecified by the property and excluded"]})
    return common.conclude(pid, tier, "proof", proof, ties, violations, cov, [])


# ------------------------------------------------------------------------------------------- C05

def rand_matrix(rng):
    rows = rng.randint(1, 12)
    cols = rng.randint(1, 12)
    dens = rng.choice([0.0, 0.1, 0.3, 0.5, 0.8, 1.0])
    vals = rng.choice([[1, 2, 3], [-3, -2, -1, 1, 2, 3, 105, 205], [7]])
    tab = [[rng.choice(vals) if rng.random() < dens else 0 for _ in range(cols)] for _ in range(rows)]
    if rng.random() < 0.3 and rows > 1:
        tab[rng.randrange(rows)] = list(tab[rng.randrange(rows)])
    if rng.random() < 0.3:
        for r in tab:
            r[0] = 0
    return tab


def check_C05(tier):
    pid = "C05"
    rng = random.Random(common.seed() * 1000003 + 5)
    ok, msg = prebuild()
    if not ok:
        return build_failure(pid, tier, msg)
    proof = common.prove(C05_THEOREMS, C05_MODULES)
    ties, violations, samples = [], [], []
    # (1) matrices through the real PackTable / UnPackTable
    mats = [[[0, 5, 0, 7]], [[0, 0, 1], [0, 1, 0], [0, 0, 1]], [[0]], [[0, 0], [0, 0]], [[0, 0, 0, 3], [0, 2, 0, 0]]]
    mats += [rand_matrix(rng) for _ in range(3000 if tier == "quick" else 60000)]
    inp = "".join(json.dumps({"id": "m%d" % i, "aux": m}) + "\n" for i, m in enumerate(mats)).encode()
    p = common.sh([common.BIN + "/yharness", "pack"], inp=inp)
    impl = parse_blocks(p.stdout.decode(), "PCASE", "PEND")
    mo = common.sh([common.YMODEL], inp=p.stdout)
    model = parse_blocks(mo.stdout.decode(), "PCASE", "PEND")
    for i, m in enumerate(mats):
        b = impl.get("m%d" % i, [])
        unp = [[int(x) for x in l.split()[1:]] for l in b if l.startswith("PUNP")]
        pan = [l for l in b if l.startswith("PPANIC")]
        if pan or unp != m:
            violations.append({"key": common.finding_key({"matrix": m}), "what": "UnPackTable(PackTable(t)) != t",
                               "replay": {"property": pid, "matrix": m, "unpacked": unp, "panic": pan}})
        ia = [l for l in b if l.split()[0] in ("PACT", "POFF", "PCHK")]
        ma = [l[2:] for l in model.get("m%d" % i, []) if l.startswith("M ")]
        if ia != ma and not pan:
            ties.append({"what": "mirror stage differs: PackTable arrays", "matrix": m, "impl": ia, "model": ma})
    samples.append({"matrix": mats[0], "impl": impl.get("m0")})
    # (2) every cell of every generated grammar through the implementation's packed arrays
    results = sweep.run(tier, rng, inputs=False, n_random=500 if tier == "quick" else 10000, big=30 if tier == "quick" else 300)
    ties += mirror_ties(results, ("PACKED", "ACT", "OFF", "CHK", "ADEF", "GDEF"), "split + packed arrays")
    cells = 0
    for r in results:
        if r.refused is not None or not r.packed():
            continue
        v = r.V.get("packLookup")
        rows = r.rows()
        cells += len(rows) * len(rows[0])
        if v is None or v[0] != "ok":
            violations.append(viol(pid, r, "packed lookup differs from the dense table",
                                   {"state_symbol": v[1:] if v else None}))
    cov = std_cov(results, len(mats) + cells,
                  "random integer matrices (1x1..12x12, densities 0-100%, negatives, equal rows, empty first column) + the F5 matrix through PackTable/UnPackTable; " + GEN_RULE +
                  "; every (state, symbol) cell of every packed grammar looked up through the implementation's five arrays with the generated Action logic",
                  samples, {"matrices": len(mats), "cells": cells,
                            "partial": ["behavioural equality of the packed and -u generated parsers on all inputs is covered by the C08 check (execution)"]})
    return common.conclude(pid, tier, "proof", proof, ties, violations, cov, [])


C05_THEOREMS = ["PackP.lookup_correct", "PackP.inv_place", "PackP.firstFit_fits"]
C05_MODULES = ["Yv.Proofs.PackCore"]


def parse_blocks(txt, begin, end):
    out = {}
    cur = None
    for l in txt.split("\n"):
        if l.startswith(begin + " "):
            cur = l.split()[1]
            out[cur] = []
        elif l.startswith(end):
            cur = None
        elif cur is not None and l:
            out[cur].append(l)
    return out


# ------------------------------------------------------------------------------------------- C06

def check_C06(tier):
    pid = "C06"
    rng = random.Random(common.seed() * 1000003 + 6)
    ok, msg = prebuild()
    if not ok:
        return build_failure(pid, tier, msg)
    proof = common.prove(C06_THEOREMS, C06_MODULES)
    results = sweep.run(tier, rng)
    ties = cert_ties(results, ["gramWF", "certA", "certT"])
    violations, samples = [], []
    runs = rejected = 0
    for r in results:
        if r.refused is not None:
            continue
        conflict_free = r.V.get("isLALR1", ["?"])[0] == "yes"
        for f in r.runs:
            w = r.inputs[int(f[1])]
            runs += 1
            if f[2] == "accept":
                continue
            rejected += 1
            if f[2] == "crash":
                violations.append(viol(pid, r, "rejected input makes the parser crash (index out of range) instead of reporting a grammar error",
                                       {"input_symbol_ids": w}))
                continue
            if f[2] == "fuel":
                if conflict_free:
                    violations.append(viol(pid, r, "parser does not reach a verdict on a conflict-free grammar", {"input_symbol_ids": w}))
                continue
            if conflict_free:
                p = r.g.viable_len(w)
                req = int(f[3])
                if len(samples) < 3 and len(w) >= 3:
                    samples.append({"case": r.id, "input": w, "first_bad_token_index": p, "tokens_requested": req})
                if req != p + 1:
                    violations.append(viol(pid, r, "syntax error not reported at the first token that cannot continue a sentence",
                                           {"input_symbol_ids": w, "tokens_requested": req, "first_bad_token_index": p}))
    cov = std_cov(results, runs, GEN_RULE + "; inputs: all strings up to a bound incl. an unknown token, mutated sentences; viable prefixes decided by an Earley recogniser",
                  samples, {"rejected_runs": rejected,
                            "partial": ["termination for every conflict-free grammar (needs unambiguity of LR grammars) is covered by step-bounded execution, not by a theorem",
                                        "the error channel of each backend (Go panic text, TypeScript log + null) is checked by execution in the C08 check's X runs"]})
    return common.conclude(pid, tier, "proof", proof, ties, violations, cov, [])


C06_THEOREMS = ["Y.Props.C06_safe", "Y.St0_valid", "Y.valid_viable"]
C06_MODULES = ["Yv.Props.C06", "Yv.Abs.Prefix"]
