import Yv.Props.EndToEnd
import Yv.Props.EndToEndTerm
import Yv.Props.C08c
/-! # End to end, TypeScript: the TEXT of the generated TypeScript parser on the DENSE table

`EndToEnd.lean` / `EndToEndTerm.lean` compose the pipeline theorems with the translated Go `Parser`
texts (through the packed lookup).  Here the same is done for the translated TypeScript `Parser`
(`Gen.Ts.parser`, interpreter `TsSem`, refinement `C08c`):

    grammar ──buildL──▶ automaton ──laL──▶ lookaheads ──genTableL──▶ dense table T
    `Parser` text of `Builder/TsGenCode.go` (interpreter `TsSem`) ≈ `arun` = list driver `run`   (C08c, C08)

* **The parameter set.**  `TsSem` takes the SAME `Y.D.Params` as the list driver; `state.Action(k)`
  is `P.L state.Yystate k`.  The TypeScript emitter always writes the dense table
  (`StateActionArray[this.Yystate][a]`), so `P := tsParams G T n sem eofVal`, an abbreviation of
  `dparams G T n sem eofVal` whose `L` is `cell T` (`tsParams_L`, `ts_action_dense`).  Hence there
  is no packing stage and NO `DenseWF` hypothesis: only the pipeline's own (`gramWF`, `buildL`,
  `laL`, `ResSel`).
* **The start state** `TsStart K w m0`: `StackRel m0 (initGlobal K.undefV)`, input `w`, nothing
  requested or reduced.  Heap, local variables, `console.error` count arbitrary.  It is what the
  translated `initialize()` (`tsStart_initialize`) and the module tail `initialize();`
  (`tsStart_load`) establish from ANY machine state.  The bottom value of the list driver is
  `K.undefV` (`undefined`).
* `exec_mono`/`execs_mono`/`invoke_mono`/`tsParser_mono`: the interpreter is monotone in the loop
  fuel — a result other than `outOfFuel` is the result for every larger bound (EQUAL machine states,
  heap included).  Proved for the whole statement language by structural recursion, because
  `OutRel` is a relation (`Final` does not determine the heap), so stability of the result does not
  follow from the stability of `arun`.
* `parser_ts_list` / `parser_ts_dense`: C08c ∘ C08 — `OutRel m0 cl (tsParser …) o` with
  `absOutcome o = some (run (dparams …) fuel (init K.undefV w))`.
* `C01_end_to_end_ts`: a returned value comes with a rightmost derivation of exactly the input
  (conclusion of `C01_end_to_end_global` on the `TsSem` machine state, plus: nothing printed, the
  caller's variables unchanged).
* `C06_end_to_end_ts`: never `crash` (TypeError); a returned `null` is the syntax-error outcome:
  `errs` incremented exactly once, `Final m0 c m` with `c.req + |c.rest| = |w| + 1` — never the
  silent `null` of the two guards.  How this differs from Go: the Go text `panic`s (`Res.err`), the
  TypeScript text RETURNS `null`, so "syntax error" is recognised by `errs`, and the statement
  carries `Final` (the machine is related to the model configuration, not equal to an image of it).
* `C02_end_to_end_ts`: no cell with two candidates ⇒ a value is returned (for some fuel) iff the
  input is a sentence.
* `C06_end_to_end_terminates_ts`, `C06_end_to_end_decides_ts`: with `certTerm … F = true` a fuel
  `≤ termBound F |w|` suffices, the result is stable above it, and it is a value iff sentence /
  one `console.error` and `null` otherwise.
* C15: `C15_ts_second_call` (no `initialize()` in between: the second call is the model's run from
  the stack `c1.stack` the first call left) and `C15_ts_reinit`, `C15_ts_reinit_decides` (with it:
  a start state again, so all of the above holds for the second input).
* Non-vacuity: `exG`/`exT` (`ex_ts_sound`, `ex_ts_terminates`, `ex_ts_decides`), the start state
  `exTs0` obtained from the module tail, and direct kernel evaluation of the interpreter on `exT`
  (`ex_ts_run`, `ex_ts_second`: the accepted `a a b` is rejected by a second call, `ex_ts_reinit`). -/
namespace Y.Props
open Y Y.D Y.GT Y.AD TsSem C08c Y.Term
open Core (Action)

/-! ## 0. the interpreter of `TsSem` is monotone in the loop fuel -/

theorem leave_ne_oof {V : Type} (n : Nat) (r : Res V) (h : leave n r ≠ .outOfFuel) : r ≠ .outOfFuel := by
  intro e; rw [e] at h; exact h rfl

theorem iterate_mono {V : Type} (iter iter' : M V → Res V)
    (hi : ∀ m, iter m ≠ .outOfFuel → iter' m = iter m) :
    ∀ (fuel : Nat) (m : M V), iterate iter fuel m ≠ .outOfFuel → ∀ fuel', fuel ≤ fuel' →
      iterate iter' fuel' m = iterate iter fuel m
  | 0, _, h, _, _ => absurd rfl h
  | k + 1, m, h, k', hk => by
    obtain ⟨j, rfl⟩ : ∃ j, k' = j + 1 := ⟨k' - 1, by omega⟩
    simp only [iterate] at h ⊢
    cases hs : iter m with
    | norm m' =>
      rw [hi m (by rw [hs]; simp)]
      simp only [hs] at h ⊢
      exact iterate_mono iter iter' hi k m' h j (by omega)
    | brk m' => rw [hi m (by rw [hs]; simp), hs]
    | ret v m' => rw [hi m (by rw [hs]; simp), hs]
    | crash => rw [hi m (by rw [hs]; simp), hs]
    | outOfFuel => rw [hs] at h; exact absurd rfl h

mutual
theorem exec_mono {V : Type} (P : Params V) (K : Consts V) (X : Ext V) (fuel fuel' : Nat) (hf : fuel ≤ fuel') :
    ∀ (s : Gen.Ts.Stmt) (m : M V), exec P K X fuel m s ≠ .outOfFuel →
      exec P K X fuel' m s = exec P K X fuel m s
  | .expr e, m, _ => by simp only [exec]
  | .decl _ x _ ini, m, _ => by simp only [exec]
  | .assign lhs e, m, _ => by simp only [exec]
  | .subAssign lhs e, m, _ => by simp only [exec]
  | .inc lhs, m, _ => by simp only [exec]
  | .brk, m, _ => by simp only [exec]
  | .ret e, m, _ => by simp only [exec]
  | .switchHole e, m, _ => by simp only [exec]
  | .ite c t e, m, h => by
    simp only [exec] at h ⊢
    cases hc : eval P K X m c with
    | crash => rfl
    | ok v m1 =>
      cases v with
      | bool b =>
        simp only [hc] at h ⊢
        cases b with
        | true =>
          simp only [↓reduceIte] at h ⊢
          rw [execs_mono P K X fuel fuel' hf t m1 (leave_ne_oof _ _ h)]
        | false =>
          simp only [Bool.false_eq_true, ↓reduceIte] at h ⊢
          rw [execs_mono P K X fuel fuel' hf e m1 (leave_ne_oof _ _ h)]
      | _ => rfl
  | .loop body, m, h => by
    simp only [exec] at h ⊢
    exact iterate_mono _ _ (fun m' hm => by
      rw [execs_mono P K X fuel fuel' hf body m' (leave_ne_oof _ _ hm)]) fuel m h fuel' hf
theorem execs_mono {V : Type} (P : Params V) (K : Consts V) (X : Ext V) (fuel fuel' : Nat) (hf : fuel ≤ fuel') :
    ∀ (l : List Gen.Ts.Stmt) (m : M V), execs P K X fuel m l ≠ .outOfFuel →
      execs P K X fuel' m l = execs P K X fuel m l
  | [], m, _ => by simp only [execs]
  | s :: r, m, h => by
    simp only [execs] at h ⊢
    cases hs : exec P K X fuel m s with
    | norm m1 =>
      rw [exec_mono P K X fuel fuel' hf s m (by rw [hs]; simp)]
      simp only [hs] at h ⊢
      exact execs_mono P K X fuel fuel' hf r m1 h
    | brk m1 => rw [exec_mono P K X fuel fuel' hf s m (by rw [hs]; simp), hs]
    | ret v m1 => rw [exec_mono P K X fuel fuel' hf s m (by rw [hs]; simp), hs]
    | crash => rw [exec_mono P K X fuel fuel' hf s m (by rw [hs]; simp), hs]
    | outOfFuel => rw [hs] at h; exact absurd rfl h
end


theorem invoke_mono {V : Type} (P : Params V) (K : Consts V) (X : Ext V) (fuel : Nat) (fn : Gen.Ts.Fn)
    (args : List (Val V)) (m : M V) (h : invoke P K X fuel fn args m ≠ .outOfFuel)
    (fuel' : Nat) (hf : fuel ≤ fuel') :
    invoke P K X fuel' fn args m = invoke P K X fuel fn args m := by
  unfold invoke at h ⊢
  rw [execs_mono P K X fuel fuel' hf fn.body _ (by
    intro e; rw [e] at h; exact h rfl)]

/-! ## 1. the translated `Parser` of the TypeScript back end, its start state, the dense lookup -/

/-- the translated `Parser` text of the TypeScript back end, called (with some string) in the
    machine state `m0`; `fuel` bounds the iterations of its `while (true)` loop -/
def tsParser {V : Type} (P : Params V) (K : Consts V) (fuel : Nat) (m0 : M V) : Res V :=
  invoke P K (extP P K) fuel Gen.Ts.parser [.str] m0

/-- the parameters of the TypeScript parser: `TsSem` is parametrised by the SAME structure
    `Y.D.Params` as the list driver, and the TypeScript emitter always writes the dense table
    (`Action(x)` is `StateActionArray[this.Yystate][x]`), so the parameter set is `dparams` itself:
    no packed lookup and no `DenseWF` hypothesis in between -/
abbrev tsParams {V : Type} (G : Grammar) (T : Dense) (n : Nat) (sem : Nat → List V → V) (eofVal : V) :
    Params V := dparams G T n sem eofVal

/-- its lookup is the dense cell … -/
theorem tsParams_L {V : Type} (G : Grammar) (T : Dense) (n : Nat) (sem : Nat → List V → V) (eofVal : V)
    (q a : Nat) : (tsParams G T n sem eofVal).L q a = (T[q]?).bind (fun row => row[a]?) := rfl

/-- … and that is what the interpreter answers for `state.Action(k)` (`state` a reference to a
    `StateSym` cell with `Yystate = st`): the cell `T[st][k]`; no such cell, a negative `st` or `k`:
    TypeError -/
theorem ts_action_dense {V : Type} (G : Grammar) (T : Dense) (n : Nat) (sem : Nat → List V → V) (eofVal : V)
    (X : Ext V) (m : M V) (a : Nat) (st sy k : Int) (x : V) (ha : m.heap[a]? = some (.sym st sy x))
    (hst : 0 ≤ st) (hk : 0 ≤ k) :
    callFn (tsParams G T n sem eofVal) X .Action (some (.ref a)) [.num k] m =
      match cell T st.toNat k.toNat with
      | some c => .ok (.num c) m
      | none => .crash := by
  simp only [callFn, ha, hst, hk, and_self, ↓reduceIte, dparams]
  cases cell T st.toNat k.toNat <;> rfl

/-- the state in which the theorems below call `Parser`: the stack is the one `initialize()`
    builds (one `StateSym(0,1)`, pointer 1), the input `w` is still to be fetched, nothing has been
    requested or reduced.  Heap, local variables and the `console.error` count are arbitrary. -/
structure TsStart {V : Type} (K : Consts V) (w : List (Sym × V)) (m0 : M V) : Prop where
  stack : StackRel m0 (initGlobal K.undefV)
  input : m0.input = w
  req : m0.req = 0
  reds : m0.reds = []

/-- `initialize()` establishes it, whatever array and pointer the module variables held … -/
theorem tsStart_initialize {V : Type} (P : Params V) (K : Consts V) (fuel : Nat) (m : M V)
    (w : List (Sym × V)) (hin : m.input = w) (hreq : m.req = 0) (hreds : m.reds = []) :
    ∃ m0, invoke P K ext0 fuel Gen.Ts.initialize [] m = .norm m0 ∧ TsStart K w m0 ∧
      m0.errs = m.errs ∧ m0.env = m.env :=
  ⟨_, (init_ts_eq P K fuel m).1, ⟨(init_ts_eq P K fuel m).2, hin, hreq, hreds⟩, rfl, rfl⟩

/-- … and so do the statements at the end of the generated module (`initialize();`) -/
theorem tsStart_load {V : Type} (P : Params V) (K : Consts V) (fuel : Nat) (m : M V)
    (w : List (Sym × V)) (hin : m.input = w) (hreq : m.req = 0) (hreds : m.reds = []) :
    ∃ m0, execs P K (extP P K) fuel m Gen.Ts.moduleTail = .norm m0 ∧ TsStart K w m0 ∧
      m0.errs = m.errs ∧ m0.env = m.env :=
  ⟨_, (load_ts_eq P K fuel m).1, ⟨(load_ts_eq P K fuel m).2, hin, hreq, hreds⟩, rfl, rfl⟩

/-- **Composition** (C08c ∘ C08) for an arbitrary parameter set: from a start state the translated
    `Parser` ends as the list driver does (`OutRel`: `accept v` ↦ `return state.ValType`,
    `syntaxError` ↦ ONE `console.error` and `return null`, `crash` ↦ TypeError, `nil` ↦ `return null`
    from a guard — which `absOutcome` excludes) -/
theorem parser_ts_list {V : Type} (P : Params V) (K : Consts V) (fuel : Nat) (m0 : M V)
    (w : List (Sym × V)) (hs : TsStart K w m0) :
    ∃ o cl, OutRel m0 cl (tsParser P K fuel m0) o ∧
      absOutcome o = some (run P fuel (init K.undefV w)) :=
  have h := parser_ts_init P K fuel m0 w hs.stack hs.input hs.req hs.reds
  ⟨_, _, h.1, h.2.1⟩

/-- an answer other than `outOfFuel` is the answer for every larger bound on the loop iterations
    (all parameters, all machine states) -/
theorem tsParser_mono {V : Type} (P : Params V) (K : Consts V) (fuel : Nat) (m0 : M V)
    (h : tsParser P K fuel m0 ≠ .outOfFuel) (fuel' : Nat) (hf : fuel ≤ fuel') :
    tsParser P K fuel' m0 = tsParser P K fuel m0 :=
  invoke_mono P K _ fuel _ _ m0 h fuel' hf

/-- what `Final` says about the ghost counters of the machine, for a configuration of the model
    with `req + |rest| = |w| + 1`: either the offending token is the current lookahead (it was
    taken off the input, nothing was requested after it) or the input is used up -/
theorem final_counts {V : Type} {m0 m : M V} {c : ACfg V} {len : Nat} (hf : Final m0 c m)
    (hc : c.req + c.rest.length = len + 1) :
    m.req + m.input.length = len ∨ (m.req = len + 1 ∧ m.input = []) := by
  rw [hf.req, hf.input]
  cases hrest : c.rest with
  | nil => rw [hrest] at hc; exact .inr ⟨by simpa using hc, rfl⟩
  | cons x tl =>
    rw [hrest] at hc
    simp only [List.length_cons] at hc
    exact .inl (by simp only [List.tail_cons]; omega)

section pipeline
variable {V : Type} (res : Action → Action → Action) (hR : ResSel res)
  (G : Grammar) (nS : Nat) (P : PrecData) (A : Auto) (t : LATab)
  (sem : Nat → List V → V) (eofVal bv : V) (K : Consts V)
  (hG : gramWF G nS = true) (hB : buildL G = some A) (hLa : laL G nS A = some t)
include hR hG hB hLa

/-! ### from the composition statement to the conclusions of the pipeline theorems -/

theorem C01_ts_of_outcome
    (w : List (Sym × V)) (hw : ∀ x ∈ w, x.1 ≤ G.nT ∧ x.1 ≠ 1) (fuel : Nat)
    (m0 : M V) (r : Res V)
    (hr : ∃ o cl, OutRel m0 cl r o ∧
      absOutcome o = some (run (dparams G (genTableL res G nS P A t) A.n sem eofVal) fuel (init bv w)))
    (v : V) (m : M V) (hrun : r = .ret (.val v) m) :
    ∃ rl0, G.rules[0]? = some rl0 ∧ rl0.lhs = 0 ∧
      RmDer G rl0.rhs m.reds (w.map Prod.fst) ∧ m.input = [] ∧ m.req = w.length + 1 ∧
      m.errs = m0.errs ∧ m.env = m0.env := by
  obtain ⟨o, cl, ho, habs⟩ := hr
  subst hrun
  cases o with
  | accept v2 c =>
    obtain ⟨m', e, hf, he⟩ := ho
    simp only [Res.ret.injEq, Val.val.injEq] at e
    obtain ⟨rfl, rfl⟩ := e
    simp only [absOutcome, Option.some.injEq] at habs
    obtain ⟨rl0, h0, hl, hder, hrest, hreq⟩ :=
      C01_pipeline res hR G nS P A t sem eofVal bv hG hB hLa w hw fuel v (absCfg c) habs.symm
    refine ⟨rl0, h0, hl, ?_, ?_, ?_, he, hf.env⟩
    · rw [hf.reds]; exact hder
    · rw [hf.input]
      have : c.rest = [] := hrest
      rw [this]; rfl
    · rw [hf.req]; exact hreq
  | syntaxError c => obtain ⟨m', e, -⟩ := ho; simp at e
  | crash => simp [OutRel] at ho
  | outOfFuel => simp [OutRel] at ho
  | nil => simp [absOutcome] at habs

theorem C06_ts_of_outcome
    (w : List (Sym × V)) (hw : ∀ x ∈ w, x.1 ≤ G.nT ∧ x.1 ≠ 1) (fuel : Nat)
    (m0 : M V) (r : Res V)
    (hr : ∃ o cl, OutRel m0 cl r o ∧
      absOutcome o = some (run (dparams G (genTableL res G nS P A t) A.n sem eofVal) fuel (init bv w))) :
    r ≠ .crash ∧ (∀ m, r ≠ .norm m) ∧ (∀ m, r ≠ .brk m) ∧
    (∀ x m, r = .ret x m → (∃ v, x = .val v ∧ m.errs = m0.errs) ∨ x = .null) ∧
    ∀ m, r = .ret .null m → m.errs = m0.errs + 1 ∧ m.env = m0.env ∧
      (m.req + m.input.length = w.length ∨ (m.req = w.length + 1 ∧ m.input = [])) ∧
      ∃ c, Final m0 c m ∧ c.req + c.rest.length = w.length + 1 := by
  obtain ⟨o, cl, ho, habs⟩ := hr
  obtain ⟨hnc, herr⟩ := C06_pipeline res hR G nS P A t sem eofVal bv hG hB hLa w hw fuel
  cases o with
  | accept v c =>
    obtain ⟨m', rfl, hf, he⟩ := ho
    refine ⟨by simp, by simp, by simp, ?_, by simp⟩
    intro x m e
    simp only [Res.ret.injEq] at e
    obtain ⟨rfl, rfl⟩ := e
    exact .inl ⟨v, rfl, he⟩
  | syntaxError c =>
    obtain ⟨m', rfl, hf, he⟩ := ho
    simp only [absOutcome, Option.some.injEq] at habs
    have hc : c.req + c.rest.length = w.length + 1 := herr (absCfg c) habs.symm
    refine ⟨by simp, by simp, by simp, ?_, ?_⟩
    · intro x m e
      simp only [Res.ret.injEq] at e
      exact .inr e.1.symm
    · intro m e
      simp only [Res.ret.injEq, true_and] at e
      subst e
      exact ⟨he, hf.env, final_counts hf hc, c, hf, hc⟩
  | crash =>
    simp only [absOutcome, Option.some.injEq] at habs
    exact absurd habs.symm hnc
  | outOfFuel =>
    have e : r = .outOfFuel := ho
    subst e
    simp
  | nil => simp [absOutcome] at habs

theorem C02_ts_of_outcome
    (hM : maxCandsL G nS P A t ≤ 1) (S₀ : Sym) (h0 : G.rules[0]? = some ⟨0, [S₀]⟩)
    (w : List (Sym × V)) (hwT : ∀ x ∈ w, G.isT x.1 = true ∧ x.1 ≠ 1)
    (m0 : M V) (r : Nat → Res V)
    (hr : ∀ fuel, ∃ o cl, OutRel m0 cl (r fuel) o ∧
      absOutcome o = some (run (dparams G (genTableL res G nS P A t) A.n sem eofVal) fuel (init bv w))) :
    (∃ fuel v m, r fuel = .ret (.val v) m) ↔ GenL G [S₀] (w.map Prod.fst) := by
  rw [← C02_pipeline res hR G nS P A t sem eofVal bv hG hB hLa hM S₀ h0 w hwT]
  constructor
  · rintro ⟨fuel, v, m, hrun⟩
    obtain ⟨o, cl, ho, habs⟩ := hr fuel
    rw [hrun] at ho
    cases o with
    | accept v2 c =>
      obtain ⟨m', e, -⟩ := ho
      simp only [Res.ret.injEq, Val.val.injEq] at e
      obtain ⟨rfl, rfl⟩ := e
      simp only [absOutcome, Option.some.injEq] at habs
      exact ⟨fuel, v, absCfg c, habs.symm⟩
    | syntaxError c => obtain ⟨m', e, -⟩ := ho; simp at e
    | crash => simp [OutRel] at ho
    | outOfFuel => simp [OutRel] at ho
    | nil => simp [absOutcome] at habs
  · rintro ⟨fuel, v, c', hrun⟩
    obtain ⟨o, cl, ho, habs⟩ := hr fuel
    rw [hrun] at habs
    obtain ⟨c, rfl, _⟩ := absOutcome_accept habs
    obtain ⟨m', e, -⟩ := ho
    exact ⟨fuel, v, m', e⟩

/-- within `termBound F |w|` loop iterations the call ends: by a value, or by ONE `console.error`
    and `null` -/
theorem term_ts_of_outcome (F : Nat)
    (hF : certTerm G (genTableL res G nS P A t) A.n F = true)
    (w : List (Sym × V)) (hw : ∀ x ∈ w, x.1 ≤ G.nT ∧ x.1 ≠ 1)
    (m0 : M V) (r : Nat → Res V)
    (hr : ∀ fuel, ∃ o cl, OutRel m0 cl (r fuel) o ∧
      absOutcome o = some (run (dparams G (genTableL res G nS P A t) A.n sem eofVal) fuel (init bv w))) :
    ∃ fuel, fuel ≤ termBound F w.length ∧
      ((∃ v m, r fuel = .ret (.val v) m ∧ m.errs = m0.errs) ∨
       ∃ m c, r fuel = .ret .null m ∧ m.errs = m0.errs + 1 ∧ Final m0 c m ∧
         c.req + c.rest.length = w.length + 1) := by
  obtain ⟨fuel, hle, hfuel⟩ := C06_terminates_bound G (genTableL res G nS P A t) A.n sem eofVal bv F hF w
  obtain ⟨o, cl, ho, habs⟩ := hr fuel
  obtain ⟨hnc, herr⟩ := C06_pipeline res hR G nS P A t sem eofVal bv hG hB hLa w hw fuel
  refine ⟨fuel, hle, ?_⟩
  cases o with
  | accept v c =>
    obtain ⟨m', e, -, he⟩ := ho
    exact .inl ⟨v, m', e, he⟩
  | syntaxError c =>
    obtain ⟨m', e, hf, he⟩ := ho
    simp only [absOutcome, Option.some.injEq] at habs
    exact .inr ⟨m', c, e, he, hf, herr (absCfg c) habs.symm⟩
  | crash =>
    simp only [absOutcome, Option.some.injEq] at habs
    exact absurd habs.symm hnc
  | outOfFuel =>
    simp only [absOutcome, Option.some.injEq] at habs
    exact absurd habs.symm hfuel
  | nil => simp [absOutcome] at habs

theorem terminates_ts_of_outcome (F : Nat)
    (hF : certTerm G (genTableL res G nS P A t) A.n F = true)
    (w : List (Sym × V)) (hw : ∀ x ∈ w, x.1 ≤ G.nT ∧ x.1 ≠ 1)
    (m0 : M V) (r : Nat → Res V)
    (hr : ∀ fuel, ∃ o cl, OutRel m0 cl (r fuel) o ∧
      absOutcome o = some (run (dparams G (genTableL res G nS P A t) A.n sem eofVal) fuel (init bv w)))
    (hmono : ∀ fuel, r fuel ≠ .outOfFuel → ∀ fuel', fuel ≤ fuel' → r fuel' = r fuel) :
    ∃ fuel, fuel ≤ termBound F w.length ∧
      r fuel ≠ .outOfFuel ∧ r fuel ≠ .crash ∧
      ((∃ v m, r fuel = .ret (.val v) m ∧ m.errs = m0.errs) ∨
       ∃ m c, r fuel = .ret .null m ∧ m.errs = m0.errs + 1 ∧ Final m0 c m ∧
         c.req + c.rest.length = w.length + 1) ∧
      ∀ fuel', fuel ≤ fuel' → r fuel' = r fuel := by
  obtain ⟨fuel, hle, hd⟩ :=
    term_ts_of_outcome res hR G nS P A t sem eofVal bv hG hB hLa F hF w hw m0 r hr
  have hne : r fuel ≠ .outOfFuel ∧ r fuel ≠ .crash := by
    rcases hd with ⟨v, m, h, -⟩ | ⟨m, c, h, -⟩ <;> rw [h] <;> simp
  exact ⟨fuel, hle, hne.1, hne.2, hd, hmono fuel hne.1⟩

theorem decides_ts_of_outcome
    (hM : maxCandsL G nS P A t ≤ 1) (S₀ : Sym) (h0 : G.rules[0]? = some ⟨0, [S₀]⟩) (F : Nat)
    (hF : certTerm G (genTableL res G nS P A t) A.n F = true)
    (w : List (Sym × V)) (hwT : ∀ x ∈ w, G.isT x.1 = true ∧ x.1 ≠ 1)
    (m0 : M V) (r : Nat → Res V)
    (hr : ∀ fuel, ∃ o cl, OutRel m0 cl (r fuel) o ∧
      absOutcome o = some (run (dparams G (genTableL res G nS P A t) A.n sem eofVal) fuel (init bv w)))
    (hmono : ∀ fuel, r fuel ≠ .outOfFuel → ∀ fuel', fuel ≤ fuel' → r fuel' = r fuel) :
    ∃ fuel, fuel ≤ termBound F w.length ∧ ∀ fuel', fuel ≤ fuel' →
      ((∃ v m, r fuel' = .ret (.val v) m) ↔ GenL G [S₀] (w.map Prod.fst)) ∧
      (GenL G [S₀] (w.map Prod.fst) → ∃ v m, r fuel' = .ret (.val v) m ∧
        RmDer G [S₀] m.reds (w.map Prod.fst) ∧ m.input = [] ∧ m.req = w.length + 1 ∧
        m.errs = m0.errs) ∧
      (¬ GenL G [S₀] (w.map Prod.fst) → ∃ m c, r fuel' = .ret .null m ∧ m.errs = m0.errs + 1 ∧
        Final m0 c m ∧ c.req + c.rest.length = w.length + 1) := by
  have hw : ∀ x ∈ w, x.1 ≤ G.nT ∧ x.1 ≠ 1 := fun x hx => ⟨(isT_pos (hwT x hx).1).2, (hwT x hx).2⟩
  have h02 := C02_ts_of_outcome res hR G nS P A t sem eofVal bv hG hB hLa hM S₀ h0 w hwT m0 r hr
  obtain ⟨fuel, hle, hd⟩ :=
    term_ts_of_outcome res hR G nS P A t sem eofVal bv hG hB hLa F hF w hw m0 r hr
  refine ⟨fuel, hle, ?_⟩
  intro fuel' hf
  rcases hd with ⟨v, m, h, -⟩ | ⟨m, c, h, he, hfin, hc⟩
  · -- a value: the input is a sentence
    have hst : r fuel' = .ret (.val v) m := by
      rw [hmono fuel (by rw [h]; simp) fuel' hf, h]
    have hgen : GenL G [S₀] (w.map Prod.fst) := h02.mp ⟨fuel, v, m, h⟩
    refine ⟨⟨fun _ => hgen, fun _ => ⟨v, m, hst⟩⟩, fun _ => ?_, fun hn => absurd hgen hn⟩
    obtain ⟨rl0, hr0, -, hder, hin, hreq, herrs, -⟩ :=
      C01_ts_of_outcome res hR G nS P A t sem eofVal bv hG hB hLa w hw fuel' m0 (r fuel') (hr fuel') v m hst
    rw [h0] at hr0
    cases hr0
    exact ⟨v, m, hst, hder, hin, hreq, herrs⟩
  · -- the syntax error: the input is not a sentence
    have hst : r fuel' = .ret .null m := by
      rw [hmono fuel (by rw [h]; simp) fuel' hf, h]
    have hngen : ¬ GenL G [S₀] (w.map Prod.fst) := by
      intro hgen
      obtain ⟨f2, v, m2, h2⟩ := h02.mpr hgen
      have e1 := hmono fuel (by rw [h]; simp) (max fuel f2) (Nat.le_max_left _ _)
      have e2 := hmono f2 (by rw [h2]; simp) (max fuel f2) (Nat.le_max_right _ _)
      rw [e1, h, h2] at e2
      cases e2
    refine ⟨⟨fun ⟨v, m', hv⟩ => ?_, fun hgen => absurd hgen hngen⟩, fun hgen => absurd hgen hngen,
      fun _ => ⟨m, c, hst, he, hfin, hc⟩⟩
    rw [hst] at hv
    cases hv


/-! ## 2. the composition on the dense table, and C01 / C06 / C02 for the TypeScript text -/

omit hR hG hB hLa in
/-- **Composition.** From a start state, the translated `Parser` of the TypeScript back end on the
    dense table ends as the list driver on that table does.  (No pipeline hypothesis is used: the
    lookup of `tsParams` IS the dense lookup.) -/
theorem parser_ts_dense
    (w : List (Sym × V)) (fuel : Nat) (m0 : M V) (hs : TsStart K w m0) :
    ∃ o cl,
      OutRel m0 cl (tsParser (tsParams G (genTableL res G nS P A t) A.n sem eofVal) K fuel m0) o ∧
      absOutcome o = some (run (dparams G (genTableL res G nS P A t) A.n sem eofVal) fuel (init K.undefV w)) :=
  parser_ts_list _ K fuel m0 w hs

/-- **C01, end to end (TypeScript).** For every well-formed grammar for which the verified
    generators return: if the translated `Parser`, called in the state `initialize()` establishes,
    returns a value, then the reductions it performed (most recent first) are a rightmost derivation
    of exactly the input from the start rule's body; all input was consumed, `|w|+1` tokens were
    requested, `console.error` was not called and the caller's variables are unchanged. -/
theorem C01_end_to_end_ts
    (w : List (Sym × V)) (hw : ∀ x ∈ w, x.1 ≤ G.nT ∧ x.1 ≠ 1) (fuel : Nat)
    (m0 : M V) (hs : TsStart K w m0) (v : V) (m : M V)
    (hrun : tsParser (tsParams G (genTableL res G nS P A t) A.n sem eofVal) K fuel m0 = .ret (.val v) m) :
    ∃ rl0, G.rules[0]? = some rl0 ∧ rl0.lhs = 0 ∧
      RmDer G rl0.rhs m.reds (w.map Prod.fst) ∧ m.input = [] ∧ m.req = w.length + 1 ∧
      m.errs = m0.errs ∧ m.env = m0.env :=
  C01_ts_of_outcome res hR G nS P A t sem eofVal K.undefV hG hB hLa w hw fuel m0 _
    (parser_ts_dense res G nS P A t sem eofVal K w fuel m0 hs) v m hrun

/-- **C06, end to end (TypeScript).** On valid inputs the translated `Parser` never ends in a
    TypeError (`crash`: every `StateSymStack[i]` it dereferences is an entry, every
    `StateActionArray[q][a]` it reads is a cell, every reduce has its `case` and its handle on the
    stack); what it returns is a `ValType` (then nothing was printed) or `null`; and `null` is never
    silent: `console.error` was called exactly once (so the two guards at the head of the loop were
    not taken), at a configuration `c` of the model with `req + |rest| = |w| + 1` — nothing was
    requested from the lexer after the offending token. -/
theorem C06_end_to_end_ts
    (w : List (Sym × V)) (hw : ∀ x ∈ w, x.1 ≤ G.nT ∧ x.1 ≠ 1) (fuel : Nat)
    (m0 : M V) (hs : TsStart K w m0) :
    tsParser (tsParams G (genTableL res G nS P A t) A.n sem eofVal) K fuel m0 ≠ .crash ∧
    (∀ m, tsParser (tsParams G (genTableL res G nS P A t) A.n sem eofVal) K fuel m0 ≠ .norm m) ∧
    (∀ m, tsParser (tsParams G (genTableL res G nS P A t) A.n sem eofVal) K fuel m0 ≠ .brk m) ∧
    (∀ x m, tsParser (tsParams G (genTableL res G nS P A t) A.n sem eofVal) K fuel m0 = .ret x m →
      (∃ v, x = .val v ∧ m.errs = m0.errs) ∨ x = .null) ∧
    ∀ m, tsParser (tsParams G (genTableL res G nS P A t) A.n sem eofVal) K fuel m0 = .ret .null m →
      m.errs = m0.errs + 1 ∧ m.env = m0.env ∧
      (m.req + m.input.length = w.length ∨ (m.req = w.length + 1 ∧ m.input = [])) ∧
      ∃ c, Final m0 c m ∧ c.req + c.rest.length = w.length + 1 :=
  C06_ts_of_outcome res hR G nS P A t sem eofVal K.undefV hG hB hLa w hw fuel m0 _
    (parser_ts_dense res G nS P A t sem eofVal K w fuel m0 hs)

/-- **C02, end to end (TypeScript).** For every LALR(1) grammar (no table cell with two
    candidates) and every string of terminals other than `$`: the translated `Parser` returns a
    value (for some bound on the number of loop iterations) iff the string is a sentence. -/
theorem C02_end_to_end_ts
    (hM : maxCandsL G nS P A t ≤ 1) (S₀ : Sym) (h0 : G.rules[0]? = some ⟨0, [S₀]⟩)
    (w : List (Sym × V)) (hwT : ∀ x ∈ w, G.isT x.1 = true ∧ x.1 ≠ 1)
    (m0 : M V) (hs : TsStart K w m0) :
    (∃ fuel v m, tsParser (tsParams G (genTableL res G nS P A t) A.n sem eofVal) K fuel m0
        = .ret (.val v) m) ↔ GenL G [S₀] (w.map Prod.fst) :=
  C02_ts_of_outcome res hR G nS P A t sem eofVal K.undefV hG hB hLa hM S₀ h0 w hwT m0 _
    (fun fuel => parser_ts_dense res G nS P A t sem eofVal K w fuel m0 hs)

/-! ## 3. termination and decision -/

/-- **C06, end to end, termination (TypeScript).** If the table passes the termination
    certificate with `F` moves, then for every valid input there is a bound
    `fuel ≤ termBound F |w| = (|w|+1)·(1+|w|·F)·F` on the iterations of the `while (true)` loop with
    which the translated `Parser` is NOT out of fuel and did not end in a TypeError; it returned a
    value (nothing printed) or printed once and returned `null`, at the offending token; and every
    larger bound gives the same result (the same machine state, heap included). -/
theorem C06_end_to_end_terminates_ts (F : Nat)
    (hF : certTerm G (genTableL res G nS P A t) A.n F = true)
    (w : List (Sym × V)) (hw : ∀ x ∈ w, x.1 ≤ G.nT ∧ x.1 ≠ 1)
    (m0 : M V) (hs : TsStart K w m0) :
    ∃ fuel, fuel ≤ termBound F w.length ∧
      tsParser (tsParams G (genTableL res G nS P A t) A.n sem eofVal) K fuel m0 ≠ .outOfFuel ∧
      tsParser (tsParams G (genTableL res G nS P A t) A.n sem eofVal) K fuel m0 ≠ .crash ∧
      ((∃ v m, tsParser (tsParams G (genTableL res G nS P A t) A.n sem eofVal) K fuel m0 = .ret (.val v) m ∧
          m.errs = m0.errs) ∨
       ∃ m c, tsParser (tsParams G (genTableL res G nS P A t) A.n sem eofVal) K fuel m0 = .ret .null m ∧
          m.errs = m0.errs + 1 ∧ Final m0 c m ∧ c.req + c.rest.length = w.length + 1) ∧
      ∀ fuel', fuel ≤ fuel' →
        tsParser (tsParams G (genTableL res G nS P A t) A.n sem eofVal) K fuel' m0
          = tsParser (tsParams G (genTableL res G nS P A t) A.n sem eofVal) K fuel m0 :=
  terminates_ts_of_outcome res hR G nS P A t sem eofVal K.undefV hG hB hLa F hF w hw m0 _
    (fun fuel => parser_ts_dense res G nS P A t sem eofVal K w fuel m0 hs)
    (fun fuel h fuel' hf => tsParser_mono _ K fuel m0 h fuel' hf)

/-- **The TypeScript text is a decision procedure.** For every LALR(1) grammar whose table passes
    the termination certificate and every string `w` of terminals other than `$`: there is a bound
    `fuel ≤ termBound F |w|` such that for EVERY bound `fuel' ≥ fuel` the translated `Parser`
    returns a value iff `w` is a sentence — then after reductions that are a rightmost derivation
    of `w`, all input consumed, nothing printed — and otherwise prints once and returns `null`,
    with `req + |rest| = |w| + 1`. -/
theorem C06_end_to_end_decides_ts
    (hM : maxCandsL G nS P A t ≤ 1) (S₀ : Sym) (h0 : G.rules[0]? = some ⟨0, [S₀]⟩) (F : Nat)
    (hF : certTerm G (genTableL res G nS P A t) A.n F = true)
    (w : List (Sym × V)) (hwT : ∀ x ∈ w, G.isT x.1 = true ∧ x.1 ≠ 1)
    (m0 : M V) (hs : TsStart K w m0) :
    ∃ fuel, fuel ≤ termBound F w.length ∧ ∀ fuel', fuel ≤ fuel' →
      ((∃ v m, tsParser (tsParams G (genTableL res G nS P A t) A.n sem eofVal) K fuel' m0
          = .ret (.val v) m) ↔ GenL G [S₀] (w.map Prod.fst)) ∧
      (GenL G [S₀] (w.map Prod.fst) →
        ∃ v m, tsParser (tsParams G (genTableL res G nS P A t) A.n sem eofVal) K fuel' m0
          = .ret (.val v) m ∧
        RmDer G [S₀] m.reds (w.map Prod.fst) ∧ m.input = [] ∧ m.req = w.length + 1 ∧
        m.errs = m0.errs) ∧
      (¬ GenL G [S₀] (w.map Prod.fst) →
        ∃ m c, tsParser (tsParams G (genTableL res G nS P A t) A.n sem eofVal) K fuel' m0
          = .ret .null m ∧ m.errs = m0.errs + 1 ∧
        Final m0 c m ∧ c.req + c.rest.length = w.length + 1) :=
  decides_ts_of_outcome res hR G nS P A t sem eofVal K.undefV hG hB hLa hM S₀ h0 F hF w hwT m0 _
    (fun fuel => parser_ts_dense res G nS P A t sem eofVal K w fuel m0 hs)
    (fun fuel h fuel' hf => tsParser_mono _ K fuel m0 h fuel' hf)

/-! ## 4. C15: a second call -/

/-- **with `initialize()` in between** the second call is in a start state again, so §2 and §3
    hold for it: here C01 and C06 spelled out for the state `m2` that the translated `initialize`
    leaves (`m1`: ANY machine state, e.g. the one the first call left; `recall`: the caller hands
    over the new input) -/
theorem C15_ts_reinit
    (m1 : M V) (w2 : List (Sym × V)) (hw2 : ∀ x ∈ w2, x.1 ≤ G.nT ∧ x.1 ≠ 1) :
    ∃ m2, invoke (tsParams G (genTableL res G nS P A t) A.n sem eofVal) K ext0 0 Gen.Ts.initialize []
        (recall m1 w2) = .norm m2 ∧
      TsStart K w2 m2 ∧ m2.errs = m1.errs ∧ m2.env = m1.env ∧
      ∀ fuel,
        tsParser (tsParams G (genTableL res G nS P A t) A.n sem eofVal) K fuel m2 ≠ .crash ∧
        (∀ v m, tsParser (tsParams G (genTableL res G nS P A t) A.n sem eofVal) K fuel m2 = .ret (.val v) m →
          ∃ rl0, G.rules[0]? = some rl0 ∧ rl0.lhs = 0 ∧
            RmDer G rl0.rhs m.reds (w2.map Prod.fst) ∧ m.input = [] ∧ m.req = w2.length + 1 ∧
            m.errs = m1.errs) ∧
        ∀ m, tsParser (tsParams G (genTableL res G nS P A t) A.n sem eofVal) K fuel m2 = .ret .null m →
          m.errs = m1.errs + 1 ∧ ∃ c, Final m2 c m ∧ c.req + c.rest.length = w2.length + 1 := by
  obtain ⟨m2, e, hs, (he : m2.errs = m1.errs), (hv : m2.env = m1.env)⟩ :=
    tsStart_initialize (tsParams G (genTableL res G nS P A t) A.n sem eofVal) K 0 (recall m1 w2) w2 rfl rfl rfl
  refine ⟨m2, e, hs, he, hv, fun fuel => ?_⟩
  have h6 := C06_end_to_end_ts res hR G nS P A t sem eofVal K hG hB hLa w2 hw2 fuel m2 hs
  refine ⟨h6.1, fun v m hrun => ?_, fun m hrun => ?_⟩
  · obtain ⟨rl0, a, b, c, d, e', f, -⟩ :=
      C01_end_to_end_ts res hR G nS P A t sem eofVal K hG hB hLa w2 hw2 fuel m2 hs v m hrun
    exact ⟨rl0, a, b, c, d, e', f.trans he⟩
  · obtain ⟨a, -, -, b⟩ := h6.2.2.2.2 m hrun
    exact ⟨by rw [a, he], b⟩

/-- … and it decides the language of the grammar on the second input as well -/
theorem C15_ts_reinit_decides
    (hM : maxCandsL G nS P A t ≤ 1) (S₀ : Sym) (h0 : G.rules[0]? = some ⟨0, [S₀]⟩) (F : Nat)
    (hF : certTerm G (genTableL res G nS P A t) A.n F = true)
    (m1 : M V) (w2 : List (Sym × V)) (hwT : ∀ x ∈ w2, G.isT x.1 = true ∧ x.1 ≠ 1) :
    ∃ m2, invoke (tsParams G (genTableL res G nS P A t) A.n sem eofVal) K ext0 0 Gen.Ts.initialize []
        (recall m1 w2) = .norm m2 ∧
      ∃ fuel, fuel ≤ termBound F w2.length ∧ ∀ fuel', fuel ≤ fuel' →
        ((∃ v m, tsParser (tsParams G (genTableL res G nS P A t) A.n sem eofVal) K fuel' m2
            = .ret (.val v) m) ↔ GenL G [S₀] (w2.map Prod.fst)) ∧
        (¬ GenL G [S₀] (w2.map Prod.fst) →
          ∃ m, tsParser (tsParams G (genTableL res G nS P A t) A.n sem eofVal) K fuel' m2
            = .ret .null m ∧ m.errs = m1.errs + 1) := by
  obtain ⟨m2, e, hs, (he : m2.errs = m1.errs), -⟩ :=
    tsStart_initialize (tsParams G (genTableL res G nS P A t) A.n sem eofVal) K 0 (recall m1 w2) w2 rfl rfl rfl
  obtain ⟨fuel, hle, h⟩ :=
    C06_end_to_end_decides_ts res hR G nS P A t sem eofVal K hG hB hLa hM S₀ h0 F hF w2 hwT m2 hs
  refine ⟨m2, e, fuel, hle, fun fuel' hf => ⟨(h fuel' hf).1, fun hn => ?_⟩⟩
  obtain ⟨m, c, hr, hm, -⟩ := (h fuel' hf).2.2 hn
  exact ⟨m, hr, by rw [hm, he]⟩

end pipeline

/-- **without `initialize()` in between** (any parameter set, hence the pipeline's): whatever
    the first call returned, it left the stack of the configuration `c1` in which the run of the
    model ended (after an accept: the bottom entry and the entry of the start symbol; after a
    syntax error: whatever was on the stack), and the second call is the run of the model from THAT
    stack — `ainit c1.stack w2`, not `ainit (initGlobal …) w2`; §2 and §3 say nothing about it
    (`ex_ts_second` below: an accepted input is rejected the second time) -/
theorem C15_ts_second_call {V : Type} (P : Params V) (K : Consts V) (fuel1 fuel2 : Nat) (m0 : M V)
    (w1 w2 : List (Sym × V)) (hs : TsStart K w1 m0) (x : Val V) (m1 : M V)
    (h1 : tsParser P K fuel1 m0 = .ret x m1) :
    ∃ c1, ((∃ v, x = .val v ∧ arun P fuel1 (ainit (initGlobal K.undefV) w1) = .accept v c1) ∨
           (x = .null ∧ arun P fuel1 (ainit (initGlobal K.undefV) w1) = .syntaxError c1)) ∧
      Final m0 c1 m1 ∧ StackRel (recall m1 w2) c1.stack ∧
      OutRel (recall m1 w2) (alast P fuel2 (ainit c1.stack w2))
        (tsParser P K fuel2 (recall m1 w2)) (arun P fuel2 (ainit c1.stack w2)) := by
  obtain ⟨ho, -, hnil⟩ := parser_ts_init P K fuel1 m0 w1 hs.stack hs.input hs.req hs.reds
  have h1' : invoke P K (extP P K) fuel1 Gen.Ts.parser [.str] m0 = .ret x m1 := h1
  rw [h1'] at ho
  revert ho hnil
  cases arun P fuel1 (ainit (initGlobal K.undefV) w1) with
  | accept v c1 =>
    intro ho _
    obtain ⟨m', e, hf, -⟩ := ho
    simp only [Res.ret.injEq] at e
    obtain ⟨rfl, rfl⟩ := e
    exact ⟨c1, .inl ⟨v, rfl, rfl⟩, hf, hf.stack, parser_ts_second P K fuel2 m0 _ c1 w2 hf⟩
  | syntaxError c1 =>
    intro ho _
    obtain ⟨m', e, hf, -⟩ := ho
    simp only [Res.ret.injEq] at e
    obtain ⟨rfl, rfl⟩ := e
    exact ⟨c1, .inr ⟨rfl, rfl⟩, hf, hf.stack, parser_ts_second P K fuel2 m0 _ c1 w2 hf⟩
  | crash => intro ho _; simp [OutRel] at ho
  | outOfFuel => intro ho _; simp [OutRel] at ho
  | nil => intro _ hnil; exact absurd rfl hnil

/-! ## 5. Non-vacuity: `S' → S ; S → a S | b` (`exG`, table `exT`, 5 states, `F = 3`)

`ex_pipeline` (the verified pipeline returns `exT` on `exG`, no cell has two candidates) and
`ex_certTerm` discharge every hypothesis; the start state exists (`exTs0`, what the module tail
leaves of the empty machine).  No `DenseWF` is needed: the TypeScript text reads the dense table. -/

def KU : Consts Unit := { undefV := (), emptyV := () }

/-- the dense-table parameters of `exG` -/
abbrev exTsP : Params Unit := tsParams exG exT 5 (fun _ _ => ()) ()

/-- the module's variables before `initialize();` runs -/
def exTsEmpty (w : List (Sym × Unit)) : M Unit :=
  { heap := [], arr := [], sp := 0, env := [], input := w, req := 0, reds := [], errs := 0 }

/-- … and after: one `StateSym(0,1)` on the heap, `StateSymStack = [ref 0]`, pointer 1 -/
def exTs0 (w : List (Sym × Unit)) : M Unit :=
  { heap := [.sym 0 1 ()], arr := [0], sp := 1, env := [], input := w, req := 0, reds := [], errs := 0 }

theorem exTs0_load (w : List (Sym × Unit)) (fuel : Nat) :
    execs exTsP KU (extP exTsP KU) fuel (exTsEmpty w) Gen.Ts.moduleTail = .norm (exTs0 w) :=
  (load_ts_eq exTsP KU fuel (exTsEmpty w)).1

theorem exTs0_start (w : List (Sym × Unit)) : TsStart KU w (exTs0 w) :=
  ⟨(load_ts_eq exTsP KU 0 (exTsEmpty w)).2, rfl, rfl, rfl⟩

/-- **instance of `C01_end_to_end_ts`**: on every input over the codes `0, 2, 3` (unknown, `a`, `b`),
    in every start state, a value returned by the translated `Parser` on the dense table `exT`
    comes with a rightmost derivation of the input from `S` (symbol 4) -/
theorem ex_ts_sound (w : List (Sym × Unit)) (hw : ∀ x ∈ w, x.1 ≤ 3 ∧ x.1 ≠ 1) (fuel : Nat)
    (m0 : M Unit) (hs : TsStart KU w m0) (v : Unit) (m : M Unit)
    (hrun : tsParser exTsP KU fuel m0 = .ret (.val v) m) :
    RmDer exG [4] m.reds (w.map Prod.fst) ∧ m.input = [] ∧ m.req = w.length + 1 ∧ m.errs = m0.errs := by
  obtain ⟨A, t, hB, hL, hT, hM, hn⟩ := ex_pipeline
  have := C01_end_to_end_ts Core.pairWinner C01_pairWinner_sel exG 5 noPrec A t
    (fun _ _ => ()) () KU (by decide) hB hL w hw fuel m0 hs v m (by rw [hT, hn]; exact hrun)
  obtain ⟨rl0, h0, -, hder, hin, hreq, he, -⟩ := this
  have e0 : exG.rules[0]? = some ⟨0, [4]⟩ := rfl
  rw [e0] at h0
  cases h0
  exact ⟨hder, hin, hreq, he⟩

/-- **instance of `C06_end_to_end_terminates_ts`**: in every start state the translated `Parser` on
    `exT` halts within `(|w|+1)·(1+3|w|)·3` loop iterations, with a value or with one
    `console.error` and `null`; never a TypeError -/
theorem ex_ts_terminates (w : List (Sym × Unit)) (hw : ∀ x ∈ w, x.1 ≤ 3 ∧ x.1 ≠ 1)
    (m0 : M Unit) (hs : TsStart KU w m0) :
    ∃ fuel, fuel ≤ (w.length + 1) * (1 + w.length * 3) * 3 ∧
      tsParser exTsP KU fuel m0 ≠ .outOfFuel ∧ tsParser exTsP KU fuel m0 ≠ .crash ∧
      ((∃ v m, tsParser exTsP KU fuel m0 = .ret (.val v) m ∧ m.errs = m0.errs) ∨
       ∃ m c, tsParser exTsP KU fuel m0 = .ret .null m ∧ m.errs = m0.errs + 1 ∧ Final m0 c m ∧
          c.req + c.rest.length = w.length + 1) ∧
      ∀ fuel', fuel ≤ fuel' → tsParser exTsP KU fuel' m0 = tsParser exTsP KU fuel m0 := by
  obtain ⟨A, t, hB, hL, hT, hM, hn⟩ := ex_pipeline
  have hF : certTerm exG (genTableL Core.pairWinner exG 5 noPrec A t) A.n 3 = true := by
    rw [hT, hn]; exact ex_certTerm
  have := C06_end_to_end_terminates_ts Core.pairWinner C01_pairWinner_sel exG 5 noPrec A t
    (fun _ _ => ()) () KU (by decide) hB hL 3 hF w hw m0 hs
  rw [hT, hn] at this
  exact this

/-- **instance of `C06_end_to_end_decides_ts`**: for every string over `a` (2) and `b` (3) the
    translated `Parser` on `exT` decides membership in the language of `exG` within the same bound -/
theorem ex_ts_decides (w : List (Sym × Unit)) (hw : ∀ x ∈ w, x.1 = 2 ∨ x.1 = 3)
    (m0 : M Unit) (hs : TsStart KU w m0) :
    ∃ fuel, fuel ≤ (w.length + 1) * (1 + w.length * 3) * 3 ∧ ∀ fuel', fuel ≤ fuel' →
      ((∃ v m, tsParser exTsP KU fuel' m0 = .ret (.val v) m) ↔ GenL exG [4] (w.map Prod.fst)) ∧
      (GenL exG [4] (w.map Prod.fst) →
        ∃ v m, tsParser exTsP KU fuel' m0 = .ret (.val v) m ∧
        RmDer exG [4] m.reds (w.map Prod.fst) ∧ m.input = [] ∧ m.req = w.length + 1 ∧
        m.errs = m0.errs) ∧
      (¬ GenL exG [4] (w.map Prod.fst) →
        ∃ m c, tsParser exTsP KU fuel' m0 = .ret .null m ∧ m.errs = m0.errs + 1 ∧
        Final m0 c m ∧ c.req + c.rest.length = w.length + 1) := by
  obtain ⟨A, t, hB, hL, hT, hM, hn⟩ := ex_pipeline
  have hF : certTerm exG (genTableL Core.pairWinner exG 5 noPrec A t) A.n 3 = true := by
    rw [hT, hn]; exact ex_certTerm
  have hwT : ∀ x ∈ w, exG.isT x.1 = true ∧ x.1 ≠ 1 := by
    intro x hx
    rcases hw x hx with h | h <;> rw [h] <;> decide
  have := C06_end_to_end_decides_ts Core.pairWinner C01_pairWinner_sel exG 5 noPrec A t
    (fun _ _ => ()) () KU (by decide) hB hL (by omega) 4 rfl 3 hF w hwT m0 hs
  rw [hT, hn] at this
  exact this

/-! ### direct evaluation of the interpreter on `exT` (independent of the theorems above) -/

/-- kind (0 value, 1 `null`, 2 TypeError, 3 out of fuel, 4 other), reductions, tokens requested,
    tokens left, `console.error` calls, pointer -/
def tsView : Res Unit → Nat × List Nat × Nat × Nat × Nat × Int
  | .ret (.val _) m => (0, m.reds, m.req, m.input.length, m.errs, m.sp)
  | .ret .null m => (1, m.reds, m.req, m.input.length, m.errs, m.sp)
  | .crash => (2, [], 0, 0, 0, 0)
  | .outOfFuel => (3, [], 0, 0, 0, 0)
  | _ => (4, [], 0, 0, 0, 0)

def tsStateOf (w : List (Sym × Unit)) : Res Unit → M Unit
  | .norm m => m
  | .brk m => m
  | .ret _ m => m
  | _ => exTsEmpty w

/-- `a a b`: a value, reductions 2, 1, 1 (most recent first), four tokens requested, nothing printed -/
theorem ex_ts_run : tsView (tsParser exTsP KU 20 (exTs0 [(2, ()), (2, ()), (3, ())]))
    = (0, [1, 1, 2], 4, 0, 0, 2) := by decide +kernel

/-- `a a`: one `console.error`, `null`, at the end marker -/
example : tsView (tsParser exTsP KU 20 (exTs0 [(2, ()), (2, ())])) = (1, [], 3, 0, 1, 3) := by
  decide +kernel

/-- `b b`: rejected at the second `b` -/
example : tsView (tsParser exTsP KU 20 (exTs0 [(3, ()), (3, ())])) = (1, [], 2, 0, 1, 2) := by
  decide +kernel

/-- an unknown input code (`translate` answers 0): syntax error, no TypeError -/
example : tsView (tsParser exTsP KU 20 (exTs0 [(2, ()), (0, ())])) = (1, [], 2, 0, 1, 2) := by
  decide +kernel

/-- C15 on `exT`: the accepted `a a b` again WITHOUT `initialize()`: the loop starts in the accept
    state with lookahead `a`: one `console.error`, `null`, nothing reduced … -/
theorem ex_ts_second : tsView (tsParser exTsP KU 20
    (recall (tsStateOf [] (tsParser exTsP KU 20 (exTs0 [(2, ()), (2, ()), (3, ())]))) [(2, ()), (2, ()), (3, ())]))
    = (1, [], 1, 2, 1, 2) := by decide +kernel

/-- … and WITH the translated `initialize()` in between it is accepted again -/
theorem ex_ts_reinit : tsView (tsParser exTsP KU 20
    (tsStateOf [] (invoke exTsP KU ext0 0 Gen.Ts.initialize []
      (recall (tsStateOf [] (tsParser exTsP KU 20 (exTs0 [(2, ()), (2, ()), (3, ())]))) [(2, ()), (2, ()), (3, ())]))))
    = (0, [1, 1, 2], 4, 0, 0, 2) := by decide +kernel

/-- without the module tail (`StackPointer = 0`) the first guard is taken: a silent `null` — the
    hypothesis `TsStart` of `C06_end_to_end_ts` is needed -/
example : tsView (tsParser exTsP KU 20 (exTsEmpty [(2, ()), (2, ()), (3, ())])) = (1, [], 1, 2, 0, 0) := by
  decide +kernel

end Y.Props

#print axioms Y.Props.exec_mono
#print axioms Y.Props.execs_mono
#print axioms Y.Props.tsParser_mono
#print axioms Y.Props.ts_action_dense
#print axioms Y.Props.tsStart_initialize
#print axioms Y.Props.tsStart_load
#print axioms Y.Props.parser_ts_list
#print axioms Y.Props.parser_ts_dense
#print axioms Y.Props.C01_end_to_end_ts
#print axioms Y.Props.C06_end_to_end_ts
#print axioms Y.Props.C02_end_to_end_ts
#print axioms Y.Props.C06_end_to_end_terminates_ts
#print axioms Y.Props.C06_end_to_end_decides_ts
#print axioms Y.Props.C15_ts_second_call
#print axioms Y.Props.C15_ts_reinit
#print axioms Y.Props.C15_ts_reinit_decides
#print axioms Y.Props.ex_ts_sound
#print axioms Y.Props.ex_ts_terminates
#print axioms Y.Props.ex_ts_decides
#print axioms Y.Props.ex_ts_run
#print axioms Y.Props.ex_ts_second
#print axioms Y.Props.ex_ts_reinit
