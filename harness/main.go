//go:build verif

package main

import (
	"fmt"
	"os"
)

func main() {
	if len(os.Args) < 2 {
		fmt.Fprintln(os.Stderr, "usage: yharness <core|...>")
		os.Exit(2)
	}
	switch os.Args[1] {
	case "core":
		cmdCore()
	case "xgen":
		cmdXgen()
	case "pack":
		cmdPack()
	case "front":
		cmdFront()
	case "views":
		cmdViews()
	case "resolve":
		cmdResolve()
	case "subst":
		cmdSubst()
	case "emit":
		cmdEmit()
	default:
		fmt.Fprintln(os.Stderr, "unknown command", os.Args[1])
		os.Exit(2)
	}
}
