import Yv.Model.Subst
/-! # C07b — semantic actions: the TEXT half (`$$` / `$n` rewriting, the comment)

The generator rewrites the action text of every rule in two passes (`Yv/Model/Subst.lean`):
`strings.ReplaceAll(code, "$$", "dollarDolar."+tag)` and then the regexp `\$[0-9]+` on the RESULT.
This file gives the chunk view of an action (what the two passes together do) and proves that the model
of the two passes agrees with it. -/

namespace Subst

/-! ## The chunk view (specification side) -/

/-- A piece of an action text: verbatim text, `$$`, or `$digits`. -/
inductive Chunk
  | text (s : List Char)
  | dd
  | ref (digits : List Char)
  deriving DecidableEq, Repr

/-- Put one verbatim character in front (merging with a leading text chunk). -/
def pushChar (c : Char) : List Chunk → List Chunk
  | [] => [.text [c]]
  | .text s :: cs => .text (c :: s) :: cs
  | .dd :: cs => .text [c] :: .dd :: cs
  | .ref ds :: cs => .text [c] :: .ref ds :: cs

/-- Leave the state "`$` followed by the digits `ds`": a lone `$` is text, `$ds` is a reference. -/
def closeChunk : List Char → List Chunk → List Chunk
  | [], cs => pushChar '$' cs
  | d :: ds, cs => .ref (d :: ds) :: cs

/-- The tokenizer, left to right.  State `none`: outside; `some ds`: a `$` and the digits `ds` were read.
    A `$` directly after a `$` makes `$$`; a `$` followed by digits (as many as there are) makes a reference;
    everything else is text.  The characteristic equations are `chunks_nil`, `chunks_dd`, `chunks_ref`,
    `chunks_char` below; together with `chunks_raw` they determine `chunks`. -/
def chunksFrom : Option (List Char) → List Char → List Chunk
  | none, [] => []
  | some ds, [] => closeChunk ds []
  | none, c :: rest =>
    if c = '$' then chunksFrom (some []) rest else pushChar c (chunksFrom none rest)
  | some ds, c :: rest =>
    if c.isDigit then chunksFrom (some (ds ++ [c])) rest
    else if c = '$' then
      (if ds = [] then .dd :: chunksFrom none rest else closeChunk ds (chunksFrom (some []) rest))
    else closeChunk ds (pushChar c (chunksFrom none rest))

def chunks (code : List Char) : List Chunk := chunksFrom none code

/-- The source text of a chunk. -/
def raw : Chunk → List Char
  | .text s => s
  | .dd => ['$', '$']
  | .ref ds => '$' :: ds

/-- What the generator emits for a chunk; `none` = it panics.  `ins` is the text for `$$`, `mid` the text
    between the index and the tag. -/
def renderOpt (ins mid : List Char) (tags : List (List Char)) : Chunk → Option (List Char)
  | .text s => some s
  | .dd => some ins
  | .ref ds => emitRef mid tags ds

def renderAll (ins mid : List Char) (tags : List (List Char)) : List Chunk → Option (List Char)
  | [] => some []
  | c :: cs => app? (renderOpt ins mid tags c) (renderAll ins mid tags cs)

/-- The emitted text of a chunk whose reference (if it is one) is in range:
    `render (text s) = s`, `render dd = ins`, `render (ref ds) = "Dollar[" ++ ds ++ mid ++ tag_k`. -/
def render (ins mid : List Char) (tags : List (List Char)) : Chunk → List Char
  | .text s => s
  | .dd => ins
  | .ref ds => "Dollar[".toList ++ ds ++ mid ++ (tags[atoi ds - 1]?).getD []

/-- Go: `render (text s) = s`, `render dd = "dollarDolar." ++ lhsTag`,
    `render (ref ds) = "Dollar[" ++ ds ++ "]." ++ tag_k`. -/
def renderGo (lhsTag : List Char) (tags : List (List Char)) : Chunk → List Char :=
  render (ddGo lhsTag) midGo tags

/-- TypeScript: `render dd = "dollarDolar.ValType." ++ lhsTag`,
    `render (ref ds) = "Dollar[" ++ ds ++ "].ValType." ++ tag_k`. -/
def renderTs (lhsTag : List Char) (tags : List (List Char)) : Chunk → List Char :=
  render (ddTs lhsTag) midTs tags

/-- The reference `$ds` denotes a right-hand-side position: `1 ≤ k ≤ n`. -/
def InRange (n : Nat) (ds : List Char) : Prop := 1 ≤ atoi ds ∧ atoi ds ≤ n

def headDigit : List Char → Bool
  | c :: _ => c.isDigit
  | [] => false

def headIs (a : Char) : List Char → Bool
  | c :: _ => decide (c = a)
  | [] => false

/-- The two-character sequence `a b` occurs in the text. -/
def hasPair (a b : Char) : List Char → Bool
  | [] => false
  | [_] => false
  | c :: d :: rest => (decide (c = a) && decide (d = b)) || hasPair a b (d :: rest)

end Subst

namespace Y.Props
open Subst

/-! ## Small facts -/

/-- The numerals in the generated text are the usual decimal ones. -/
theorem natStr_eq_repr (n : Nat) : natStr n = (Nat.repr n).toList := Nat.toList_repr.symm

theorem isDigit_ne_dollar {c : Char} (h : c.isDigit = true) : c ≠ '$' := by
  intro e; subst e; exact absurd h (by decide)

theorem app?_some (a : List Char) (x : Option (List Char)) :
    app? (some a) x = x.map (a ++ ·) := by cases x <;> rfl

theorem app?_nil (x : Option (List Char)) : app? (some []) x = x := by cases x <;> rfl

theorem app?_none_right (x : Option (List Char)) : app? x none = none := by cases x <;> rfl

theorem app?_single (c : Char) (x : Option (List Char)) : app? (some [c]) x = cons? c x := by
  cases x <;> rfl

theorem cons?_app? (c : Char) (a : List Char) (x : Option (List Char)) :
    cons? c (app? (some a) x) = app? (some (c :: a)) x := by cases x <;> rfl

/-! ## `strings.ReplaceAll`: the three equations -/

theorem replaceAll2_hit (a b : Char) (ins r : List Char) :
    replaceAll2 a b ins (a :: b :: r) = ins ++ replaceAll2 a b ins r := by
  simp [replaceAll2]

theorem replaceAll2_miss (a b : Char) (ins : List Char) (c : Char) (r : List Char)
    (h : c = a → headIs b r = false) :
    replaceAll2 a b ins (c :: r) = c :: replaceAll2 a b ins r := by
  cases r with
  | nil => simp [replaceAll2]
  | cons d r =>
    have : ¬ (c = a ∧ d = b) := by
      intro ⟨h1, h2⟩; have := h h1; simp [headIs, h2] at this
    simp [replaceAll2, this]

theorem replaceAll2_clean (a b : Char) (ins : List Char) :
    ∀ (x tail : List Char), (∀ c ∈ x, c ≠ a) →
      replaceAll2 a b ins (x ++ tail) = x ++ replaceAll2 a b ins tail
  | [], _, _ => rfl
  | c :: x, tail, h => by
    have hc : c ≠ a := h c (by simp)
    rw [List.cons_append, replaceAll2_miss a b ins c _ (fun e => absurd e hc),
      replaceAll2_clean a b ins x tail (fun d hd => h d (by simp [hd]))]
    rfl

theorem replaceAll2_nil (a b : Char) (ins : List Char) : replaceAll2 a b ins [] = [] := rfl

/-- After the `$$` pass a text that did not start with a digit still does not (the inserted text starts
    with a non-digit). -/
theorem headDigit_replace (a b : Char) (ins : List Char) (hi : headDigit ins = false) (hne : ins ≠ [])
    (r : List Char) (h : headDigit r = false) : headDigit (replaceAll2 a b ins r) = false := by
  cases r with
  | nil => rfl
  | cons c r =>
    cases r with
    | nil => simpa [replaceAll2] using h
    | cons d r =>
      by_cases hh : c = a ∧ d = b
      · simp only [replaceAll2, hh, and_self, if_true]
        cases ins with
        | nil => exact absurd rfl hne
        | cons i0 ins => simpa [headDigit] using hi
      · simp only [replaceAll2, hh, if_false]; simpa [headDigit] using h

/-! ## The regexp scanner: the equations of `scan emit none` -/

theorem scan_digits (emit : List Char → Option (List Char)) :
    ∀ (ds acc tail : List Char), (∀ c ∈ ds, c.isDigit = true) →
      scan emit (some acc) (ds ++ tail) = scan emit (some (acc ++ ds)) tail
  | [], acc, tail, _ => by simp
  | d :: ds, acc, tail, h => by
    have hd : d.isDigit = true := h d (by simp)
    rw [List.cons_append, scan, if_pos hd, scan_digits emit ds _ tail (fun c hc => h c (by simp [hc]))]
    simp

theorem scan_dollar (emit : List Char → Option (List Char)) (r : List Char) :
    scan emit none ('$' :: r) = scan emit (some []) r := by simp [scan]

theorem scan_char (emit : List Char → Option (List Char)) (c : Char) (r : List Char) (h : c ≠ '$') :
    scan emit none (c :: r) = cons? c (scan emit none r) := by simp [scan, h]

/-- Leaving the `$digits` state at a non-digit. -/
theorem scan_close (emit : List Char → Option (List Char)) (acc tail : List Char)
    (h : headDigit tail = false) :
    scan emit (some acc) tail = app? (closeRef emit acc) (scan emit none tail) := by
  cases tail with
  | nil => cases h' : closeRef emit acc <;> simp [scan, h', app?]
  | cons c r =>
    have hc : c.isDigit = false := h
    by_cases hd : c = '$'
    · subst hd; rw [scan_dollar]; simp [scan]
    · rw [scan_char emit c r hd]; simp [scan, hc, hd]

theorem scan_nil (emit : List Char → Option (List Char)) : scan emit none [] = some [] := rfl

/-- A `$` not followed by a digit is copied. -/
theorem scan_dollar_plain (emit : List Char → Option (List Char)) (r : List Char)
    (h : headDigit r = false) : scan emit none ('$' :: r) = cons? '$' (scan emit none r) := by
  rw [scan_dollar, scan_close emit [] r h]; exact app?_single _ _

/-- A `$` followed by the digits `ds` (all of them) is one match. -/
theorem scan_ref (emit : List Char → Option (List Char)) (ds tail : List Char) (hne : ds ≠ [])
    (hds : ∀ c ∈ ds, c.isDigit = true) (ht : headDigit tail = false) :
    scan emit none ('$' :: (ds ++ tail)) = app? (emit ds) (scan emit none tail) := by
  rw [scan_dollar, scan_digits emit ds [] tail hds, List.nil_append, scan_close emit ds tail ht]
  cases ds with
  | nil => exact absurd rfl hne
  | cons d ds => rfl

/-- Text without `$` is copied. -/
theorem scan_clean (emit : List Char → Option (List Char)) :
    ∀ (x r : List Char), (∀ c ∈ x, c ≠ '$') → scan emit none (x ++ r) = app? (some x) (scan emit none r)
  | [], r, _ => (app?_nil _).symm
  | c :: x, r, h => by
    rw [List.cons_append, scan_char emit c _ (h c (by simp)),
      scan_clean emit x r (fun d hd => h d (by simp [hd])), cons?_app?]

/-! ## The tokenizer: characteristic equations -/

theorem chunksFrom_digits :
    ∀ (ds acc tail : List Char), (∀ c ∈ ds, c.isDigit = true) →
      chunksFrom (some acc) (ds ++ tail) = chunksFrom (some (acc ++ ds)) tail
  | [], acc, tail, _ => by simp
  | d :: ds, acc, tail, h => by
    have hd : d.isDigit = true := h d (by simp)
    rw [List.cons_append, chunksFrom, if_pos hd,
      chunksFrom_digits ds _ tail (fun c hc => h c (by simp [hc]))]
    simp

theorem chunks_nil : chunks [] = [] := rfl

/-- `$$` is the chunk `dd`. -/
theorem chunks_dd (r : List Char) : chunks ('$' :: '$' :: r) = .dd :: chunks r := by
  simp [chunks, chunksFrom]

/-- Any character that does not start a `$$` or a `$digits` is text. -/
theorem chunks_char (c : Char) (r : List Char)
    (h : c = '$' → headIs '$' r = false ∧ headDigit r = false) :
    chunks (c :: r) = pushChar c (chunks r) := by
  by_cases hc : c = '$'
  · subst hc
    obtain ⟨h1, h2⟩ := h rfl
    cases r with
    | nil => rfl
    | cons d r =>
      have hd : d.isDigit = false := h2
      have hd' : d ≠ '$' := by simpa [headIs] using h1
      simp [chunks, chunksFrom, hd, hd', closeChunk]
  · simp [chunks, chunksFrom, hc]

/-- `$` followed by the digits `ds` (all of them) is the chunk `ref ds`. -/
theorem chunks_ref (ds tail : List Char) (hne : ds ≠ []) (hds : ∀ c ∈ ds, c.isDigit = true)
    (ht : headDigit tail = false) : chunks ('$' :: (ds ++ tail)) = .ref ds :: chunks tail := by
  have h0 : chunks ('$' :: (ds ++ tail)) = chunksFrom (some ds) tail := by
    simp only [chunks, chunksFrom, if_true]
    rw [chunksFrom_digits ds [] tail hds, List.nil_append]
  rw [h0]
  cases ds with
  | nil => exact absurd rfl hne
  | cons d ds =>
    cases tail with
    | nil => rfl
    | cons c r =>
      have hc : c.isDigit = false := ht
      by_cases hd : c = '$'
      · subst hd; simp [chunks, chunksFrom, closeChunk]
      · simp [chunks, chunksFrom, hc, hd, closeChunk]

/-! ## Induction along the chunks of a text -/

theorem split_digits : ∀ (r : List Char), ∃ ds tail, r = ds ++ tail ∧ (∀ c ∈ ds, c.isDigit = true) ∧
    headDigit tail = false
  | [] => ⟨[], [], rfl, by simp, rfl⟩
  | c :: r => by
    by_cases hc : c.isDigit = true
    · obtain ⟨ds, tail, e, h1, h2⟩ := split_digits r
      refine ⟨c :: ds, tail, by rw [e]; rfl, ?_, h2⟩
      intro d hd
      rcases List.mem_cons.1 hd with rfl | hd
      · exact hc
      · exact h1 d hd
    · exact ⟨[], c :: r, rfl, by simp, by simpa [headDigit] using hc⟩

/-- Every text is built from: the empty text, `$$` in front, `$digits` in front (all the digits), any other
    character in front. -/
theorem chunk_ind {P : List Char → Prop} (nil : P [])
    (dd : ∀ r, P r → P ('$' :: '$' :: r))
    (ref : ∀ ds tail, ds ≠ [] → (∀ c ∈ ds, c.isDigit = true) → headDigit tail = false → P tail →
      P ('$' :: (ds ++ tail)))
    (char : ∀ c r, (c = '$' → headIs '$' r = false ∧ headDigit r = false) → P r → P (c :: r)) :
    ∀ s, P s := by
  have key : ∀ n (s : List Char), s.length ≤ n → P s := by
    intro n
    induction n with
    | zero => intro s hs; cases s with
      | nil => exact nil
      | cons c r => simp at hs
    | succ n ih =>
      intro s hs
      cases s with
      | nil => exact nil
      | cons c r =>
        have hr : r.length ≤ n := by simpa using hs
        by_cases hc : c = '$'
        · subst hc
          cases hrr : r with
          | nil => exact char _ _ (fun _ => ⟨rfl, rfl⟩) nil
          | cons d r' =>
            by_cases hd : d = '$'
            · subst hd
              exact dd r' (ih r' (by rw [hrr] at hr; simp at hr; omega))
            · by_cases hdig : d.isDigit = true
              · obtain ⟨ds, tail, e, h1, h2⟩ := split_digits (d :: r')
                have hne : ds ≠ [] := by
                  intro e0; subst e0
                  rw [List.nil_append] at e; subst e
                  simp [headDigit, hdig] at h2
                rw [e]
                refine ref ds tail hne h1 h2 (ih tail ?_)
                have : (d :: r').length = ds.length + tail.length := by rw [e]; simp
                rw [hrr] at hr; omega
              · refine char _ _ (fun _ => ⟨by simp [headIs, hd], by simpa [headDigit] using hdig⟩)
                  (ih _ (by rw [← hrr]; exact hr))
        · exact char c r (fun e => absurd e hc) (ih r hr)
  exact fun s => key s.length s (Nat.le_refl _)

/-! ## Rendering facts -/

theorem renderAll_pushChar (ins mid : List Char) (tags : List (List Char)) (c : Char) (cs : List Chunk) :
    renderAll ins mid tags (pushChar c cs) = cons? c (renderAll ins mid tags cs) := by
  cases cs with
  | nil => rfl
  | cons x cs =>
    cases x with
    | text s => simp only [pushChar, renderAll, renderOpt]; exact (cons?_app? _ _ _).symm
    | dd => simp only [pushChar, renderAll, renderOpt]; exact app?_single _ _
    | ref ds => simp only [pushChar, renderAll, renderOpt]; exact app?_single _ _

theorem raw_pushChar (c : Char) (cs : List Chunk) :
    ((pushChar c cs).map raw).flatten = c :: (cs.map raw).flatten := by
  cases cs with
  | nil => rfl
  | cons x cs => cases x <;> rfl

theorem mem_pushChar_ref {ds : List Char} {c : Char} {cs : List Chunk}
    (h : Chunk.ref ds ∈ pushChar c cs) : Chunk.ref ds ∈ cs := by
  cases cs with
  | nil => simp [pushChar] at h
  | cons x cs => cases x <;> simpa [pushChar] using h

theorem emitRef_inRange (mid : List Char) (tags : List (List Char)) (ds : List Char)
    (h : InRange tags.length ds) :
    emitRef mid tags ds = some ("Dollar[".toList ++ ds ++ mid ++ (tags[atoi ds - 1]?).getD []) := by
  obtain ⟨h1, h2⟩ := h
  have h0 : atoi ds ≠ 0 := by omega
  have hlt : atoi ds - 1 < tags.length := by omega
  simp [emitRef, h0, List.getElem?_eq_getElem hlt]

theorem emitRef_outOfRange (mid : List Char) (tags : List (List Char)) (ds : List Char)
    (h : ¬ InRange tags.length ds) : emitRef mid tags ds = none := by
  unfold emitRef
  by_cases h0 : atoi ds = 0
  · simp [h0]
  · have hge : tags.length ≤ atoi ds - 1 := by
      unfold InRange at h; omega
    simp [h0, List.getElem?_eq_none hge]

theorem renderAll_inRange (ins mid : List Char) (tags : List (List Char)) :
    ∀ (cs : List Chunk), (∀ ds, Chunk.ref ds ∈ cs → InRange tags.length ds) →
      renderAll ins mid tags cs = some ((cs.map (render ins mid tags)).flatten)
  | [], _ => rfl
  | x :: cs, h => by
    have ih := renderAll_inRange ins mid tags cs (fun ds hd => h ds (by simp [hd]))
    have hx : renderOpt ins mid tags x = some (render ins mid tags x) := by
      cases x with
      | text s => rfl
      | dd => rfl
      | ref ds => exact emitRef_inRange mid tags ds (h ds (by simp))
    simp [renderAll, hx, ih, app?]

theorem renderAll_refuses (ins mid : List Char) (tags : List (List Char)) (ds : List Char)
    (hk : ¬ InRange tags.length ds) :
    ∀ (cs : List Chunk), Chunk.ref ds ∈ cs → renderAll ins mid tags cs = none
  | [], h => by simp at h
  | x :: cs, h => by
    rcases List.mem_cons.1 h with e | h'
    · subst e
      simp only [renderAll, renderOpt, emitRef_outOfRange mid tags ds hk]
      cases renderAll ins mid tags cs <;> rfl
    · simp only [renderAll, renderAll_refuses ins mid tags ds hk cs h']
      exact app?_none_right _

/-! ## The two passes agree with the chunk view -/

/-- What is needed of the text inserted for `$$` so that the regexp pass — which runs over the inserted
    text too — leaves it alone: no `$` in it, and it is nonempty and does not start with a digit (so it ends
    a preceding `$digits` match and cannot extend it). -/
structure InsOK (ins : List Char) : Prop where
  clean : ∀ c ∈ ins, c ≠ '$'
  head : headDigit ins = false
  ne : ins ≠ []

theorem substL_chunks (ins mid : List Char) (tags : List (List Char)) (hi : InsOK ins) :
    ∀ code, substL ins mid tags code = renderAll ins mid tags (chunks code) := by
  unfold substL refPass replaceDD
  apply chunk_ind
  · rfl
  · intro r ih
    rw [replaceAll2_hit, scan_clean _ ins _ hi.clean, ih, chunks_dd]; rfl
  · intro ds tail hne hds ht ih
    have hclean : ∀ c ∈ ds, c ≠ '$' := fun c hc => isDigit_ne_dollar (hds c hc)
    have hhead : headIs '$' (ds ++ tail) = false := by
      cases ds with
      | nil => exact absurd rfl hne
      | cons d ds => simpa [headIs] using hclean d (by simp)
    rw [replaceAll2_miss _ _ _ _ _ (fun _ => hhead), replaceAll2_clean _ _ _ ds tail hclean,
      scan_ref _ ds _ hne hds (headDigit_replace _ _ ins hi.head hi.ne tail ht), ih, chunks_ref ds tail hne hds ht]
    rfl
  · intro c r hc ih
    rw [replaceAll2_miss _ _ _ c r (fun e => (hc e).1), chunks_char c r hc, renderAll_pushChar, ← ih]
    by_cases he : c = '$'
    · subst he
      exact scan_dollar_plain _ _ (headDigit_replace _ _ ins hi.head hi.ne r (hc rfl).2)
    · exact scan_char _ c _ he

theorem insOK_go (tag : List Char) (h : '$' ∉ tag) : InsOK (ddGo tag) := by
  have e : "dollarDolar.".toList = ['d','o','l','l','a','r','D','o','l','a','r','.'] := by decide
  refine ⟨?_, by unfold ddGo; rw [e]; rfl, by unfold ddGo; rw [e]; simp⟩
  intro c hc
  rcases List.mem_append.1 hc with h1 | h1
  · exact (by decide : ∀ c ∈ "dollarDolar.".toList, c ≠ '$') c h1
  · intro e; subst e; exact h h1

theorem insOK_ts (tag : List Char) (h : '$' ∉ tag) : InsOK (ddTs tag) := by
  have e : "dollarDolar.ValType.".toList =
      ['d','o','l','l','a','r','D','o','l','a','r','.','V','a','l','T','y','p','e','.'] := by decide
  refine ⟨?_, by unfold ddTs; rw [e]; rfl, by unfold ddTs; rw [e]; simp⟩
  intro c hc
  rcases List.mem_append.1 hc with h1 | h1
  · exact (by decide : ∀ c ∈ "dollarDolar.ValType.".toList, c ≠ '$') c h1
  · intro e; subst e; exact h h1

/-- The source text is the concatenation of its chunks. -/
theorem chunks_raw : ∀ code, ((chunks code).map raw).flatten = code := by
  apply chunk_ind
  · rfl
  · intro r ih; rw [chunks_dd]; simp [raw, ih]
  · intro ds tail hne hds ht ih; rw [chunks_ref ds tail hne hds ht]; simp [raw, ih]
  · intro c r hc ih; rw [chunks_char c r hc, raw_pushChar, ih]

/-- The digits of a reference chunk are digits (and there is at least one). -/
theorem chunks_ref_digits : ∀ code ds, Chunk.ref ds ∈ chunks code → ds ≠ [] ∧ ∀ c ∈ ds, c.isDigit = true := by
  apply chunk_ind
  · intro ds h; simp [chunks_nil] at h
  · intro r ih ds h; rw [chunks_dd] at h; exact ih ds (by simpa using h)
  · intro ds tail hne hds ht ih ds' h
    rw [chunks_ref ds tail hne hds ht] at h
    rcases List.mem_cons.1 h with e | h
    · cases e; exact ⟨hne, hds⟩
    · exact ih ds' h
  · intro c r hc ih ds h; rw [chunks_char c r hc] at h; exact ih ds (mem_pushChar_ref h)

/-! ## List-level statements, generic in the inserted texts -/

theorem substL_inRange (ins mid : List Char) (tags : List (List Char)) (hi : InsOK ins) (code : List Char)
    (hR : ∀ ds, Chunk.ref ds ∈ chunks code → InRange tags.length ds) :
    substL ins mid tags code = some (((chunks code).map (render ins mid tags)).flatten) := by
  rw [substL_chunks ins mid tags hi, renderAll_inRange ins mid tags _ hR]

theorem substL_refuses (ins mid : List Char) (tags : List (List Char)) (hi : InsOK ins) (code ds : List Char)
    (h : Chunk.ref ds ∈ chunks code) (hk : atoi ds = 0 ∨ tags.length < atoi ds) :
    substL ins mid tags code = none := by
  rw [substL_chunks ins mid tags hi]
  exact renderAll_refuses ins mid tags ds (by unfold InRange; omega) _ h

/-- No hypothesis on the inserted text here. -/
theorem substL_plain (ins mid : List Char) (tags : List (List Char)) (code : List Char) (h : '$' ∉ code) :
    substL ins mid tags code = some code := by
  have hc : ∀ c ∈ code, c ≠ '$' := fun c hc e => h (e ▸ hc)
  unfold substL refPass replaceDD
  have h1 := replaceAll2_clean '$' '$' ins code [] hc
  have h2 := scan_clean (emitRef mid tags) code [] hc
  simp only [List.append_nil, replaceAll2_nil] at h1 h2
  rw [h1, h2]; simp [scan_nil, app?]

theorem render_clean (ins mid : List Char) (tags : List (List Char)) (hi : InsOK ins) (hmid : '$' ∉ mid)
    (htags : ∀ t ∈ tags, '$' ∉ t) (x : Chunk)
    (hx : (∀ s, x = .text s → '$' ∉ s) ∧ (∀ ds, x = .ref ds → ∀ c ∈ ds, c.isDigit = true)) :
    '$' ∉ render ins mid tags x := by
  cases x with
  | text s => exact hx.1 s rfl
  | dd => exact fun h => hi.clean _ h rfl
  | ref ds =>
    have h0 : '$' ∉ "Dollar[".toList := by decide
    have h1 : '$' ∉ ds := fun h => isDigit_ne_dollar (hx.2 ds rfl _ h) rfl
    have h2 : '$' ∉ (tags[atoi ds - 1]?).getD [] := by
      cases e : tags[atoi ds - 1]? with
      | none => simp
      | some t => simpa using htags t (List.mem_of_getElem? e)
    intro h
    have h' : '$' ∈ "Dollar[".toList ++ ds ++ mid ++ (tags[atoi ds - 1]?).getD [] := h
    rcases List.mem_append.1 h' with h' | h'
    · rcases List.mem_append.1 h' with h' | h'
      · rcases List.mem_append.1 h' with h' | h'
        · exact h0 h'
        · exact h1 h'
      · exact hmid h'
    · exact h2 h'

theorem substL_no_dollar (ins mid : List Char) (tags : List (List Char)) (hi : InsOK ins) (hmid : '$' ∉ mid)
    (htags : ∀ t ∈ tags, '$' ∉ t) (code : List Char)
    (hR : ∀ ds, Chunk.ref ds ∈ chunks code → InRange tags.length ds)
    (hT : ∀ s, Chunk.text s ∈ chunks code → '$' ∉ s) :
    ∃ out, substL ins mid tags code = some out ∧ '$' ∉ out := by
  refine ⟨_, substL_inRange ins mid tags hi code hR, ?_⟩
  intro h
  obtain ⟨l, hl, hin⟩ := List.mem_flatten.1 h
  obtain ⟨x, hx, rfl⟩ := List.mem_map.1 hl
  refine render_clean ins mid tags hi hmid htags x ⟨?_, ?_⟩ hin
  · intro s e; subst e; exact hT s hx
  · intro ds e; subst e; exact (chunks_ref_digits code ds hx).2

/-! ## The comment -/

theorem hasPair_cons_cons (a b c d : Char) (r : List Char) :
    hasPair a b (c :: d :: r) = ((decide (c = a) && decide (d = b)) || hasPair a b (d :: r)) := rfl

theorem hasPair_cons_ne (a b c : Char) (z : List Char) (h : c ≠ a) : hasPair a b (c :: z) = hasPair a b z := by
  cases z with
  | nil => rfl
  | cons d r => simp [hasPair_cons_cons, h]

theorem hasPair_cons_true (a b c : Char) (z : List Char) (h : hasPair a b z = true) :
    hasPair a b (c :: z) = true := by
  cases z with
  | nil => simp [hasPair] at h
  | cons d r => simp [hasPair_cons_cons, h]

theorem hasPair_decomp (a b : Char) : ∀ (x y : List Char), hasPair a b (x ++ a :: b :: y) = true
  | [], y => by simp [hasPair_cons_cons]
  | c :: x, y => hasPair_cons_true a b c _ (hasPair_decomp a b x y)

theorem hasPair_snoc (a b c : Char) (hc : c ≠ b) :
    ∀ (x : List Char), hasPair a b x = false → hasPair a b (x ++ [c]) = false
  | [], _ => rfl
  | [d], _ => by simp [hasPair, hc]
  | d :: e :: r, hx => by
    rw [hasPair_cons_cons] at hx
    have h1 : (decide (d = a) && decide (e = b)) = false := by
      cases h : (decide (d = a) && decide (e = b)) <;> simp [h] at hx ⊢
    have h2 : hasPair a b (e :: r) = false := by
      cases h : hasPair a b (e :: r) <;> simp [h] at hx ⊢
    have ih := hasPair_snoc a b c hc (e :: r) h2
    show hasPair a b (d :: e :: (r ++ [c])) = false
    rw [hasPair_cons_cons, h1]; simpa using ih

def starIns : List Char := ['*', ' ', '/']

theorem head_replaceStar (d : Char) (r : List Char)
    (h : headIs '/' (replaceAll2 '*' '/' starIns (d :: r)) = true) : d = '/' := by
  cases r with
  | nil => simpa [replaceAll2, headIs] using h
  | cons e r =>
    by_cases hh : d = '*' ∧ e = '/'
    · simp [replaceAll2, hh, starIns, headIs] at h
    · simpa [replaceAll2, hh, headIs] using h

/-- `ReplaceAll(s, "*/", "* /")` leaves no `*/` (also on `**/`, `*/*/`, …). -/
theorem hasPair_replaceStar : ∀ (s : List Char), hasPair '*' '/' (replaceAll2 '*' '/' starIns s) = false
  | [] => rfl
  | [_] => rfl
  | c :: d :: rest => by
    by_cases h : c = '*' ∧ d = '/'
    · have ih := hasPair_replaceStar rest
      have e : replaceAll2 '*' '/' starIns (c :: d :: rest) =
          '*' :: ' ' :: '/' :: replaceAll2 '*' '/' starIns rest := by simp [replaceAll2, h, starIns]
      rw [e, hasPair_cons_cons, hasPair_cons_ne _ _ ' ' _ (by decide), hasPair_cons_ne _ _ '/' _ (by decide), ih]
      decide
    · have ih := hasPair_replaceStar (d :: rest)
      have e : replaceAll2 '*' '/' starIns (c :: d :: rest) =
          c :: replaceAll2 '*' '/' starIns (d :: rest) := by simp [replaceAll2, h]
      rw [e]
      have hh := head_replaceStar d rest
      generalize replaceAll2 '*' '/' starIns (d :: rest) = Y at ih hh ⊢
      cases Y with
      | nil => rfl
      | cons y Y =>
        rw [hasPair_cons_cons, ih]
        by_cases hc : c = '*'
        · have hy : y ≠ '/' := by
            intro ey; exact h ⟨hc, hh (by simp [headIs, ey])⟩
          simp [hy]
        · simp [hc]

/-- If `body ++ "*"` has no `*/`, then `body ++ "*/\n"` contains `*/` only at its end. -/
theorem closed_unique (body x y : List Char) (hb : hasPair '*' '/' (body ++ ['*']) = false)
    (e : body ++ ['*', '/', '\n'] = x ++ '*' :: '/' :: y) : x = body ∧ y = ['\n'] := by
  rcases List.append_eq_append_iff.1 e with ⟨as, h1, h2⟩ | ⟨bs, h1, h2⟩
  · cases as with
    | nil => simp at h1 h2; exact ⟨h1, h2.symm⟩
    | cons a1 as =>
      cases as with
      | nil => simp at h2
      | cons a2 as =>
        cases as with
        | nil => simp at h2
        | cons a3 as => simp at h2
  · cases bs with
    | nil => simp at h1 h2; exact ⟨h1.symm, h2⟩
    | cons b1 bs =>
      cases bs with
      | nil => simp at h2
      | cons b2 bs =>
        simp at h2
        obtain ⟨rfl, rfl, _⟩ := h2
        rw [h1, List.append_assoc] at hb
        have := hasPair_decomp '*' '/' x (bs ++ ['*'])
        simp at hb this
        rw [this] at hb; cases hb

theorem commentL_closed (lineNo : Nat) (lhsName : List Char) (rhsNames : List (List Char)) (code : List Char) :
    ∃ body, commentL lineNo lhsName rhsNames code = body ++ ['*', '/', '\n'] ∧
      hasPair '*' '/' (body ++ ['*']) = false := by
  have e1 : "\n/*\n".toList = ['\n', '/', '*', '\n'] := by decide
  have e2 : "*/\n".toList = ['*', '/', '\n'] := by decide
  have e3 : "* /".toList = starIns := by decide
  refine ⟨"\n/*\n".toList ++ replaceAll2 '*' '/' starIns (commentBodyL lineNo lhsName rhsNames code), ?_, ?_⟩
  · unfold commentL; rw [e2, e3]
  · have h := hasPair_snoc '*' '/' '*' (by decide) _
      (hasPair_replaceStar (commentBodyL lineNo lhsName rhsNames code))
    rw [e1, List.append_assoc]
    simp only [List.cons_append, List.nil_append]
    rw [hasPair_cons_ne _ _ '\n' _ (by decide), hasPair_cons_ne _ _ '/' _ (by decide), hasPair_cons_cons,
      hasPair_cons_ne _ _ '\n' _ (by decide), h]
    decide

/-! ## The statements of C07b (String level; Go and TypeScript) -/

theorem midGo_clean : '$' ∉ midGo := by decide
theorem midTs_clean : '$' ∉ midTs := by decide

/-- **Chunk view, general form** (no range hypothesis): the Go generator's rewriting of an action is the
    chunk-wise rendering, `none` (panic) included.  Hypothesis: the tag of the left-hand side contains no
    `$` (the regexp pass runs over the inserted text too).  Tags are `identifier` tokens in the grammar
    file (letters, digits, `_`), so the hypothesis holds for every grammar the front end accepts. -/
theorem C07_subst_chunks_opt (lhsTag : String) (rhsTags : List String) (code : String)
    (hTag : '$' ∉ lhsTag.toList) :
    substGo lhsTag rhsTags code =
      (renderAll (ddGo lhsTag.toList) midGo (rhsTags.map String.toList) (chunks code.toList)).map
        String.ofList := by
  unfold substGo substGoL; rw [substL_chunks _ _ _ (insOK_go _ hTag)]

theorem C07_subst_chunks_opt_ts (lhsTag : String) (rhsTags : List String) (code : String)
    (hTag : '$' ∉ lhsTag.toList) :
    substTs lhsTag rhsTags code =
      (renderAll (ddTs lhsTag.toList) midTs (rhsTags.map String.toList) (chunks code.toList)).map
        String.ofList := by
  unfold substTs substTsL; rw [substL_chunks _ _ _ (insOK_ts _ hTag)]

/-- **C07_subst_chunks**: when every reference `$k` of the action has `1 ≤ k ≤ n`, the emitted action is the
    concatenation of the rendered chunks. -/
theorem C07_subst_chunks (lhsTag : String) (rhsTags : List String) (code : String)
    (hTag : '$' ∉ lhsTag.toList)
    (hR : ∀ ds, Chunk.ref ds ∈ chunks code.toList → InRange rhsTags.length ds) :
    substGo lhsTag rhsTags code = some (String.ofList
      (((chunks code.toList).map (renderGo lhsTag.toList (rhsTags.map String.toList))).flatten)) := by
  unfold substGo substGoL
  rw [substL_inRange _ _ _ (insOK_go _ hTag) _ (by simpa using hR)]; rfl

theorem C07_subst_chunks_ts (lhsTag : String) (rhsTags : List String) (code : String)
    (hTag : '$' ∉ lhsTag.toList)
    (hR : ∀ ds, Chunk.ref ds ∈ chunks code.toList → InRange rhsTags.length ds) :
    substTs lhsTag rhsTags code = some (String.ofList
      (((chunks code.toList).map (renderTs lhsTag.toList (rhsTags.map String.toList))).flatten)) := by
  unfold substTs substTsL
  rw [substL_inRange _ _ _ (insOK_ts _ hTag) _ (by simpa using hR)]; rfl

/-- **C07_subst_verbatim**: the action text is the concatenation of its chunks (`raw`), the output is the
    concatenation of the rendered chunks in the same order, and a text chunk is rendered as itself — the text
    outside the references is copied verbatim and in order. -/
theorem C07_subst_verbatim (lhsTag : String) (rhsTags : List String) (code : String)
    (hTag : '$' ∉ lhsTag.toList)
    (hR : ∀ ds, Chunk.ref ds ∈ chunks code.toList → InRange rhsTags.length ds) :
    code.toList = ((chunks code.toList).map raw).flatten ∧
    (∃ out, substGo lhsTag rhsTags code = some out ∧
      out.toList = ((chunks code.toList).map (renderGo lhsTag.toList (rhsTags.map String.toList))).flatten) ∧
    ∀ s, renderGo lhsTag.toList (rhsTags.map String.toList) (.text s) = s ∧ raw (.text s) = s :=
  ⟨(chunks_raw _).symm, ⟨_, C07_subst_chunks lhsTag rhsTags code hTag hR, String.toList_ofList⟩,
    fun _ => ⟨rfl, rfl⟩⟩

theorem C07_subst_verbatim_ts (lhsTag : String) (rhsTags : List String) (code : String)
    (hTag : '$' ∉ lhsTag.toList)
    (hR : ∀ ds, Chunk.ref ds ∈ chunks code.toList → InRange rhsTags.length ds) :
    code.toList = ((chunks code.toList).map raw).flatten ∧
    (∃ out, substTs lhsTag rhsTags code = some out ∧
      out.toList = ((chunks code.toList).map (renderTs lhsTag.toList (rhsTags.map String.toList))).flatten) ∧
    ∀ s, renderTs lhsTag.toList (rhsTags.map String.toList) (.text s) = s ∧ raw (.text s) = s :=
  ⟨(chunks_raw _).symm, ⟨_, C07_subst_chunks_ts lhsTag rhsTags code hTag hR, String.toList_ofList⟩,
    fun _ => ⟨rfl, rfl⟩⟩

/-- Corollary: an action without `$` is emitted unchanged (no hypothesis on the tags). -/
theorem C07_subst_plain (lhsTag : String) (rhsTags : List String) (code : String)
    (h : '$' ∉ code.toList) : substGo lhsTag rhsTags code = some code := by
  unfold substGo substGoL; rw [substL_plain _ _ _ _ h]; simp [String.ofList_toList]

theorem C07_subst_plain_ts (lhsTag : String) (rhsTags : List String) (code : String)
    (h : '$' ∉ code.toList) : substTs lhsTag rhsTags code = some code := by
  unfold substTs substTsL; rw [substL_plain _ _ _ _ h]; simp [String.ofList_toList]

/-- **C07_subst_refuses**: a reference `$k` with `k = 0` or `k > n` makes the generator refuse (the Go code
    panics with "index out of range") — nothing is emitted. -/
theorem C07_subst_refuses (lhsTag : String) (rhsTags : List String) (code : String)
    (hTag : '$' ∉ lhsTag.toList) (ds : List Char) (h : Chunk.ref ds ∈ chunks code.toList)
    (hk : atoi ds = 0 ∨ rhsTags.length < atoi ds) : substGo lhsTag rhsTags code = none := by
  unfold substGo substGoL
  rw [substL_refuses _ _ _ (insOK_go _ hTag) _ ds h (by simpa using hk)]; rfl

theorem C07_subst_refuses_ts (lhsTag : String) (rhsTags : List String) (code : String)
    (hTag : '$' ∉ lhsTag.toList) (ds : List Char) (h : Chunk.ref ds ∈ chunks code.toList)
    (hk : atoi ds = 0 ∨ rhsTags.length < atoi ds) : substTs lhsTag rhsTags code = none := by
  unfold substTs substTsL
  rw [substL_refuses _ _ _ (insOK_ts _ hTag) _ ds h (by simpa using hk)]; rfl

/-- **C07_subst_no_dollar**: if moreover no tag contains `$` and every `$` of the action belongs to a
    reference (no text chunk contains `$`), the emitted action is `$`-free. -/
theorem C07_subst_no_dollar (lhsTag : String) (rhsTags : List String) (code : String)
    (hTag : '$' ∉ lhsTag.toList) (hTags : ∀ t ∈ rhsTags, '$' ∉ t.toList)
    (hR : ∀ ds, Chunk.ref ds ∈ chunks code.toList → InRange rhsTags.length ds)
    (hT : ∀ s, Chunk.text s ∈ chunks code.toList → '$' ∉ s) :
    ∃ out, substGo lhsTag rhsTags code = some out ∧ '$' ∉ out.toList := by
  obtain ⟨out, h1, h2⟩ := substL_no_dollar (ddGo lhsTag.toList) midGo (rhsTags.map String.toList)
    (insOK_go _ hTag) midGo_clean (by simpa using hTags) code.toList (by simpa using hR) hT
  refine ⟨String.ofList out, ?_, by rwa [String.toList_ofList]⟩
  unfold substGo substGoL; rw [h1]; rfl

theorem C07_subst_no_dollar_ts (lhsTag : String) (rhsTags : List String) (code : String)
    (hTag : '$' ∉ lhsTag.toList) (hTags : ∀ t ∈ rhsTags, '$' ∉ t.toList)
    (hR : ∀ ds, Chunk.ref ds ∈ chunks code.toList → InRange rhsTags.length ds)
    (hT : ∀ s, Chunk.text s ∈ chunks code.toList → '$' ∉ s) :
    ∃ out, substTs lhsTag rhsTags code = some out ∧ '$' ∉ out.toList := by
  obtain ⟨out, h1, h2⟩ := substL_no_dollar (ddTs lhsTag.toList) midTs (rhsTags.map String.toList)
    (insOK_ts _ hTag) midTs_clean (by simpa using hTags) code.toList (by simpa using hR) hT
  refine ⟨String.ofList out, ?_, by rwa [String.toList_ofList]⟩
  unfold substTs substTsL; rw [h1]; rfl

/-- **comment_closed**: the comment the generator puts in front of the rewritten action (same function for
    Go and TypeScript) contains `*/` exactly once, as its last-but-one token: it is `body ++ "*/\n"` where
    no `*/` starts inside `body` (not even one using the closing `*`), so every decomposition
    `x ++ "*/" ++ y` of it has `y = "\n"`.  For all line numbers, names and action texts. -/
theorem comment_closed (lineNo : Nat) (lhsName : String) (rhsNames : List String) (code : String) :
    (∃ body, (commentOf lineNo lhsName rhsNames code).toList = body ++ ['*', '/', '\n'] ∧
      hasPair '*' '/' (body ++ ['*']) = false) ∧
    ∀ x y, (commentOf lineNo lhsName rhsNames code).toList = x ++ '*' :: '/' :: y → y = ['\n'] := by
  obtain ⟨body, h1, h2⟩ := commentL_closed lineNo lhsName.toList (rhsNames.map String.toList) code.toList
  have e : (commentOf lineNo lhsName rhsNames code).toList = body ++ ['*', '/', '\n'] := by
    unfold commentOf; rw [String.toList_ofList, h1]
  refine ⟨⟨body, e, h2⟩, ?_⟩
  intro x y hxy
  rw [e] at hxy
  exact (closed_unique body x y h2 hxy).2

/-- The same for the comment inside a generated `case` (the text `caseGoL`/`caseTsL` splice in). -/
theorem comment_closed_rule (r : RuleInfo) :
    (∃ body, r.commentL = body ++ ['*', '/', '\n'] ∧ hasPair '*' '/' (body ++ ['*']) = false) ∧
    ∀ x y, r.commentL = x ++ '*' :: '/' :: y → y = ['\n'] := by
  obtain ⟨body, h1, h2⟩ := commentL_closed r.lineNo r.lhsName.toList r.names r.code.toList
  refine ⟨⟨body, h1, h2⟩, ?_⟩
  intro x y hxy
  have : body ++ ['*', '/', '\n'] = x ++ '*' :: '/' :: y := by rw [← h1]; exact hxy
  exact (closed_unique body x y h2 this).2

/-- `hasPair` means what it says. -/
theorem hasPair_iff (a b : Char) : ∀ (s : List Char), hasPair a b s = true ↔ ∃ x y, s = x ++ a :: b :: y
  | [] => by simp [hasPair]
  | [c] => by
    simp only [hasPair, Bool.false_eq_true, false_iff]
    rintro ⟨x, y, h⟩
    have := congrArg List.length h
    simp at this; omega
  | c :: d :: r => by
    rw [hasPair_cons_cons]
    constructor
    · intro h
      simp only [Bool.or_eq_true, Bool.and_eq_true, decide_eq_true_eq] at h
      rcases h with h | h
      · exact ⟨[], r, by simp [h.1, h.2]⟩
      · obtain ⟨x, y, e⟩ := (hasPair_iff a b (d :: r)).1 h
        exact ⟨c :: x, y, by simp [e]⟩
    · rintro ⟨x, y, e⟩
      cases x with
      | nil => simp at e; simp [e.1, e.2.1]
      | cons x0 x =>
        simp at e
        have := (hasPair_iff a b (d :: r)).2 ⟨x, y, e.2⟩
        simp [this]

/-! ## Non-vacuity and corner cases (all by evaluation) -/

-- `$$ = $1 + $3`
example : chunks "$$ = $1 + $3".toList =
    [.dd, .text " = ".toList, .ref ['1'], .text " + ".toList, .ref ['3']] := by decide
example : substGo "val" ["val", "", "val"] "$$ = $1 + $3" =
    some "dollarDolar.val = Dollar[1].val + Dollar[3].val" := by decide
example : substTs "val" ["val", "", "val"] "$$ = $1 + $3" =
    some "dollarDolar.ValType.val = Dollar[1].ValType.val + Dollar[3].ValType.val" := by decide
-- `$$` twice
example : substGo "v" ["s"] "$$ = f($$, $1)" = some "dollarDolar.v = f(dollarDolar.v, Dollar[1].s)" := by decide
-- `$10` with ten right-hand-side symbols (greedy digits: not `$1` followed by `0`)
example : substGo "v" ["a","b","c","d","e","f","g","h","i","j"] "$10+$1" =
    some "Dollar[10].j+Dollar[1].a" := by decide
example : chunks "$10+$1".toList = [.ref ['1','0'], .text ['+'], .ref ['1']] := by decide
-- leading zeros are kept in the index text, `Atoi` ignores them
example : substGo "v" ["a"] "$01" = some "Dollar[01].a" := by decide
-- `$0`, `$00`: refused
example : substGo "v" ["a","b","c"] "$$ = $0" = none := by decide
example : substTs "v" ["a","b","c"] "$$ = $00" = none := by decide
-- `$4` with n = 3: refused; `$3` accepted
example : substGo "v" ["a","b","c"] "$$ = $4 + $1" = none := by decide
example : substGo "v" ["a","b","c"] "$$ = $3" = some "dollarDolar.v = Dollar[3].c" := by decide
-- more digits than `int64` holds: refused (Go: Atoi clamps, index out of range)
example : substGo "v" ["a","b","c"] "$18446744073709551617" = none := by decide
-- the corners of the two passes: `$$1`, `$$$1`, `$$$`, `$1$$`, a lone `$`, `$a`
example : chunks "$$1".toList = [.dd, .text ['1']] := by decide
example : substGo "v" ["a"] "$$1" = some "dollarDolar.v1" := by decide
example : chunks "$$$1".toList = [.dd, .ref ['1']] := by decide
example : substGo "v" ["a"] "$$$1" = some "dollarDolar.vDollar[1].a" := by decide
example : chunks "$$$".toList = [.dd, .text ['$']] := by decide
example : substGo "v" ["a"] "$$$" = some "dollarDolar.v$" := by decide
example : chunks "$1$$ $ $a".toList = [.ref ['1'], .dd, .text " $ $a".toList] := by decide
example : substGo "v" ["a"] "$1$$ $ $a" = some "Dollar[1].adollarDolar.v $ $a" := by decide
example : substGo "v" ["a"] "no refs here */ at all" = some "no refs here */ at all" := by decide

/-- The hypothesis `'$' ∉ lhsTag` of `C07_subst_chunks` cannot be dropped: with the tag `$1` the regexp pass
    rewrites inside the text inserted for `$$` … -/
example : substGo "$1" ["t"] "$$" = some "dollarDolar.Dollar[1].t" ∧
    ((chunks "$$".toList).map (renderGo "$1".toList ["t".toList])).flatten = "dollarDolar.$1".toList := by
  decide
/-- … with a tag ending in `$`, a digit that follows `$$` in the action is captured (`$$1` is "`$$` then the
    text `1`" in the chunk view) … -/
example : substGo "x$" ["t"] "$$1" = some "dollarDolar.xDollar[1].t" ∧
    ((chunks "$$1".toList).map (renderGo "x$".toList ["t".toList])).flatten = "dollarDolar.x$1".toList := by
  decide
/-- … and the generator can even panic on an action all of whose references are in range. -/
example : substGo "$7" ["t"] "$$ = $1" = none ∧
    (∀ ds, Chunk.ref ds ∈ chunks "$$ = $1".toList → InRange 1 ds) := by
  refine ⟨by decide, ?_⟩
  intro ds h
  have hc : chunks "$$ = $1".toList = [.dd, .text " = ".toList, .ref ['1']] := by decide
  rw [hc] at h
  have : ds = ['1'] := by simpa using h
  subst this; exact ⟨by decide, by decide⟩

-- the comment: a `*/` in the action text cannot close it (`**/` and `*/*/` included)
example : commentOf 7 "E" ["E", "$operator+", "T"] "{ a */ b **/ c */*/ }" =
    "\n/*\n\nLineNo:7\nE -> E '+'  T \n { a * / b ** / c * /* / }\n*/\n" := by decide
example : removeTempName "$operator+" = "'+' " ∧ removeTempName "$operator" = "$operator" ∧
    removeTempName "NUM" = "NUM" := by decide
example : hasPair '*' '/' "x **/ y".toList = true ∧
    hasPair '*' '/' (replaceAll2 '*' '/' "* /".toList "x **/ y */*/".toList) = false := by decide

-- a whole case, both Go modes and TypeScript
def exRule : RuleInfo :=
  { lhsId := 16, lhsName := "E", lhsTag := "val", rhs := [("NUM", "val")], lineNo := 25,
    code := "{ $$ = $1 }" }
/-- concatenation of short literals (`String.toList` of a long literal is slow to evaluate in proofs) -/
def cat (l : List String) : List Char := (l.map String.toList).flatten
set_option maxRecDepth 4000 in
example : caseGoL .global 3 exRule = some (cat
    ["case 3: \n", "\tdollarDolar.YySymIndex = 16\n", "\tDollar := StateSymStack[topIndex-1 :",
     " StackPointer]\n", "\t_ = Dollar\n", "\n/*\n", "\nLineNo:25\n", "E -> NUM \n", " { $$ = $1 }\n", "*/\n",
     "{ dollarDolar.val = Dollar[1].val }", "\n", "\tPopStateSym(1)\n"]) := by
  decide
set_option maxRecDepth 4000 in
example : caseGoL .object 3 exRule = some (cat
    ["case 3: \n", "\tdollarDolar.YySymIndex = 16\n", "\tDollar := c.StackSym[topIndex-1 :",
     " c.Stackpos]\n", "\t_ = Dollar\n", "\n/*\n", "\nLineNo:25\n", "E -> NUM \n", " { $$ = $1 }\n", "*/\n",
     "{ dollarDolar.val = Dollar[1].val }", "\n", "\tc.PopStateSym(1)\n"]) := by
  decide
set_option maxRecDepth 4000 in
example : caseTsL 3 exRule = some (cat
    ["case 3: {\n", "\tdollarDolar.YySymIndex = 16\n", "\tlet Dollar = StateSymStack.slice(",
     "topIndex-1 , StackPointer);\n", "\n/*\n", "\nLineNo:25\n", "E -> NUM \n", " { $$ = $1 }\n", "*/\n",
     "{ dollarDolar.ValType.val = ", "Dollar[1].ValType.val }", "\n", "\tPopStateSym(1);\n", "\tbreak;\n", "}\n"]) := by
  decide
-- one bad rule makes the whole `ReduceFunc` refuse
example : driverReduceFunc #[exRule, { exRule with code := "{ $$ = $2 }" }] .goGlobal = none ∧
    (driverReduceFunc #[exRule, exRule] .goGlobal).isSome = true ∧
    (driverReduceFunc #[exRule, exRule] .ts).isSome = true := by
  decide

#print axioms C07_subst_chunks_opt
#print axioms C07_subst_chunks_opt_ts
#print axioms C07_subst_chunks
#print axioms C07_subst_chunks_ts
#print axioms C07_subst_verbatim
#print axioms C07_subst_verbatim_ts
#print axioms C07_subst_plain
#print axioms C07_subst_plain_ts
#print axioms C07_subst_refuses
#print axioms C07_subst_refuses_ts
#print axioms C07_subst_no_dollar
#print axioms C07_subst_no_dollar_ts
#print axioms comment_closed
#print axioms comment_closed_rule
#print axioms hasPair_iff
#print axioms chunks_raw
#print axioms chunks_dd
#print axioms chunks_ref
#print axioms chunks_char

end Y.Props
