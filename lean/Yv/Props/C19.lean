import Yv.Gen.Facts
/-! # C19 — a failed generation never damages an existing output file

Model: a generator run is a list of operations over an abstract file system (one output path).
`fallible` = a step that can fail for a reason attributable to the input (lexing, parsing, building
the tables, building the code fragments — `$n` out of range panics there); `create` truncates the
output file and opens it; `write s` appends to the opened file. An oracle says which fallible step
fails. `C19_atomic_on_failure`: if every fallible step precedes `create`, a failing run leaves the
file system exactly as it was; `C19_success_content`: a successful run leaves exactly the
concatenation of the writes that follow `create`.
The tie to the code: the call sequences of `TemplateGenFromString` / `TsGenFromString` are extracted
from the current sources by the translator (`Gen.calls_*`), classified here by `classify`, and the
side conditions are decided by `decide` — so moving `os.Create` before a fallible step, or adding a
fallible call after it, breaks this file. OS behaviour (`os.Create` truncates, writes append) is the
model's assumption. -/
namespace C19

open GenOps

/-- the output file: `none` = absent, `some s` = present with content s -/
abbrev FS := Option String

/-- what a write appends: the epilogue or some other part (abstract contents) -/
def part (epilogue : Bool) : String := if epilogue then "E" else "p"

structure St where
  fs : FS
  opened : Bool

/-- run the operations; `fails n` says whether the n-th fallible step fails -/
def exec (fails : Nat → Bool) : List Op → Nat → St → St × Bool
  | [], _, st => (st, true)
  | .fallible :: ops, n, st => if fails n then (st, false) else exec fails ops (n + 1) st
  | .create :: ops, n, _ => exec fails ops n ⟨some "", true⟩
  | .write e :: ops, n, st =>
    exec fails ops n (if st.opened then ⟨st.fs.map (· ++ part e), true⟩ else st)
  | .other :: ops, n, st => exec fails ops n st

def noFallible (ops : List Op) : Bool :=
  ops.all fun o => match o with | .fallible => false | _ => true

/-- no fallible step after the file has been created -/
def createAfterFallible : List Op → Bool
  | [] => true
  | .create :: ops => noFallible ops
  | _ :: ops => createAfterFallible ops

theorem exec_no_fallible (fails : Nat → Bool) (ops : List Op) (n : Nat) (st : St)
    (h : noFallible ops = true) : (exec fails ops n st).2 = true := by
  induction ops generalizing n st with
  | nil => rfl
  | cons o ops ih =>
    simp only [noFallible, List.all_cons, Bool.and_eq_true] at h
    cases o with
    | fallible => simp at h
    | create => exact ih _ _ h.2
    | write s => exact ih _ _ h.2
    | other => exact ih _ _ h.2

/-- A failed run leaves the file system untouched (the file has not been opened before the run). -/
theorem C19_atomic_on_failure (fails : Nat → Bool) (ops : List Op) (n : Nat) (fs : FS)
    (h : createAfterFallible ops = true) (hf : (exec fails ops n ⟨fs, false⟩).2 = false) :
    (exec fails ops n ⟨fs, false⟩).1.fs = fs := by
  induction ops generalizing n with
  | nil => simp [exec] at hf
  | cons o ops ih =>
    cases o with
    | fallible =>
      simp only [exec] at hf ⊢
      split
      · rfl
      · rename_i hn
        simp only [hn] at hf
        exact ih (n + 1) h (by simpa using hf)
    | create =>
      simp only [createAfterFallible] at h
      have := exec_no_fallible fails ops n ⟨some "", true⟩ h
      simp only [exec] at hf
      rw [this] at hf; cases hf
    | write s =>
      simp only [exec, Bool.false_eq_true, if_false] at hf ⊢
      exact ih n h hf
    | other => simp only [exec] at hf ⊢; exact ih n h hf

/-- content written by the writes of an operation list -/
def writes : List Op → String
  | [] => ""
  | .write e :: ops => part e ++ writes ops
  | _ :: ops => writes ops

theorem exec_opened (fails : Nat → Bool) (ops : List Op) (n : Nat) (c : String)
    (h : noFallible ops = true) (hc : ops.all (fun o => o != .create) = true) :
    (exec fails ops n ⟨some c, true⟩).1.fs = some (c ++ writes ops) := by
  induction ops generalizing n c with
  | nil => simp [exec, writes]
  | cons o ops ih =>
    simp only [noFallible, List.all_cons, Bool.and_eq_true] at h hc
    cases o with
    | fallible => simp at h
    | create => simp at hc
    | write s =>
      simp only [exec, if_true, Option.map_some, writes]
      rw [ih n (c ++ part s) h.2 hc.2, String.append_assoc]
    | other => simp only [exec, writes]; exact ih n c h.2 hc.2

/-- the operations after the (single) `create` -/
def afterCreate : List Op → Option (List Op)
  | [] => none
  | .create :: ops => some ops
  | _ :: ops => afterCreate ops

/-- A successful run leaves exactly the concatenation of the writes that follow `create`. -/
theorem C19_success_content (fails : Nat → Bool) (ops rest : List Op) (n : Nat) (fs : FS)
    (h : createAfterFallible ops = true) (ha : afterCreate ops = some rest)
    (hc : rest.all (fun o => o != .create) = true)
    (hs : (exec fails ops n ⟨fs, false⟩).2 = true) :
    (exec fails ops n ⟨fs, false⟩).1.fs = some (writes rest) := by
  induction ops generalizing n with
  | nil => simp [afterCreate] at ha
  | cons o ops ih =>
    cases o with
    | fallible =>
      simp only [exec] at hs ⊢
      split
      · rename_i hn; simp [hn] at hs
      · rename_i hn
        simp only [hn] at hs
        exact ih (n + 1) h ha (by simpa using hs)
    | create =>
      simp only [afterCreate, Option.some.injEq] at ha
      subst ha
      simp only [createAfterFallible] at h
      simp only [exec]
      simpa using exec_opened fails ops n "" h hc
    | write s =>
      simp only [exec, Bool.false_eq_true, if_false] at hs ⊢
      exact ih n h ha hs
    | other => simp only [exec] at hs ⊢; exact ih n h ha hs

/-! ## The tie to the current sources -/

def goOps : List Op := Gen.ops_TemplateGenFromString
def tsOps : List Op := Gen.ops_TsGenFromString

/-- source facts the theorems are applied to; a changed call order breaks these `decide`s -/
theorem go_create_after_fallible : createAfterFallible goOps = true := by decide
theorem ts_create_after_fallible : createAfterFallible tsOps = true := by decide
theorem go_single_create : (afterCreate goOps).map (fun r => r.all (fun o => o != .create)) = some true := by decide
theorem ts_single_create : (afterCreate tsOps).map (fun r => r.all (fun o => o != .create)) = some true := by decide

def lastWrite (ops : List Op) : Option Bool :=
  (ops.filterMap (fun o => match o with | .write e => some e | _ => none)).getLast?

/-- both generators write the epilogue last (for Go: the template, which ends with the epilogue slot) -/
theorem last_write_is_epilogue : lastWrite goOps = some true ∧ lastWrite tsOps = some true := by decide
theorem go_templates_end_with_epilogue :
    Gen.templ_goCode_ends_with_epilogue = true ∧ Gen.templ_goObject_ends_with_epilogue = true ∧
    Gen.templ_goCode_same_as_go_string = true ∧ Gen.templ_goObject_same_as_go_string = true := by decide

/-- C19 for the Go generator as it is in the tree now -/
theorem C19_go (fails : Nat → Bool) (fs : FS) (hf : (exec fails goOps 0 ⟨fs, false⟩).2 = false) :
    (exec fails goOps 0 ⟨fs, false⟩).1.fs = fs :=
  C19_atomic_on_failure fails goOps 0 fs go_create_after_fallible hf

/-- C19 for the TypeScript generator as it is in the tree now -/
theorem C19_ts (fails : Nat → Bool) (fs : FS) (hf : (exec fails tsOps 0 ⟨fs, false⟩).2 = false) :
    (exec fails tsOps 0 ⟨fs, false⟩).1.fs = fs :=
  C19_atomic_on_failure fails tsOps 0 fs ts_create_after_fallible hf

/-- non-vacuity: a run in which the 4th fallible step fails leaves an existing file untouched -/
example : (exec (fun n => n == 3) tsOps 0 ⟨some "old", false⟩).2 = false ∧
    (exec (fun n => n == 3) tsOps 0 ⟨some "old", false⟩).1.fs = some "old" :=
  ⟨by decide, C19_ts _ _ (by decide)⟩
example : (exec (fun _ => false) tsOps 0 ⟨some "old", false⟩).2 = true := by decide

end C19
