import Yv.Model.Listing
/-! Model of the remaining sections of the TEXT listing `yaccgo debug` prints in `ComputeLALR`
    (`LALR/LALR.go`, `LALR/Utils.go`), between the state section and the lookahead section:

    * `===========SHOW TRANS================` — one line `showTrans(k)` per entry of `lalr.trans`:
      `%d:` + the symbol's name for a shift / goto transition, `%d:lhs-->` + ` %s ` per right-hand-side
      symbol for a reduce transition (`trShiftStr`, `trReduceStr`; the latter is the prefix of `laLineStr`);
    * `==========Show Direct Read SET===============` and `==========Show Reads SET===============`
      (`ShowDrSet`, `ShowReadSet`) — for every key of `DRSet` / `ReadSet` (the nonterminal transitions)
      the line `%d--%s--> ` + `[` + `name ` per element + ` ]` (`setLineStr`);
    * `==========Show FollowSet SET===============` (`ShowFollowSet`) — the line `%d--%s--> %v` where `%v`
      of a `[]string` is `[` + the names joined by one blank + `]` (`followLineStr`).

    All three loops range over Go maps, so the order of the lines inside a section is unspecified: a
    section is modelled as the list of lines of a given list of `(state, symbol, set)` entries; the order
    of the elements INSIDE a set is the order of the stored slice and is part of the line. -/
namespace Y

/-- `q:name` — `showTrans` of a shift / goto transition -/
def trShiftStr (names : Nat → String) (q : Nat) (a : Sym) : String :=
  toString q ++ ":" ++ names a

/-- `q:lhs-->` + ` %s ` per right-hand-side symbol — `showTrans` of a reduce transition -/
def trReduceStr (names : Nat → String) (G : Grammar) (q r : Nat) : String :=
  toString q ++ ":" ++ names (G.lhsOf r) ++ "-->" ++ symsStr names (G.rhsOf r)

/-- one transition as the driver holds it: `(state, isReduce, symbol-or-rule)` -/
def trLineStr (names : Nat → String) (G : Grammar) (e : Nat × Bool × Nat) : String :=
  if e.2.1 then trReduceStr names G e.1 e.2.2 else trShiftStr names e.1 e.2.2

/-- `str_set` of `ShowDrSet` / `ShowReadSet` between the brackets: `name + " "` per element -/
def setStr (names : Nat → String) : List Sym → String
  | [] => ""
  | a :: as => names a ++ " " ++ setStr names as

/-- a line of the direct-read / read section (without the newline) -/
def setLineStr (names : Nat → String) (q : Nat) (a : Sym) (s : List Sym) : String :=
  toString q ++ "--" ++ names a ++ "--> [" ++ setStr names s ++ " ]"

/-- `%v` of a `[]string` without the brackets: the names joined by one blank -/
def joinStr (names : Nat → String) : List Sym → String
  | [] => ""
  | [a] => names a
  | a :: as => names a ++ " " ++ joinStr names as

/-- a line of the follow section (without the newline) -/
def followLineStr (names : Nat → String) (q : Nat) (a : Sym) (s : List Sym) : String :=
  toString q ++ "--" ++ names a ++ "--> [" ++ joinStr names s ++ "]"

/-- the sections for given entries, in the order given -/
def transView (names : Nat → String) (G : Grammar) (L : List (Nat × Bool × Nat)) : List String :=
  L.map (trLineStr names G)

def setView (names : Nat → String) (L : List (Nat × Sym × List Sym)) : List String :=
  L.map fun e => setLineStr names e.1 e.2.1 e.2.2

def followView (names : Nat → String) (L : List (Nat × Sym × List Sym)) : List String :=
  L.map fun e => followLineStr names e.1 e.2.1 e.2.2

end Y
