import Yv.Abs.Complete
/-! Prototype for C03: LALR(1) propagation over the LR(0) automaton = union over the canonical
    LR(1) states (described relationally by the path that reaches them). -/
namespace Y

structure Item where
  r : Nat
  d : Nat
deriving DecidableEq, Repr

/-- side condition of an LR(1) closure step: from [r,d,b] derive [r',0,a] -/
def ClStep (G : Grammar) (r d : Nat) (b : Sym) (r' : Nat) (a : Sym) : Prop :=
  ∃ rl rl', G.rules[r]? = some rl ∧ G.rules[r']? = some rl' ∧ rl.rhs[d]? = some rl'.lhs ∧
    FirstOf G (rl.rhs.drop (d+1) ++ [b]) a

/-- LR(1) closure of a kernel -/
inductive Cl1 (G : Grammar) (K : Item → Sym → Prop) : Item → Sym → Prop
  | base (it : Item) (a : Sym) : K it a → Cl1 G K it a
  | step (r d : Nat) (b : Sym) (r' : Nat) (a : Sym) :
      Cl1 G K ⟨r, d⟩ b → ClStep G r d b r' a → Cl1 G K ⟨r', 0⟩ a

/-- kernel of the successor state over X -/
def adv (G : Grammar) (X : Sym) (S : Item → Sym → Prop) : Item → Sym → Prop :=
  fun it a => ∃ r d rl, it = ⟨r, d+1⟩ ∧ G.rules[r]? = some rl ∧ rl.rhs[d]? = some X ∧ S ⟨r, d⟩ a

/-- canonical LR(1) state reached by a path (given most-recent-symbol first) -/
def St1 (G : Grammar) : List Sym → Item → Sym → Prop
  | [] => Cl1 G (fun it a => it = ⟨0, 0⟩ ∧ a = 1)
  | X :: γ => Cl1 G (adv G X (St1 G γ))

/-- LR(0) goto function and the state reached by a path -/
def pathr (goto : Nat → Sym → Option Nat) : List Sym → Option Nat
  | [] => some 0
  | X :: γ => (pathr goto γ).bind (fun q => goto q X)

/-- LALR(1) lookahead facts: least solution of the propagation rules over the automaton -/
inductive LA (G : Grammar) (goto : Nat → Sym → Option Nat) : Nat → Item → Sym → Prop
  | init : LA G goto 0 ⟨0, 0⟩ 1
  | clos (q r d : Nat) (b : Sym) (r' : Nat) (a : Sym) :
      LA G goto q ⟨r, d⟩ b → ClStep G r d b r' a → LA G goto q ⟨r', 0⟩ a
  | goto (q r d : Nat) (b : Sym) (rl : Rule) (X : Sym) (p : Nat) :
      LA G goto q ⟨r, d⟩ b → G.rules[r]? = some rl → rl.rhs[d]? = some X → goto q X = some p →
      LA G goto p ⟨r, d+1⟩ b

theorem St1_step (G : Grammar) (γ : List Sym) (r d : Nat) (b : Sym) (r' : Nat) (a : Sym)
    (h : St1 G γ ⟨r, d⟩ b) (hs : ClStep G r d b r' a) : St1 G γ ⟨r', 0⟩ a := by
  cases γ with
  | nil => exact Cl1.step r d b r' a h hs
  | cons X γ => exact Cl1.step r d b r' a h hs

/-- LALR facts are LR(1) facts of some state with the same LR(0) access path -/
theorem LA_sound (G : Grammar) (goto) (q : Nat) (it : Item) (a : Sym) (h : LA G goto q it a) :
    ∃ γ, pathr goto γ = some q ∧ St1 G γ it a := by
  induction h with
  | init => exact ⟨[], rfl, Cl1.base _ _ ⟨rfl, rfl⟩⟩
  | clos q r d b r' a _ hs ih =>
    obtain ⟨γ, hp, hst⟩ := ih
    exact ⟨γ, hp, St1_step G γ r d b r' a hst hs⟩
  | goto q r d b rl X p _ hr hx hg ih =>
    obtain ⟨γ, hp, hst⟩ := ih
    refine ⟨X :: γ, by simp [pathr, hp, hg], ?_⟩
    exact Cl1.base _ _ ⟨r, d, rl, rfl, hr, hx, hst⟩

/-- every LR(1) fact of a state reached by a path to q is an LALR fact at q -/
theorem LA_complete (G : Grammar) (goto) :
    ∀ (γ : List Sym) (q : Nat) (it : Item) (a : Sym), pathr goto γ = some q → St1 G γ it a →
      LA G goto q it a := by
  intro γ
  induction γ with
  | nil =>
    intro q it a hp hst
    simp [pathr] at hp; subst hp
    induction hst with
    | base it a hk => obtain ⟨rfl, rfl⟩ := hk; exact LA.init
    | step r d b r' a _ hs ih => exact LA.clos 0 r d b r' a ih hs
  | cons X γ ihγ =>
    intro q it a hp hst
    simp only [pathr] at hp
    cases hq' : pathr goto γ with
    | none => simp [hq'] at hp
    | some q' =>
      simp [hq'] at hp
      induction hst with
      | base it a hk =>
        obtain ⟨r, d, rl, rfl, hr, hx, hs⟩ := hk
        exact LA.goto q' r d a rl X q (ihγ q' ⟨r, d⟩ a hq' hs) hr hx hp
      | step r d b r' a _ hs ih => exact LA.clos q r d b r' a ih hs

/-- C03, model level: LALR(1) = union over canonical LR(1) states with the same access state -/
theorem LA_iff (G : Grammar) (goto) (q : Nat) (it : Item) (a : Sym) :
    LA G goto q it a ↔ ∃ γ, pathr goto γ = some q ∧ St1 G γ it a :=
  ⟨LA_sound G goto q it a, fun ⟨γ, hp, hs⟩ => LA_complete G goto γ q it a hp hs⟩

end Y
