/-! Prototype: functional model of Parser/Lex.go (with the F10a/b/d/e and F13 repairs), ASCII input.
    Only `lexRoot` recurses (on fuel); every inner loop is a structural recursion over the unread input. -/
namespace YLex

inductive Kind
  | error | identifier | number | section | codeQuote | actionQuote | eof
  | typeDir | tokenDir | unionDir | leftAssoc | rightAssoc | noneAssoc | precDir | precedence | startDir
  | actionSelf | actionN | actionAccept | actionEnd
  | ruleOr | ruleDefine | ruleEnd | langle | rangle | charater | stringKind
  | zero   -- Go's zero-valued Token (never produced by the lexer)
deriving Repr, DecidableEq, Inhabited

def Kind.name : Kind → String
  | .error => "Error" | .identifier => "Identifier" | .number => "Number" | .section => "Section"
  | .codeQuote => "CodeQuote" | .actionQuote => "ActionQuote" | .eof => "EOF"
  | .typeDir => "TypeDirective" | .tokenDir => "TokenDirective" | .unionDir => "UnionDirective"
  | .leftAssoc => "LeftAssoc" | .rightAssoc => "RightAssoc" | .noneAssoc => "NoneAssoc"
  | .precDir => "PrecDirective" | .precedence => "Precedence" | .startDir => "StartDirective"
  | .actionSelf => "ActionSelf" | .actionN => "ActionN" | .actionAccept => "ActionAccept" | .actionEnd => "ActionEnd"
  | .ruleOr => "RuleOR" | .ruleDefine => "RuleDefine" | .ruleEnd => "RuleEnd"
  | .langle => "LeftAngleBracket" | .rangle => "RightAngleBracket" | .charater => "Charater" | .stringKind => "StringKind"
  | .zero => ""

structure Tok where
  kind : Kind
  value : String
  endAt : Nat
deriving Repr, Inhabited

structure St where
  rest : List Char      -- unread input
  pend : List Char      -- consumed since the last emit/ignore, most recent first
  pos  : Nat            -- offset of `rest` in the input (l.end)

def isLetter (c : Char) : Bool := c.isAlpha
def isDigit (c : Char) : Bool := c.isDigit
def isBlank3 (c : Char) : Bool := c == ' ' || c == '\t' || c == '\n'

/-- consume n characters (as l.next() n times) -/
def St.adv (st : St) : Nat → St
  | 0 => st
  | n+1 => match st.rest with
    | [] => st
    | c :: cs => St.adv { rest := cs, pend := c :: st.pend, pos := st.pos + 1 } n

def St.skipWhile (p : Char → Bool) (st : St) : St :=
  let n := (st.rest.takeWhile p).length
  st.adv n

def St.word (st : St) : String := String.ofList st.pend.reverse
def St.ignore (st : St) : St := { st with pend := [] }
def St.tok (st : St) (k : Kind) : Tok := ⟨k, st.word, st.pos⟩
def St.tokV (st : St) (k : Kind) (v : String) : Tok := ⟨k, v, st.pos⟩
def errTok : Tok := ⟨.error, "<lexerror>", 0⟩

def hasPrefix (s : String) (l : List Char) : Bool := s.toList.isPrefixOf l

/-- acceptOnlyAlphaWord: skip blanks, match the word, next must not be a letter; else restore -/
def acceptAlpha (word : String) (st : St) : Option St :=
  let st1 := st.skipWhile (· == ' ')
  if hasPrefix word st1.rest then
    let st2 := st1.adv word.length
    match st2.rest with
    | c :: _ => if isLetter c then none else some st2
    | [] => some st2
  else none

/-- acceptWord: skip blanks, match, next must be blank/tab/newline/eof; else restore -/
def acceptWord (word : String) (st : St) : Option St :=
  let st1 := st.skipWhile (· == ' ')
  if hasPrefix word st1.rest then
    let st2 := st1.adv word.length
    match st2.rest with
    | c :: _ => if isBlank3 c then some st2 else none
    | [] => some st2
  else none

/-- result of one state function: tokens emitted (in order), new state, and whether lexing goes on -/
structure Res where
  toks : List Tok
  st : St
  go : Bool

def cont (toks : List Tok) (st : St) : Res := ⟨toks, st, true⟩
def stop (toks : List Tok) (st : St) : Res := ⟨toks, st, false⟩

/-- `/* … */` body: number of characters up to and including the closing `*/`, if any -/
def blockCommentLen : List Char → Nat → Option Nat
  | '*' :: '/' :: _, n => some (n + 2)
  | _ :: cs, n => blockCommentLen cs (n + 1)
  | [], _ => none

def commentState (st : St) : Res :=
  if hasPrefix "//" st.rest then
    -- consume up to and including the newline (or to eof)
    let st1 := st.skipWhile (· != '\n')
    cont [] (st1.adv 1).ignore
  else
    let st1 := st.adv 2
    match blockCommentLen st1.rest 0 with
    | some n => cont [] (st1.adv n).ignore
    | none => stop [errTok] (st1.adv st1.rest.length).ignore

/-- `{ … }`: length up to the matching brace (depth starts at 1) -/
def braceLen : List Char → Nat → Nat → Option Nat
  | [], _, _ => none
  | c :: cs, depth, n =>
    let depth := if c == '{' then depth + 1 else if c == '}' then depth - 1 else depth
    if depth == 0 then some (n + 1) else braceLen cs depth (n + 1)

def actionQuoteState (st : St) : Res :=
  match braceLen st.rest 1 0 with
  | some n => cont [(st.adv n).tok .actionQuote] (st.adv n).ignore
  | none => stop [errTok] (st.adv st.rest.length)

def charaterState (st : St) : Res :=
  match st.rest with
  | '\\' :: '\'' :: _ => cont [(st.adv 2).tokV .charater "'"] (st.adv 2).ignore
  | '\\' :: _ => stop [errTok] (st.adv 2)
  | c :: '\'' :: _ => cont [(st.adv 2).tokV .charater (String.singleton c)] (st.adv 2).ignore
  | _ => stop [errTok] (st.adv 2)

/-- string body: returns (value, consumed count) or none when the input ends first -/
def stringBody : List Char → List Char → Nat → Option (List Char × Nat)
  | [], _, _ => none
  | '"' :: _, acc, n => some (acc.reverse, n + 1)
  | '\\' :: '"' :: cs, acc, n => stringBody cs ('"' :: acc) (n + 2)
  | '\\' :: _ :: cs, acc, n => stringBody cs ('\\' :: acc) (n + 2)   -- the char after `\` is dropped (as in Go)
  | ['\\'], acc, n => stringBody [] ('\\' :: acc) (n + 1)
  | c :: cs, acc, n => stringBody cs (c :: acc) (n + 1)

def stringKindState (st : St) : Res :=
  match stringBody st.rest [] 0 with
  | some (v, n) => cont [(st.adv n).tokV .stringKind (String.ofList v)] (st.adv n).ignore
  | none => stop [errTok] (st.adv st.rest.length)

def identifyState (st : St) : Res :=
  let st1 := st.skipWhile (fun c => isLetter c || isDigit c || c == '_')
  cont [st1.tok .identifier] st1.ignore

def numberRest (st : St) : Res :=
  let st1 := st.skipWhile isDigit
  cont [st1.tok .number] st1.ignore

def actionState (st : St) : Res :=
  match st.rest with
  | '$' :: _ => cont [(st.adv 1).tok .actionSelf] (st.adv 1).ignore
  | c :: _ =>
    if isDigit c then
      cont [((st.adv 1).skipWhile isDigit).tok .actionN] ((st.adv 1).skipWhile isDigit).ignore
    else
      let st1 := st.adv 1
      match acceptAlpha "accept" st1 with
      | some s => cont [s.tok .actionAccept] s.ignore
      | none => match acceptAlpha "end" st1 with
        | some s => cont [s.tok .actionEnd] s.ignore
        | none => cont [errTok] st1
  | [] =>
    match acceptAlpha "accept" st with
    | some s => cont [s.tok .actionAccept] s.ignore
    | none => match acceptAlpha "end" st with
      | some s => cont [s.tok .actionEnd] s.ignore
      | none => cont [errTok] st

/-- prologue body after `%{`: (value chars, consumed incl. `%}`) -/
def codeQuoteBody : List Char → List Char → Nat → Option (List Char × Nat)
  | '%' :: '}' :: _, acc, n => some (acc.reverse, n + 2)
  | c :: cs, acc, n => codeQuoteBody cs (c :: acc) (n + 1)
  | [], _, _ => none

def codeQuoteBegin (st : St) : Res :=
  match codeQuoteBody st.rest [] 0 with
  | some (v, n) => cont [(st.adv n).tokV .codeQuote (String.ofList v)] (st.adv n).ignore
  | none => stop [errTok] (st.adv st.rest.length)

/-- `%union` body after the opening brace: (value chars, consumed incl. closing brace) -/
def unionBody : List Char → Nat → List Char → Nat → Option (List Char × Nat)
  | [], _, _, _ => none
  | c :: cs, level, acc, n =>
    if c == '{' then unionBody cs (level + 1) (c :: acc) (n + 1)
    else if c == '}' then
      if level == 1 then some (acc.reverse, n + 1) else unionBody cs (level - 1) (c :: acc) (n + 1)
    else unionBody cs level (c :: acc) (n + 1)

def directiveUnionState (st : St) : Res :=
  let st1 := st.skipWhile isBlank3
  match st1.rest with
  | '{' :: _ =>
    let st2 := st1.adv 1
    match unionBody st2.rest 1 [] 0 with
    | some (v, n) => cont [(st2.adv n).tokV .unionDir (String.ofList v)] (st2.adv n).ignore
    | none => stop [errTok] (st2.adv st2.rest.length)
  | _ => stop [errTok] st1

/-- the chain of `if l.acceptOnlyAlphaWord(w) { l.emit(k) }` statements -/
def directiveWords : List (String × Kind) :=
  [("left", .leftAssoc), ("right", .rightAssoc), ("nonassoc", .noneAssoc), ("prec", .precDir),
   ("precedence", .precedence), ("start", .startDir)]

def directiveChain (ws : List (String × Kind)) (st : St) (acc : List Tok) : List Tok × St :=
  match ws with
  | [] => (acc.reverse, st)
  | (w, k) :: rest =>
    match acceptAlpha w st with
    | some s => directiveChain rest s.ignore (s.tok k :: acc)
    | none => directiveChain rest st acc

/-- one `if l.acceptOnlyAlphaWord(w) { l.emit(k) }` -/
def optWord (w : String) (k : Kind) (st : St) : List Tok × St :=
  match acceptAlpha w st with
  | some s => ([s.tok k], s.ignore)
  | none => ([], st)

def directiveOtherState (st : St) : Res :=
  let r1 := optWord "type" .typeDir st
  let r2 := optWord "token" .tokenDir r1.2
  match acceptAlpha "union" r2.2 with
  | some s =>
    let r := directiveUnionState s
    ⟨r1.1 ++ r2.1 ++ r.toks, r.st, r.go⟩
  | none =>
    let c := directiveChain directiveWords r2.2 []
    cont (r1.1 ++ r2.1 ++ c.1) c.2

def directiveState (st : St) : Res :=
  match st.rest with
  | '%' :: _ => cont [(st.adv 1).tok .section] (st.adv 1).ignore
  | '{' :: _ => codeQuoteBegin (st.adv 1)
  | _ => directiveOtherState st

/-- dispatch on the character just consumed (`st1` is the state after consuming it) -/
def dispatch (c : Char) (st1 : St) : Res :=
  if c == '%' then directiveState st1
  else if c == '$' then actionState st1
  else if c == '|' then cont [st1.tok .ruleOr] st1.ignore
  else if c == ':' then cont [st1.tok .ruleDefine] st1.ignore
  else if c == ';' then cont [st1.tok .ruleEnd] st1.ignore
  else if isBlank3 c then cont [] st1.ignore
  else if c == '\'' then charaterState st1
  else if c == '"' then stringKindState st1
  else if isLetter c || c == '_' then identifyState st1
  else if c == '<' then cont [st1.tok .langle] st1.ignore
  else if c == '>' then cont [st1.tok .rangle] st1.ignore
  else if isDigit c then numberRest st1
  else if c == '-' then numberRest st1
  else if c == '{' then actionQuoteState st1
  else stop [errTok] st1

def rootStep (st : St) : Res :=
  if hasPrefix "//" st.rest || hasPrefix "/*" st.rest then commentState st
  else match st.rest with
  | [] => stop [⟨.eof, "", st.pos⟩] st
  | c :: _ => dispatch c (st.adv 1)

def lexRoot : Nat → St → Array Tok → Array Tok × Bool
  | 0, _, acc => (acc, false)          -- out of fuel (to be proved impossible for fuel = length+2)
  | n+1, st, acc =>
    let r := rootStep st
    let acc := r.toks.foldl (·.push ·) acc
    if r.go then lexRoot n r.st acc else (acc, true)

def lexAll (s : String) : Array Tok × Bool :=
  let cs := s.toList
  lexRoot (cs.length + 2) ⟨cs, [], 0⟩ #[]

end YLex
