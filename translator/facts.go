package main

import (
	"fmt"
	"go/ast"
	"go/token"
	"go/types"
	"os"
	"sort"
	"strings"

	"golang.org/x/tools/go/packages"
)

// genFacts extracts source facts as Lean data (Gen/Facts.lean):
//   - every `range` over a map-typed expression in non-test code, with its enclosing function and
//     whether the loop only feeds order-insensitive consumers is NOT judged here: the expectation
//     (which sites exist and why each is harmless) lives in Props/C14.lean and is compared by `decide`;
//   - the ordered calls of TemplateGenFromString / TsGenFromString (C19);
//   - package-level variables assigned inside functions of the object-mode template (C15).
func genFacts(repo, outdir string) {
	cfg := &packages.Config{Mode: packages.NeedName | packages.NeedFiles | packages.NeedSyntax | packages.NeedTypes | packages.NeedTypesInfo | packages.NeedImports | packages.NeedDeps, Dir: repo, Tests: false}
	pkgs, err := packages.Load(cfg, "./...")
	if err != nil {
		panic(err)
	}
	type site struct{ pkg, fn, expr string }
	var sites []site
	var genCalls = map[string][]string{}
	builderFuncs := map[string][]*ast.FuncDecl{} // functions and methods of package builder, by name
	for _, p := range pkgs {
		if len(p.Errors) > 0 {
			panic(fmt.Sprint("package errors: ", p.Errors))
		}
		for _, f := range p.Syntax {
			fname := p.Fset.Position(f.Pos()).Filename
			if strings.HasSuffix(fname, "_test.go") || strings.HasSuffix(fname, "verif_hook.go") {
				continue
			}
			for _, d := range f.Decls {
				fd, ok := d.(*ast.FuncDecl)
				if !ok || fd.Body == nil {
					continue
				}
				name := fd.Name.Name
				if fd.Recv != nil && len(fd.Recv.List) > 0 {
					name = types.ExprString(fd.Recv.List[0].Type) + "." + name
				}
				ast.Inspect(fd.Body, func(n ast.Node) bool {
					if rs, ok := n.(*ast.RangeStmt); ok {
						if t := p.TypesInfo.TypeOf(rs.X); t != nil {
							if _, isMap := t.Underlying().(*types.Map); isMap {
								// a field is named by the field (stable); a local by its map type (renaming a local is harmless)
								desc := types.TypeString(t, func(q *types.Package) string { return q.Name() })
								if se, ok := rs.X.(*ast.SelectorExpr); ok {
									desc = "field " + se.Sel.Name
								}
								sites = append(sites, site{p.Name, name, desc})
							}
						}
					}
					return true
				})
				if p.Name == "builder" {
					builderFuncs[fd.Name.Name] = append(builderFuncs[fd.Name.Name], fd)
				}
				if fd.Name.Name == "TemplateGenFromString" || fd.Name.Name == "TsGenFromString" || name == "*TemplateBuilder.WriteFile" {
					var calls []string
					ast.Inspect(fd.Body, func(n ast.Node) bool {
						if ce, ok := n.(*ast.CallExpr); ok {
							calls = append(calls, types.ExprString(ce))
						}
						return true
					})
					genCalls[fd.Name.Name] = calls
				}
			}
		}
	}
	sort.Slice(sites, func(i, j int) bool {
		a, b := sites[i], sites[j]
		if a.pkg != b.pkg {
			return a.pkg < b.pkg
		}
		if a.fn != b.fn {
			return a.fn < b.fn
		}
		return a.expr < b.expr
	})
	var sb strings.Builder
	sb.WriteString("-- GENERATED from /repo by the translator (go/packages); do not edit\nimport Yv.Spec.GenOps\nnamespace Gen\nopen GenOps\n\n")
	sb.WriteString("/-- every `range` over a map in non-test code: (package, function, ranged field or, for a local, its map type) -/\n")
	sb.WriteString("def mapRangeSites : List (String × String × String) := [\n")
	for i, s := range sites {
		sep := ","
		if i == len(sites)-1 {
			sep = ""
		}
		fmt.Fprintf(&sb, "  (%q, %q, %q)%s\n", s.pkg, s.fn, s.expr, sep)
	}
	sb.WriteString("]\n\n")
	for _, fn := range []string{"TemplateGenFromString", "TsGenFromString", "WriteFile"} {
		fmt.Fprintf(&sb, "/-- calls made by %s, in source order -/\ndef calls_%s : List String := [", fn, fn)
		for i, c := range genCalls[fn] {
			if i > 0 {
				sb.WriteString(", ")
			}
			fmt.Fprintf(&sb, "%q", c)
		}
		sb.WriteString("]\n\n")
		if fn == "WriteFile" {
			continue
		}
		// the same sequence classified in the vocabulary of Yv/Spec/GenOps.lean (unknown calls are fallible: fail closed).
		// Calls to functions and methods of package builder itself are not opaque: their own calls are spliced in at the
		// call site (recursively), so extracting or inlining a helper does not change the sequence of effects.
		fds := builderFuncs[fn]
		if len(fds) != 1 {
			panic("generator entry point not found exactly once: " + fn)
		}
		ops := opsOf(fds[0], builderFuncs, nil)
		fmt.Fprintf(&sb, "def ops_%s : List Op := [%s]\n\n", fn, strings.Join(ops, ", "))
	}
	// template facts: the compiled-in Go strings equal the .templ files, and both end with the epilogue slot
	for _, t := range [][3]string{{"goCode", "Builder/goCode.templ", "Builder/GoCodeTemplate.go"}, {"goObject", "Builder/goObject.templ", "Builder/GoObjectTemplate.go"}} {
		templ, err1 := os.ReadFile(repo + "/" + t[1])
		gosrc, err2 := os.ReadFile(repo + "/" + t[2])
		if err1 != nil || err2 != nil {
			panic("template files missing")
		}
		// the Go file is `package builder\n\nconst xxx = ` + "`" + text with "`" spliced as ` + "`" + ` + "`"
		g := string(gosrc)
		i := strings.Index(g, "`")
		j := strings.LastIndex(g, "`")
		body := ""
		if i >= 0 && j > i {
			body = g[i+1 : j] // the .templ files spell an embedded backquote the way the Go string does
		}
		fmt.Fprintf(&sb, "def templ_%s_same_as_go_string : Bool := %v\n", t[0], strings.TrimPrefix(body, "\n") == string(templ))
		fmt.Fprintf(&sb, "def templ_%s_ends_with_epilogue : Bool := %v\n\n", t[0], strings.HasSuffix(strings.TrimRight(body, "\n"), "{{.CodeLast}}"))
	}
	sb.WriteString("end Gen\n")
	writeIfChanged(outdir+"/Facts.lean", sb.String())
	_ = token.NoPos
	_ = os.Stdout
}

// calleeName: the function or method name of a call when it may be one of package builder's own (`f(…)`, `x.f(…)`)
func calleeName(ce *ast.CallExpr) string {
	switch f := ce.Fun.(type) {
	case *ast.Ident:
		return f.Name
	case *ast.SelectorExpr:
		if id, ok := f.X.(*ast.Ident); ok && id.Name != "b" {
			return "" // a call into another package or on another object (os.Create, f.WriteString, fmt.Errorf …)
		}
		return f.Sel.Name
	}
	return ""
}

// sliceOf: the elements of `return []string{e1, …, en}` if that is the whole body of fd
func sliceOf(fd *ast.FuncDecl) []ast.Expr {
	if fd.Body == nil || len(fd.Body.List) != 1 {
		return nil
	}
	rs, ok := fd.Body.List[0].(*ast.ReturnStmt)
	if !ok || len(rs.Results) != 1 {
		return nil
	}
	cl, ok := rs.Results[0].(*ast.CompositeLit)
	if !ok {
		return nil
	}
	if _, ok := cl.Type.(*ast.ArrayType); !ok {
		return nil
	}
	return cl.Elts
}

// opsOf: the effects of fd's body in source order, in the GenOps vocabulary
func opsOf(fd *ast.FuncDecl, funcs map[string][]*ast.FuncDecl, stack []string) []string {
	if len(stack) > 6 {
		panic("call chain too deep")
	}
	for _, s := range stack {
		if s == fd.Name.Name {
			panic("recursive helper: " + s)
		}
	}
	stack = append(stack, fd.Name.Name)
	inWriteFile := fd.Name.Name == "WriteFile"
	var ops []string
	var visit func(n ast.Node) bool
	visit = func(n ast.Node) bool {
		// `for _, s := range b.sections() { f.WriteString(s) }` with `sections` returning a slice literal: one write per element
		if rs, ok := n.(*ast.RangeStmt); ok {
			if ce, ok := rs.X.(*ast.CallExpr); ok && len(ce.Args) == 0 {
				if cands := funcs[calleeName(ce)]; len(cands) == 1 {
					if elts := sliceOf(cands[0]); elts != nil && len(rs.Body.List) == 1 {
						if es, ok := rs.Body.List[0].(*ast.ExprStmt); ok {
							if wc, ok := es.X.(*ast.CallExpr); ok && strings.HasPrefix(types.ExprString(wc), "f.WriteString(") && len(wc.Args) == 1 {
								if v, ok := rs.Value.(*ast.Ident); ok && types.ExprString(wc.Args[0]) == v.Name {
									for _, e := range elts {
										ops = append(ops, fmt.Sprintf(".write %v", types.ExprString(e) == "b.CodeLast"))
									}
									return false
								}
							}
						}
					}
				}
			}
			return true
		}
		ce, ok := n.(*ast.CallExpr)
		if !ok {
			return true
		}
		c := types.ExprString(ce)
		if nm := calleeName(ce); nm != "" {
			if cands := funcs[nm]; len(cands) == 1 && cands[0].Body != nil {
				for _, a := range ce.Args {
					ast.Inspect(a, visit)
				}
				ops = append(ops, opsOf(cands[0], funcs, stack)...)
				return false
			} else if len(cands) > 1 {
				// the same method name on both builders: pick the one whose receiver matches the entry point's builder
				for _, cand := range cands {
					if cand.Recv != nil && len(cand.Recv.List) > 0 && strings.Contains(types.ExprString(cand.Recv.List[0].Type), builderOf(stack[0])) {
						for _, a := range ce.Args {
							ast.Inspect(a, visit)
						}
						ops = append(ops, opsOf(cand, funcs, stack)...)
						return false
					}
				}
			}
		}
		switch {
		case strings.HasPrefix(c, "os.Create("):
			ops = append(ops, ".create")
		case strings.HasPrefix(c, "f.WriteString("):
			ops = append(ops, fmt.Sprintf(".write %v", c == "f.WriteString(b.CodeLast)"))
		case inWriteFile && c == "templ.Execute(f, b)":
			ops = append(ops, ".write true") // the template; that it ends with the epilogue slot is a separate fact below
		case inWriteFile && (strings.HasPrefix(c, "template.New(\"gotemplate\")") && compiledInTemplateArg(ce, funcs)), inWriteFile && c == "panic(err)":
			ops = append(ops, ".other") // parsing a compiled-in template does not depend on the input
		case strings.HasPrefix(c, "fmt.Errorf("), strings.HasPrefix(c, "f.Close("):
			ops = append(ops, ".other")
		default:
			ops = append(ops, ".fallible")
		}
		return true
	}
	ast.Inspect(fd.Body, visit)
	return ops
}

func builderOf(entry string) string {
	if entry == "TsGenFromString" {
		return "TsBuilder"
	}
	return "TemplateBuilder"
}

// compiledInTemplateArg: `template.New("gotemplate")` itself, or `.Parse(x)` with x a plain identifier or a call of a
// parameterless helper of package builder (the compiled-in template text; never something read from the input)
func compiledInTemplateArg(ce *ast.CallExpr, funcs map[string][]*ast.FuncDecl) bool {
	sel, ok := ce.Fun.(*ast.SelectorExpr)
	if !ok || sel.Sel.Name != "Parse" {
		return true
	}
	if len(ce.Args) != 1 {
		return false
	}
	switch a := ce.Args[0].(type) {
	case *ast.Ident:
		return true
	case *ast.CallExpr:
		return len(a.Args) == 0 && len(funcs[calleeName(a)]) >= 1
	}
	return false
}
