import Yv.Cert.Canon
/-! List-based, proof-friendly model of the implementation's LR(0) worklist (`ComputeAllGoto`):

    ```
    states := [closure{(0,0)}]            -- closure = fixpoint, then items sorted by (rule, dot)
    for i := 0; i < len(states); i++ {    -- abort when len(states) >= 2000
      for each (X, kernel) of states[i], by first occurrence of X after a dot:
        cl := closure(kernel)
        if states[j] == cl for some j: goto(i, X) = j
        else: append cl as state n; goto(i, X) = n
    }
    ```

    Same state numbering and goto order as the array model `Core.buildLR0` (and hence as the Go
    implementation); the theorems are in `Yv/Proofs/LR0LFacts.lean` and `Yv/Props/C09gen.lean`. -/
namespace Y

/-- strict order on items: by rule, then by dot -/
def itemLt (a b : Item) : Bool := decide (a.r < b.r) || (a.r == b.r && decide (a.d < b.d))

/-- insert into a strictly sorted list (no duplicate is created) -/
def insertI (x : Item) : List Item → List Item
  | [] => [x]
  | y :: ys => if itemLt x y then x :: y :: ys else if x = y then y :: ys else y :: insertI x ys

/-- insertion sort with deduplication -/
def sortI (l : List Item) : List Item := l.foldr insertI []

/-- the closure of a kernel as the implementation stores it: sorted by (rule, dot), no duplicates -/
def closureS (G : Grammar) (kernel : List Item) : Option (List Item) :=
  (closureL G kernel).map sortI

/-- keep the first occurrence of every element -/
def dedupS : List Sym → List Sym
  | [] => []
  | x :: xs => x :: (dedupS xs).filter (fun y => y != x)

/-- the symbols after a dot, in order of first occurrence -/
def symsOf (G : Grammar) (its : List Item) : List Sym := dedupS (its.filterMap (afterDot G))

/-- successor kernels grouped by the symbol after the dot, in order of first occurrence of the
    symbol; inside a kernel the items keep the order of `its` -/
def kernels (G : Grammar) (its : List Item) : List (Sym × List Item) :=
  (symsOf G its).map fun X => (X, advance G X its)

/-- index of the first state equal to `cl` -/
def findSt (cl : List Item) : List (List Item) → Option Nat
  | [] => none
  | s :: ss => if s = cl then some 0 else (findSt cl ss).map (· + 1)

/-- process the successor kernels of one state: the new state list and the state's goto list -/
def stepK (G : Grammar) :
    List (Sym × List Item) → List (List Item) → Option (List (List Item) × List (Sym × Nat))
  | [], sts => some (sts, [])
  | e :: ks, sts =>
    match closureS G e.2 with
    | none => none
    | some cl =>
      match findSt cl sts with
      | some j => (stepK G ks sts).map fun r => (r.1, (e.1, j) :: r.2)
      | none => (stepK G ks (sts ++ [cl])).map fun r => (r.1, (e.1, sts.length) :: r.2)

/-- the cap of the implementation ("too many states") -/
def stateCap : Nat := 2000

/-- the worklist: `gts.length` states are processed; the next one is state number `gts.length` -/
def loopL (G : Grammar) : Nat → List (List Item) → List (List (Sym × Nat)) → Option Auto
  | 0, _, _ => none
  | fuel + 1, sts, gts =>
    if sts.length ≤ gts.length then some ⟨sts, gts⟩
    else
      match stepK G (kernels G (sts.getD gts.length [])) sts with
      | none => none
      | some r => if stateCap ≤ r.1.length then none else loopL G fuel r.1 (gts ++ [r.2])

/-- the LR(0) automaton; `none` when a closure computation fails or the cap is hit.  (The fuel is
    never the reason: every round processes one state and fewer than 2000 states ever exist.) -/
def buildL (G : Grammar) : Option Auto :=
  match closureS G [⟨0, 0⟩] with
  | none => none
  | some s0 => loopL G (stateCap + 1) [s0] []

end Y
