import Yv.Model.GoSem
import Yv.Gen.Driver
import Yv.Model.ArrDrive
/-! # C08b — the driver TEXT of both Go templates is the hand model `Y.AD.astep`

`Yv/Gen/Driver.lean` is regenerated on every run from the template strings in
`Builder/GoCodeTemplate.go` and `Builder/GoObjectTemplate.go`: the bodies of `PushStateSym`,
`PopStateSym`, `ParserInit` and `Parser` as syntax trees (`Yv/Model/GoAst.lean`).  Their meaning is
the interpreter of `Yv/Model/GoSem.lean`.  Proved here, for every parameter set `P` (table lookup,
action constants, rule data, semantic actions) and every configuration, with no invariant assumed:

* `push_*_eq`, `pop_*_eq`, `init_*_eq`: the translated helper bodies are `AStack.push`,
  `AStack.pop` (for `n ≤ sp`; Go's `int` pointer goes negative otherwise, `pop_global_neg`),
  `initGlobal`, `initCtx`;
* `step_*_eq`: one iteration of the translated `for` loop of `Parser` is `astep P c`;
* `parser_*_eq`: the whole translated `Parser` (declarations, first `fetchLookAhead`, the loop,
  `return nil`) is `arun P fuel (ainit s w)`, `fuel` bounding the number of iterations.

An edit of the driver text in either template changes `Yv/Gen/Driver.lean`; then these proofs are
re-checked and fail unless the edit preserves the meaning. -/
namespace C08b
open Y Y.D Y.AD GoSem

/-- unfold the interpreter on a concrete program -/
syntax "go_simp" ("[" Lean.Parser.Tactic.simpLemma,* "]")? : tactic
macro_rules
  | `(tactic| go_simp) => `(tactic| simp only [invoke, execs, exec, eval, evalArgs, callFn, reduceFunc, idVal, lookup,
    setVar, store, ofStore, ofRes, binVal, selStep, selVal, isStack, load, leave, popEnv, mkEntry, setField,
    getField, allEnts, List.zip_cons_cons, List.zip_nil_right, List.zip_nil_left, ↓reduceIte, reduceCtorEq,
    List.length_cons, List.length_nil, Nat.sub_self, List.drop_zero, Bool.true_eq_false, Bool.false_eq_true,
    decide_eq_true_eq, Nat.reduceAdd, Nat.reduceSub, List.drop_succ_cons])
  | `(tactic| go_simp [$ls,*]) => `(tactic| simp only [invoke, execs, exec, eval, evalArgs, callFn, reduceFunc, idVal, lookup,
    setVar, store, ofStore, ofRes, binVal, selStep, selVal, isStack, load, leave, popEnv, mkEntry, setField,
    getField, allEnts, List.zip_cons_cons, List.zip_nil_right, List.zip_nil_left, ↓reduceIte, reduceCtorEq,
    List.length_cons, List.length_nil, Nat.sub_self, List.drop_zero, Bool.true_eq_false, Bool.false_eq_true,
    decide_eq_true_eq, Nat.reduceAdd, Nat.reduceSub, List.drop_succ_cons, $ls,*])

/-- the machine state `m` with the array and pointer of `s` -/
def setStack {V : Type} (m : M V) (s : AStack V) : M V := { m with arr := s.a, sp := (s.sp : Int) }

/-! ### `PushStateSym` -/

theorem push_global_eq {V : Type} (P : Params V) (zeroV : V) (fuel : Nat) (m : M V) (s : AStack V) (e : Entry V) :
    invoke P zeroV ext0 fuel Gen.pushGlobal [.obj e] (setStack m s)
      = .norm (setStack { m with trace := .shift e.sym e.st :: m.trace } (s.push e)) := by
  simp only [Gen.pushGlobal, setStack]
  go_simp
  unfold AStack.push
  by_cases h : s.sp ≥ s.a.length
  · have h' : (s.sp : Int) ≥ (s.a.length : Int) := by omega
    simp only [h, h', ↓reduceIte, Int.natCast_add, Int.natCast_one]
  · have h' : ¬ ((s.sp : Int) ≥ (s.a.length : Int)) := by omega
    have h2 : 0 ≤ (s.sp : Int) ∧ (s.sp : Int) < (s.a.length : Int) := by omega
    simp only [h, h', h2, and_self, ↓reduceIte, Int.natCast_add, Int.natCast_one, Int.toNat_natCast,
      List.length_cons, List.length_nil, List.drop_zero, Nat.zero_add, Nat.sub_self]

theorem push_object_eq {V : Type} (P : Params V) (zeroV : V) (fuel : Nat) (m : M V) (s : AStack V) (e : Entry V) :
    invoke P zeroV ext0 fuel Gen.pushObject [.obj e] (setStack m s)
      = .norm (setStack { m with trace := .shift e.sym e.st :: m.trace } (s.push e)) := by
  simp only [Gen.pushObject, setStack]
  go_simp
  unfold AStack.push
  by_cases h : s.sp ≥ s.a.length
  · have h' : (s.sp : Int) ≥ (s.a.length : Int) := by omega
    simp only [h, h', ↓reduceIte, Int.natCast_add, Int.natCast_one]
  · have h' : ¬ ((s.sp : Int) ≥ (s.a.length : Int)) := by omega
    have h2 : 0 ≤ (s.sp : Int) ∧ (s.sp : Int) < (s.a.length : Int) := by omega
    simp only [h, h', h2, and_self, ↓reduceIte, Int.natCast_add, Int.natCast_one, Int.toNat_natCast,
      List.length_cons, List.length_nil, List.drop_zero, Nat.zero_add, Nat.sub_self]

/-! ### `PopStateSym`

Go subtracts on `int`: the pointer becomes `sp - n`, negative when `n > sp`. -/

theorem pop_global_int {V : Type} (P : Params V) (zeroV : V) (fuel : Nat) (m : M V) (n : Int) :
    invoke P zeroV ext0 fuel Gen.popGlobal [.int n] m = .norm { m with sp := m.sp - n } := by
  simp only [Gen.popGlobal]
  go_simp

theorem pop_object_int {V : Type} (P : Params V) (zeroV : V) (fuel : Nat) (m : M V) (n : Int) :
    invoke P zeroV ext0 fuel Gen.popObject [.int n] m = .norm { m with sp := m.sp - n } := by
  simp only [Gen.popObject]
  go_simp

/-- `AStack.pop` (truncated subtraction on `Nat`) is the Go text exactly when `n ≤ sp` — which the
    slice bound check `0 ≤ topIndex - n` in `ReduceFunc` establishes before `PopStateSym(n)` -/
theorem pop_global_eq {V : Type} (P : Params V) (zeroV : V) (fuel : Nat) (m : M V) (s : AStack V) (n : Nat)
    (h : n ≤ s.sp) :
    invoke P zeroV ext0 fuel Gen.popGlobal [.int n] (setStack m s) = .norm (setStack m (s.pop n)) := by
  rw [pop_global_int]
  simp only [setStack, AStack.pop, Int.natCast_sub h]

theorem pop_object_eq {V : Type} (P : Params V) (zeroV : V) (fuel : Nat) (m : M V) (s : AStack V) (n : Nat)
    (h : n ≤ s.sp) :
    invoke P zeroV ext0 fuel Gen.popObject [.int n] (setStack m s) = .norm (setStack m (s.pop n)) := by
  rw [pop_object_int]
  simp only [setStack, AStack.pop, Int.natCast_sub h]

/-- without the hypothesis the two differ: Go's pointer goes negative, the model's stops at 0 -/
theorem pop_global_neg {V : Type} (P : Params V) (zeroV : V) (fuel : Nat) (m : M V) (s : AStack V) (n : Nat)
    (h : s.sp < n) :
    invoke P zeroV ext0 fuel Gen.popGlobal [.int n] (setStack m s) ≠ .norm (setStack m (s.pop n)) := by
  rw [pop_global_int]
  simp only [setStack, AStack.pop]
  intro hc
  injection hc with hc
  injection hc with _ hsp
  omega

/-! ### `ParserInit` -/

theorem init_global_eq {V : Type} (P : Params V) (bv : V) (fuel : Nat) (m : M V) (s : AStack V) :
    invoke P bv ext0 fuel Gen.parserInitGlobal [] (setStack m s) = .norm (setStack m (initGlobal bv)) := by
  simp only [Gen.parserInitGlobal, setStack]
  go_simp
  rfl

/-- the object template APPENDS the bottom entry to whatever the context's array holds -/
theorem init_object_eq {V : Type} (P : Params V) (bv : V) (fuel : Nat) (m : M V) (s : AStack V) :
    invoke P bv ext0 fuel Gen.parserInitObject [] (setStack m s) = .norm (setStack m (initCtx s bv)) := by
  simp only [Gen.parserInitObject, setStack]
  go_simp
  rfl


/-! ### one iteration of the loop of `Parser` -/

/-- the body of the first `for { … }` of a statement list -/
def loopOf : List Gen.Stmt → List Gen.Stmt
  | [] => []
  | .loop b :: _ => b
  | _ :: r => loopOf r

/-- the local variables of `Parser` at the head of the loop -/
def parserEnv {V : Type} (la : Sym) (v : V) : List (Gen.Id × Val V) :=
  [(.lookAhead, .int la), (.val, .val v), (.currentPos, .int 0), (.input, .str)]

def toM {V : Type} (eofVal : V) (c : ACfg V) : M V :=
  { arr := c.stack.a, sp := (c.stack.sp : Int),
    env := parserEnv (alook eofVal c).1 (alook eofVal c).2,
    input := c.rest.tail, req := c.req, reds := c.reds, trace := c.trace }

def toRes {V : Type} (eofVal : V) (c : ACfg V) : AStepR V → Res V
  | .next c' => .norm (toM eofVal c')
  | .acc v c' => .ret (.val v) (toM eofVal c')
  | .err c' => .err (toM eofVal c')
  | .crash => .crash
  | .nil => .brk (toM eofVal c)

theorem ext_push_global {V : Type} (P : Params V) (zeroV : V) (a : List (Entry V)) (sp : Nat) (env : List (Gen.Id × Val V))
    (input : List (Sym × V)) (req : Nat) (reds : List Nat) (trace : List Ev) (e : Entry V) :
    (extOf P zeroV Gen.pushGlobal Gen.popGlobal).push
        { arr := a, sp := (sp : Int), env := env, input := input, req := req, reds := reds, trace := trace } (.obj e)
      = .norm { arr := (AStack.push ⟨a, sp⟩ e).a, sp := ((AStack.push ⟨a, sp⟩ e).sp : Int), env := env, input := input,
                req := req, reds := reds, trace := .shift e.sym e.st :: trace } :=
  push_global_eq P zeroV 0 ⟨a, sp, env, input, req, reds, trace⟩ ⟨a, sp⟩ e

theorem ext_pop_global {V : Type} (P : Params V) (zeroV : V) (m : M V) (n : Int) :
    (extOf P zeroV Gen.pushGlobal Gen.popGlobal).pop m (.int n) = .norm { m with sp := m.sp - n } :=
  pop_global_int P zeroV 0 m n

theorem alook_headTok {V : Type} (e : V) (c : ACfg V) : alook e c = headTok e c.rest := rfl

theorem ext_push_object {V : Type} (P : Params V) (zeroV : V) (a : List (Entry V)) (sp : Nat) (env : List (Gen.Id × Val V))
    (input : List (Sym × V)) (req : Nat) (reds : List Nat) (trace : List Ev) (e : Entry V) :
    (extOf P zeroV Gen.pushObject Gen.popObject).push
        { arr := a, sp := (sp : Int), env := env, input := input, req := req, reds := reds, trace := trace } (.obj e)
      = .norm { arr := (AStack.push ⟨a, sp⟩ e).a, sp := ((AStack.push ⟨a, sp⟩ e).sp : Int), env := env, input := input,
                req := req, reds := reds, trace := .shift e.sym e.st :: trace } :=
  push_object_eq P zeroV 0 ⟨a, sp, env, input, req, reds, trace⟩ ⟨a, sp⟩ e

theorem ext_pop_object {V : Type} (P : Params V) (zeroV : V) (m : M V) (n : Int) :
    (extOf P zeroV Gen.pushObject Gen.popObject).pop m (.int n) = .norm { m with sp := m.sp - n } :=
  pop_object_int P zeroV 0 m n

set_option hygiene false in
/-- the proof of the step theorem, shared by the two templates: follow the guards of `astep` in
    order, give the interpreter the facts that decide its own tests, and let it run -/
macro "step_tac" prog:ident pushL:ident popL:ident : tactic => `(tactic| (
  unfold execIter astep
  simp only [$prog:ident, loopOf, toM, parserEnv]
  by_cases h0 : c.stack.sp = 0
  · have h0' : (c.stack.sp : Int) = 0 := by omega
    rw [if_pos h0]
    go_simp [h0']
    simp only [toRes, toM, parserEnv, h0']
  have h0' : ¬ ((c.stack.sp : Int) = 0) := by omega
  by_cases h1 : c.stack.sp > c.stack.a.length
  · have h1' : (c.stack.sp : Int) > (c.stack.a.length : Int) := by omega
    rw [if_neg h0, if_pos h1]
    go_simp [h0', h1']
    simp only [toRes, toM, parserEnv]
  have h1' : ¬ ((c.stack.sp : Int) > (c.stack.a.length : Int)) := by omega
  have hb : 0 ≤ (c.stack.sp : Int) - 1 ∧ (c.stack.sp : Int) - 1 < (c.stack.a.length : Int) := by omega
  have htn : ((c.stack.sp : Int) - 1).toNat = c.stack.sp - 1 := by omega
  rw [if_neg h0, if_neg h1]
  simp only [AStack.top?]
  cases htop : c.stack.a[c.stack.sp - 1]? with
  | none =>
    go_simp [h0', h1', hb, htn, htop, and_self]
    rfl
  | some top =>
    simp only []
    have hla : (0 : Int) ≤ ((alook P.eofVal c).1 : Int) := Int.natCast_nonneg _
    cases hL : P.L top.st (alook P.eofVal c).1 with
    | none =>
      go_simp [h0', h1', hb, htn, htop, and_self, hla, Int.toNat_natCast, hL]
      rfl
    | some a =>
      simp only []
      by_cases he : a = P.errC
      · rw [if_pos he]
        go_simp [h0', h1', hb, htn, htop, and_self, hla, Int.toNat_natCast, hL, he]
        simp only [toRes, toM, parserEnv]
      rw [if_neg he]
      by_cases hac : a = P.accC
      · rw [if_pos hac]
        subst hac
        go_simp [h0', h1', hb, htn, htop, and_self, hla, Int.toNat_natCast, hL, he]
        simp only [toRes, toM, parserEnv]
      rw [if_neg hac]
      by_cases hpos : 0 < a
      · rw [if_pos hpos]
        have hpos' : a > 0 := hpos
        have ha0 : 0 ≤ a := by omega
        go_simp [h0', h1', hb, htn, htop, and_self, hla, Int.toNat_natCast, hL, he, hac, hpos', ha0, $pushL:ident]
        simp only [toRes, toM, parserEnv, alook_headTok]
      rw [if_neg hpos]
      have hpos' : ¬ (a > 0) := hpos
      have hneg : ¬ (-a < 0) := by omega
      cases hr : P.rule (-a).toNat with
      | none =>
        go_simp [h0', h1', hb, htn, htop, and_self, hla, Int.toNat_natCast, hL, he, hac, hpos', hneg, hr]
        rfl
      | some ln =>
        obtain ⟨lhs, n⟩ := ln
        simp only []
        by_cases hn : n ≤ c.stack.sp - 1
        · rw [if_pos hn]
          have hsl : 0 ≤ (c.stack.sp : Int) - 1 - (n : Int) ∧ (c.stack.sp : Int) ≤ (c.stack.a.length : Int) := by omega
          have hb2 : 0 ≤ (c.stack.sp : Int) - (n : Int) - 1 ∧ (c.stack.sp : Int) - (n : Int) - 1 < (c.stack.a.length : Int) := by omega
          have htn2 : ((c.stack.sp : Int) - (n : Int) - 1).toNat = c.stack.sp - n - 1 := by omega
          simp only [AStack.pop]
          cases hu : c.stack.a[c.stack.sp - n - 1]? with
          | none =>
            go_simp [h0', h1', hb, htn, htop, and_self, hla, Int.toNat_natCast, hL, he, hac, hpos', hneg, hr, hsl,
              $popL:ident, hb2, htn2, hu]
            rfl
          | some under =>
            simp only []
            have hlhs : (0 : Int) ≤ (lhs : Int) := Int.natCast_nonneg _
            cases hg : P.L under.st lhs with
            | none =>
              go_simp [h0', h1', hb, htn, htop, and_self, hla, Int.toNat_natCast, hL, he, hac, hpos', hneg, hr, hsl,
                $popL:ident, hb2, htn2, hu, hlhs, hg]
              rfl
            | some g =>
              simp only []
              by_cases hg0 : g < 0
              · rw [if_pos hg0]
                have hg0' : ¬ (0 ≤ g) := by omega
                go_simp [h0', h1', hb, htn, htop, and_self, hla, Int.toNat_natCast, hL, he, hac, hpos', hneg, hr, hsl,
                  $popL:ident, hb2, htn2, hu, hlhs, hg, hg0']
                rfl
              · rw [if_neg hg0]
                have hg0' : 0 ≤ g := by omega
                have hna : 0 ≤ -a := by omega
                have hsub : (c.stack.sp : Int) - (n : Int) = ((c.stack.sp - n : Nat) : Int) := by omega
                go_simp [h0', h1', hb, htn, htop, and_self, hla, Int.toNat_natCast, hL, he, hac, hpos', hneg, hr, hsl,
                  $popL:ident, hb2, htn2, hu, hlhs, hg, hg0', hna]
                simp only [hsub]
                go_simp [$pushL:ident]
                have hd : ((c.stack.sp : Int) - 1 - (n : Int)).toNat = c.stack.sp - 1 - n := by omega
                simp only [toRes, toM, parserEnv, alook, AStack.dollar, hd]
        · rw [if_neg hn]
          have hsl : ¬ (0 ≤ (c.stack.sp : Int) - 1 - (n : Int) ∧ (c.stack.sp : Int) ≤ (c.stack.a.length : Int)) := by omega
          go_simp [h0', h1', hb, htn, htop, and_self, hla, Int.toNat_natCast, hL, he, hac, hpos', hneg, hr, hsl]
          rfl
))

theorem step_global_eq {V : Type} (P : Params V) (zeroV : V) (fuel : Nat) (c : ACfg V) :
    execIter P zeroV (extOf P zeroV Gen.pushGlobal Gen.popGlobal) fuel (loopOf Gen.parserGlobal.body) (toM P.eofVal c)
      = toRes P.eofVal c (astep P c) := by
  step_tac Gen.parserGlobal ext_push_global ext_pop_global

theorem step_object_eq {V : Type} (P : Params V) (zeroV : V) (fuel : Nat) (c : ACfg V) :
    execIter P zeroV (extOf P zeroV Gen.pushObject Gen.popObject) fuel (loopOf Gen.parserObject.body) (toM P.eofVal c)
      = toRes P.eofVal c (astep P c) := by
  step_tac Gen.parserObject ext_push_object ext_pop_object

/-! ### the whole `Parser`: declarations, first `fetchLookAhead`, the loop, `return nil` -/

/-- how the loop ends, given how `arun` ends (`cl` = configuration at the head of the last iteration) -/
def loopRes {V : Type} (eofVal : V) (cl : ACfg V) : AOutcome V → Res V
  | .accept v c => .ret (.val v) (toM eofVal c)
  | .syntaxError c => .err (toM eofVal c)
  | .crash => .crash
  | .outOfFuel => .outOfFuel
  | .nil => .norm (toM eofVal cl)

theorem iterate_arun {V : Type} (P : Params V) (iter : M V → Res V)
    (hstep : ∀ c, iter (toM P.eofVal c) = toRes P.eofVal c (astep P c)) :
    ∀ (fuel : Nat) (c : ACfg V),
      iterate iter fuel (toM P.eofVal c) = loopRes P.eofVal (alast P fuel c) (arun P fuel c)
  | 0, _ => rfl
  | fuel + 1, c => by
    unfold iterate arun alast
    rw [hstep c]
    cases h : astep P c with
    | next c' => simp only [toRes]; exact iterate_arun P iter hstep fuel c'
    | acc v c' => rfl
    | err c' => rfl
    | crash => rfl
    | nil => rfl

theorem exec_loop {V : Type} (P : Params V) (zeroV : V) (X : Ext V) (fuel : Nat) (m : M V) (body : List Gen.Stmt) :
    exec P zeroV X fuel m (.loop body) = iterate (execIter P zeroV X fuel body) fuel m := by
  simp only [exec]; rfl

/-- the state in which `Parser` is called: nothing fetched yet (`env` = the caller's variables) -/
def callState {V : Type} (s : AStack V) (w : List (Sym × V)) (env : List (Gen.Id × Val V)) : M V :=
  { arr := s.a, sp := (s.sp : Int), env := env, input := w, req := 0, reds := [], trace := [] }

def withEnv {V : Type} (env : List (Gen.Id × Val V)) (m : M V) : M V := { m with env := env }

/-- what `Parser` returns, given how `arun` ends: `&s.ValType`, a panic with the grammar-error
    message, a run-time panic, or `nil` -/
def toOutcome {V : Type} (eofVal : V) (env : List (Gen.Id × Val V)) (cl : ACfg V) : AOutcome V → Res V
  | .accept v c => .ret (.val v) (withEnv env (toM eofVal c))
  | .syntaxError c => .err (withEnv env (toM eofVal c))
  | .crash => .crash
  | .outOfFuel => .outOfFuel
  | .nil => .ret .nil (withEnv env (toM eofVal cl))

theorem parser_global_eq {V : Type} (P : Params V) (zeroV : V) (fuel : Nat) (s : AStack V) (w : List (Sym × V))
    (env : List (Gen.Id × Val V)) :
    invoke P zeroV (extOf P zeroV Gen.pushGlobal Gen.popGlobal) fuel Gen.parserGlobal [.str] (callState s w env)
      = toOutcome P.eofVal env (alast P fuel (ainit s w)) (arun P fuel (ainit s w)) := by
  have key := iterate_arun P _ (step_global_eq P zeroV fuel) fuel (ainit s w)
  simp only [loopOf, Gen.parserGlobal, toM, parserEnv, alook_headTok, ainit] at key
  simp only [invoke, Gen.parserGlobal, callState, execs]
  simp only [exec_loop]
  go_simp
  rw [key]
  clear key
  unfold ainit
  generalize alast P fuel { stack := s, rest := w, reds := [], req := 1, trace := [] } = cl
  cases arun P fuel { stack := s, rest := w, reds := [], req := 1, trace := [] } with
  | accept v c => rfl
  | syntaxError c => rfl
  | crash => rfl
  | outOfFuel => rfl
  | nil =>
    simp only [loopRes, toOutcome, withEnv, toM]

theorem parser_object_eq {V : Type} (P : Params V) (zeroV : V) (fuel : Nat) (s : AStack V) (w : List (Sym × V))
    (env : List (Gen.Id × Val V)) :
    invoke P zeroV (extOf P zeroV Gen.pushObject Gen.popObject) fuel Gen.parserObject [.str] (callState s w env)
      = toOutcome P.eofVal env (alast P fuel (ainit s w)) (arun P fuel (ainit s w)) := by
  have key := iterate_arun P _ (step_object_eq P zeroV fuel) fuel (ainit s w)
  simp only [loopOf, Gen.parserObject, toM, parserEnv, alook_headTok, ainit] at key
  simp only [invoke, Gen.parserObject, callState, execs]
  simp only [exec_loop]
  go_simp
  rw [key]
  clear key
  unfold ainit
  generalize alast P fuel { stack := s, rest := w, reds := [], req := 1, trace := [] } = cl
  cases arun P fuel { stack := s, rest := w, reds := [], req := 1, trace := [] } with
  | accept v c => rfl
  | syntaxError c => rfl
  | crash => rfl
  | outOfFuel => rfl
  | nil =>
    simp only [loopRes, toOutcome, withEnv, toM]

/-! ### axioms -/
#print axioms push_global_eq
#print axioms push_object_eq
#print axioms pop_global_eq
#print axioms pop_object_eq
#print axioms pop_global_neg
#print axioms init_global_eq
#print axioms init_object_eq
#print axioms step_global_eq
#print axioms step_object_eq
#print axioms parser_global_eq
#print axioms parser_object_eq

end C08b
