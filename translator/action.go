package main

import (
	"fmt"
	"go/ast"
	"go/parser"
	"go/token"
	"os"
	"regexp"
	"strings"
)

// genAction translates the packed `Action` method of both Go templates (text taken from the
// compiled-in template strings) into Lean definitions over Int with explicit array reads:
//
//	idx l i  = the i-th element of l (0 when out of range; the theorems only use it in range)
//	len l    = l.length as Int
//
// Supported subset: if/else, return, comparisons, ||, &&, +, -, index expressions, len(), s.Yystate,
// the five packed arrays and the two constants. Anything else fails closed.
func genAction(repo, outdir string) {
	var sb strings.Builder
	sb.WriteString("-- GENERATED from Builder/GoCodeTemplate.go and Builder/GoObjectTemplate.go; do not edit\nnamespace Gen\n\n")
	sb.WriteString("def idx (l : List Int) (i : Int) : Int := if i < 0 then 0 else l.getD i.toNat 0\ndef len (l : List Int) : Int := (l.length : Int)\n\n")
	re := regexp.MustCompile(`(?s)func \(\w+ \*StateSym\) Action\(\w+ int\) int \{.*?\n\}\n`)
	for _, t := range [][2]string{{"Global", "Builder/GoCodeTemplate.go"}, {"Object", "Builder/GoObjectTemplate.go"}} {
		src, err := os.ReadFile(repo + "/" + t[1])
		if err != nil {
			panic(err)
		}
		ms := re.FindAllString(string(src), -1)
		if len(ms) != 2 {
			panic(fmt.Sprintf("%s: expected two Action methods (packed, dense), found %d", t[1], len(ms)))
		}
		wrapped := "package p\ntype StateSym struct{ Yystate int }\n" + ms[0]
		fset := token.NewFileSet()
		f, err := parser.ParseFile(fset, "action.go", wrapped, 0)
		if err != nil {
			panic(err)
		}
		var fd *ast.FuncDecl
		for _, d := range f.Decls {
			if x, ok := d.(*ast.FuncDecl); ok {
				fd = x
			}
		}
		canonLocals(fd, []string{"s", "a"})
		fmt.Fprintf(&sb, "/-- the packed `Action` method of the %s template -/\n", strings.ToLower(t[0]))
		fmt.Fprintf(&sb, "def actionPacked%s (act off chk adef gdef : List Int) (nterminals errorAction : Int) (q a : Int) : Int :=\n", t[0])
		sb.WriteString(aStmts(fd.Body.List, "  ") + "\n\n")
		// the dense method must be the plain double index
		if !regexp.MustCompile(`func \((\w+) \*StateSym\) Action\((\w+) int\) int \{\s*return StateActionArray\[(\w+)\.Yystate\]\[(\w+)\]\s*\}`).MatchString(ms[1]) || !denseSameNames(ms[1]) {
			panic(t[1] + ": dense Action is not `return StateActionArray[s.Yystate][a]`")
		}
	}
	// the TypeScript target has the dense form only
	ts, err := os.ReadFile(repo + "/Builder/TsGenCode.go")
	if err != nil {
		panic(err)
	}
	tsre := regexp.MustCompile(`Action\(\s*a\s*:\s*number\s*\)\s*:\s*number\s*\{\s*return\s+StateActionArray\[this\.Yystate\]\[a\]\s*;?\s*\}`)
	if len(tsre.FindAllString(string(ts), -1)) != 1 {
		panic("TsGenCode.go: Action is not `return StateActionArray[this.Yystate][a]`")
	}
	sb.WriteString("end Gen\n")
	writeIfChanged(outdir+"/Action.lean", sb.String())
}

func aExpr(e ast.Expr) string {
	switch x := e.(type) {
	case *ast.Ident:
		switch x.Name {
		case "a":
			return "a"
		case "NTERMINALS":
			return "nterminals"
		case "ERROR_ACTION":
			return "errorAction"
		case "StatePackAction":
			return "act"
		case "StatePackOffset":
			return "off"
		case "StackPackCheck":
			return "chk"
		case "StackPackActDef":
			return "adef"
		case "StackPackGotoDef":
			return "gdef"
		}
		panic("unknown identifier " + x.Name)
	case *ast.BasicLit:
		return x.Value
	case *ast.ParenExpr:
		return "(" + aExpr(x.X) + ")"
	case *ast.SelectorExpr:
		if id, ok := x.X.(*ast.Ident); ok && id.Name == "s" && x.Sel.Name == "Yystate" {
			return "q"
		}
		panic("unsupported selector")
	case *ast.IndexExpr:
		return "(idx " + aExpr(x.X) + " " + aExpr(x.Index) + ")"
	case *ast.CallExpr:
		if id, ok := x.Fun.(*ast.Ident); ok && id.Name == "len" && len(x.Args) == 1 {
			return "(len " + aExpr(x.Args[0]) + ")"
		}
		panic("unsupported call")
	case *ast.BinaryExpr:
		op := map[token.Token]string{token.EQL: "=", token.NEQ: "≠", token.GTR: ">", token.LSS: "<", token.GEQ: "≥", token.LEQ: "≤",
			token.LAND: "∧", token.LOR: "∨", token.ADD: "+", token.SUB: "-"}[x.Op]
		if op == "" {
			panic("unsupported operator " + x.Op.String())
		}
		return "(" + aExpr(x.X) + " " + op + " " + aExpr(x.Y) + ")"
	}
	panic(fmt.Sprintf("unsupported expression %T", e))
}

func aStmts(list []ast.Stmt, ind string) string {
	if len(list) == 0 {
		panic("function may fall off its end")
	}
	s, rest := list[0], list[1:]
	switch x := s.(type) {
	case *ast.ReturnStmt:
		return ind + aExpr(x.Results[0])
	case *ast.IfStmt:
		thenB := append(append([]ast.Stmt{}, x.Body.List...), rest...)
		var elseB []ast.Stmt
		switch e := x.Else.(type) {
		case nil:
			elseB = rest
		case *ast.BlockStmt:
			elseB = append(append([]ast.Stmt{}, e.List...), rest...)
		case *ast.IfStmt:
			elseB = append([]ast.Stmt{e}, rest...)
		}
		return ind + "if " + aExpr(x.Cond) + " then\n" + aStmts(thenB, ind+"  ") + "\n" + ind + "else\n" + aStmts(elseB, ind+"  ")
	}
	panic(fmt.Sprintf("unsupported statement %T", s))
}

// denseSameNames: the dense Action indexes with its own receiver and parameter
func denseSameNames(text string) bool {
	m := regexp.MustCompile(`func \((\w+) \*StateSym\) Action\((\w+) int\) int \{\s*return StateActionArray\[(\w+)\.Yystate\]\[(\w+)\]\s*\}`).FindStringSubmatch(text)
	return m != nil && m[1] == m[3] && m[2] == m[4]
}
