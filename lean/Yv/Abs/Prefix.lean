import Yv.Abs.Lalr
/-! Prototype for C06_prefix: items of the canonical LR(0) state reached by a path are valid for
    that path; hence the path is a viable prefix and (all symbols productive) extends to a sentence. -/
namespace Y

/-- one rewriting step anywhere, and its reflexive-transitive closure -/
inductive Derives (G : Grammar) : List Sym → List Sym → Prop
  | refl (a : List Sym) : Derives G a a
  | step (pre post : List Sym) (r : Nat) (rl : Rule) (b : List Sym) :
      G.rules[r]? = some rl → Derives G (pre ++ rl.rhs ++ post) b → Derives G (pre ++ [rl.lhs] ++ post) b

theorem Derives.trans {G : Grammar} {a b c : List Sym} (h1 : Derives G a b) (h2 : Derives G b c) :
    Derives G a c := by
  induction h1 with
  | refl => exact h2
  | step pre post r rl b hr _ ih => exact .step pre post r rl c hr (ih h2)

theorem Derives.ctx {G : Grammar} {a b : List Sym} (h : Derives G a b) (l r : List Sym) :
    Derives G (l ++ a ++ r) (l ++ b ++ r) := by
  induction h with
  | refl => exact .refl _
  | step pre post k rl b hr _ ih =>
    have := Derives.step (l ++ pre) (post ++ r) k rl (l ++ b ++ r) hr (by simpa [List.append_assoc] using ih)
    simpa [List.append_assoc] using this

def Terminals (G : Grammar) (z : List Sym) : Prop := ∀ t ∈ z, G.isT t = true

/-- every symbol sequence derives some terminal string (what C12's check guarantees) -/
def AllProductive (G : Grammar) : Prop := ∀ γ : List Sym, ∃ y, Terminals G y ∧ Derives G γ y

/-- LR(0) closure, successor kernel, canonical state by path (most recent symbol first) -/
inductive Cl0 (G : Grammar) (K : Item → Prop) : Item → Prop
  | base (it : Item) : K it → Cl0 G K it
  | step (r d r' : Nat) (rl rl' : Rule) : Cl0 G K ⟨r, d⟩ → G.rules[r]? = some rl →
      G.rules[r']? = some rl' → rl.rhs[d]? = some rl'.lhs → Cl0 G K ⟨r', 0⟩

def adv0 (G : Grammar) (X : Sym) (S : Item → Prop) : Item → Prop :=
  fun it => ∃ r d rl, it = ⟨r, d+1⟩ ∧ G.rules[r]? = some rl ∧ rl.rhs[d]? = some X ∧ S ⟨r, d⟩

def St0 (G : Grammar) : List Sym → Item → Prop
  | [] => Cl0 G (fun it => it = ⟨0, 0⟩)
  | X :: γ => Cl0 G (adv0 G X (St0 G γ))

/-- item `A → α·β` is valid for the viable prefix `γ` (start symbol = lhs of rule 0) -/
def Valid (G : Grammar) (γ : List Sym) (it : Item) : Prop :=
  ∃ rl0 rl δ z, G.rules[0]? = some rl0 ∧ G.rules[it.r]? = some rl ∧ it.d ≤ rl.rhs.length ∧
    γ = δ ++ rl.rhs.take it.d ∧ Terminals G z ∧ Derives G [rl0.lhs] (δ ++ [rl.lhs] ++ z)

theorem take_succ_of_get {l : List Sym} {d : Nat} {X : Sym} (h : l[d]? = some X) :
    l.take (d+1) = l.take d ++ [X] := by
  rw [List.take_succ, h]; rfl

theorem split_at {l : List Sym} {d : Nat} {X : Sym} (h : l[d]? = some X) :
    l = l.take d ++ [X] ++ l.drop (d+1) := by
  have := List.take_append_drop (d+1) l
  rw [take_succ_of_get h] at this; exact this.symm

theorem valid_goto (G : Grammar) (γ : List Sym) (r d : Nat) (rl : Rule) (X : Sym)
    (hr : G.rules[r]? = some rl) (hx : rl.rhs[d]? = some X) (h : Valid G γ ⟨r, d⟩) :
    Valid G (γ ++ [X]) ⟨r, d+1⟩ := by
  obtain ⟨rl0, rl', δ, z, h0, hr', hd, hγ, hz, hder⟩ := h
  simp only at hr' hd hγ
  rw [hr] at hr'; cases hr'
  have hlt : d < rl.rhs.length := by
    rcases Nat.lt_or_ge d rl.rhs.length with h | h
    · exact h
    · simp [List.getElem?_eq_none h] at hx
  refine ⟨rl0, rl, δ, z, h0, hr, hlt, ?_, hz, hder⟩
  simp only [take_succ_of_get hx, hγ, List.append_assoc]

theorem valid_clos (G : Grammar) (hP : AllProductive G) (γ : List Sym) (r d r' : Nat) (rl rl' : Rule)
    (hr : G.rules[r]? = some rl) (hr' : G.rules[r']? = some rl') (hx : rl.rhs[d]? = some rl'.lhs)
    (h : Valid G γ ⟨r, d⟩) : Valid G γ ⟨r', 0⟩ := by
  obtain ⟨rl0, rl1, δ, z, h0, hr1, hd, hγ, hz, hder⟩ := h
  simp only at hr1 hd hγ
  rw [hr] at hr1; cases hr1
  obtain ⟨y, hy, hdy⟩ := hP (rl.rhs.drop (d+1))
  refine ⟨rl0, rl', γ, y ++ z, h0, hr', Nat.zero_le _, by simp, ?_, ?_⟩
  · intro t ht; rcases List.mem_append.mp ht with h | h
    · exact hy t h
    · exact hz t h
  · -- S' ⇒* δ A z ⇒ δ (take d) B (drop (d+1)) z ⇒* γ B y z
    have e1 : Derives G (δ ++ [rl.lhs] ++ z) (δ ++ rl.rhs ++ z) :=
      .step δ z r rl _ hr (.refl _)
    have e2 : δ ++ rl.rhs ++ z = (γ ++ [rl'.lhs]) ++ rl.rhs.drop (d+1) ++ z := by
      conv => lhs; rw [split_at hx]
      simp [hγ, List.append_assoc]
    have e3 : Derives G ((γ ++ [rl'.lhs]) ++ rl.rhs.drop (d+1) ++ z) ((γ ++ [rl'.lhs]) ++ y ++ z) :=
      hdy.ctx _ _
    have := hder.trans (e1.trans (e2 ▸ e3))
    simpa [List.append_assoc] using this

/-- every item of the canonical state reached by `γ` (most recent first) is valid for `γ.reverse` -/
theorem St0_valid (G : Grammar) (hP : AllProductive G) (rl0 : Rule) (h0 : G.rules[0]? = some rl0) :
    ∀ (γ : List Sym) (it : Item), St0 G γ it → Valid G γ.reverse it := by
  intro γ
  induction γ with
  | nil =>
    intro it h
    induction h with
    | base it hk =>
      subst hk
      exact ⟨rl0, rl0, [], [], h0, h0, Nat.zero_le _, by simp, (fun t ht => by cases ht), by simpa using Derives.refl _⟩
    | step r d r' rl rl' _ hr hr' hx ih => exact valid_clos G hP _ r d r' rl rl' hr hr' hx ih
  | cons X γ ihγ =>
    intro it h
    induction h with
    | base it hk =>
      obtain ⟨r, d, rl, rfl, hr, hx, hs⟩ := hk
      have := valid_goto G γ.reverse r d rl X hr hx (ihγ _ hs)
      simpa using this
    | step r d r' rl rl' _ hr hr' hx ih => exact valid_clos G hP _ r d r' rl rl' hr hr' hx ih

/-- a valid item makes its prefix viable: it extends to a sentential form with a terminal tail -/
theorem valid_viable (G : Grammar) (hP : AllProductive G) (γ : List Sym) (it : Item)
    (h : Valid G γ it) : ∃ rl0 z, G.rules[0]? = some rl0 ∧ Terminals G z ∧ Derives G [rl0.lhs] (γ ++ z) := by
  obtain ⟨rl0, rl, δ, z, h0, hr, hd, hγ, hz, hder⟩ := h
  obtain ⟨y, hy, hdy⟩ := hP (rl.rhs.drop it.d)
  refine ⟨rl0, y ++ z, h0, ?_, ?_⟩
  · intro t ht; rcases List.mem_append.mp ht with h | h
    · exact hy t h
    · exact hz t h
  · have e1 : Derives G (δ ++ [rl.lhs] ++ z) (δ ++ rl.rhs ++ z) := .step δ z it.r rl _ hr (.refl _)
    have e2 : δ ++ rl.rhs ++ z = γ ++ rl.rhs.drop it.d ++ z := by
      rw [hγ]; conv => lhs; rw [← List.take_append_drop it.d rl.rhs]
      simp [List.append_assoc]
    have e3 : Derives G (γ ++ rl.rhs.drop it.d ++ z) (γ ++ y ++ z) := hdy.ctx _ _
    have := hder.trans (e1.trans (e2 ▸ e3))
    simpa [List.append_assoc] using this

end Y
