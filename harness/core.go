package main

import (
	"bufio"
	"fmt"
	"os"
	"regexp"
	"sort"
	"strings"

	parser "github.com/acekingke/yaccgo/Parser"
)

var warnAnyRe = regexp.MustCompile(`(?im)^.*(warning|conflic).*$`)
// the numbers and the two action kinds are what the check reads; spelling and spacing of the words around them may vary
var warnRe = regexp.MustCompile(`(?i)warning:?\s+has\s+the\s+conflict?\s+(\d+),\s*sym\s+(\d+),\s*conflict\s+Type\s+(\w+),\s*(\w+)`)

var refuseRe = map[string]*regexp.Regexp{
	"precsym":      regexp.MustCompile(`(?i)^prec\w*\s+symbol`),
	"undefined":    regexp.MustCompile(`(?i)(not\s+defined?\s+symbol|undefined\s+symbol|symbol\s+.*\s+is\s+not\s+defined)`),
	"norule":       regexp.MustCompile(`(?i)check\s+the\s+non-?terminal`),
	"unproductive": regexp.MustCompile(`(?i)infinite\s+loop`),
	"toomany":      regexp.MustCompile(`(?i)too\s+ma\w+\s+states`),
}

func classify(err error, pv interface{}) (string, string) {
	if err != nil {
		return "syntax", err.Error()
	}
	msg := fmt.Sprint(pv)
	// the reason class is read from the message; spelling and wording may vary a little (a class this check cannot read
	// is `panic`: the verdict refused/processed is what the properties are about, the class is only a tie)
	switch {
	case refuseRe["precsym"].MatchString(msg):
		return "precsym", msg
	case refuseRe["undefined"].MatchString(msg):
		return "undefined", msg
	case refuseRe["norule"].MatchString(msg):
		return "norule", msg
	case refuseRe["unproductive"].MatchString(msg):
		return "unproductive", msg
	case refuseRe["toomany"].MatchString(msg):
		return "toomany", msg
	}
	return "panic", msg
}

// build runs the real front end + generator on src.
func build(src string) (w *parser.Walker, out string, cls string, msg string) {
	var err error
	var pv interface{}
	out, pv = capture(func() {
		w, err = parser.ParseAndBuild(src)
	})
	if err != nil || pv != nil {
		cls, msg = classify(err, pv)
		return nil, out, cls, msg
	}
	return w, out, "", ""
}

func dumpCore(w *bufio.Writer, c Case) {
	fmt.Fprintf(w, "CASE %s\n", c.ID)
	defer fmt.Fprintf(w, "ENDCASE\n")
	wk, out, cls, msg := build(c.Src)
	if wk == nil {
		fmt.Fprintf(w, "REFUSE %s %s\n", cls, oneLine(msg))
		return
	}
	v := wk.VistorNode.(*parser.RootVistor)
	g := v.G
	nT := len(g.VtSet)
	fmt.Fprintf(w, "GRAMMAR %d %d\n", len(g.Symbols), nT)
	for _, s := range g.Symbols {
		nt, nl := 0, 0
		if s.IsNonTerminator {
			nt = 1
		}
		if s.IsEpsilonClosure {
			nl = 1
		}
		fmt.Fprintf(w, "SYM %d %d %d %d %d %d %s %s\n", s.ID, nt, s.Value, s.Prec, int(s.PrecType), nl, q(s.Name), q(s.Tag))
	}
	for i, ru := range g.ProductoinRules {
		var rhs []int
		for _, s := range ru.RighPart {
			rhs = append(rhs, int(s.ID))
		}
		ps := -1
		if ru.PrecSymbol != nil {
			ps = int(ru.PrecSymbol.ID)
		}
		fmt.Fprintf(w, "RULE %d %d %d %s\n", i, ru.LeftPart.ID, ps, ints(rhs))
	}
	fmt.Fprintf(w, "END\n")
	for qi, st := range g.LR0.LR0Closure {
		var it []string
		for _, x := range st.Items {
			it = append(it, fmt.Sprintf("%d.%d", x.RuleIndex, x.Dot))
		}
		fmt.Fprintf(w, "STATE %d %d %s\n", qi, st.Index, strings.Join(it, " "))
		for _, gt := range st.GoTo {
			fmt.Fprintf(w, "GOTO %d %d %d\n", qi, gt.Sym.ID, gt.ItemCl)
		}
	}
	las := v.VerifLookaheads()
	sort.SliceStable(las, func(i, j int) bool {
		if las[i].State != las[j].State {
			return las[i].State < las[j].State
		}
		return las[i].Rule < las[j].Rule
	})
	for _, la := range las {
		x := append([]int{}, la.LA...)
		sort.Ints(x)
		fmt.Fprintf(w, "LA %d %d %s\n", la.State, la.Rule, ints(x))
	}
	for _, m := range warnRe.FindAllStringSubmatch(out, -1) {
		fmt.Fprintf(w, "WARN %s %s %s %s\n", m[1], m[2], m[3], m[4])
	}
	// the stages of the DeRemer-Pennello computation (sets sorted: the code builds them through maps)
	srt := func(x []int) []int { y := append([]int{}, x...); sort.Ints(y); return y }
	for _, tr := range v.VerifTrans() {
		k := 0
		if tr.IsReduce {
			k = 1
		}
		fmt.Fprintf(w, "DPTR %d %d %d %d\n", tr.Index, tr.Q, k, tr.SymOrRule)
	}
	keys := []int{}
	for k := range v.DRSet {
		keys = append(keys, k)
	}
	sort.Ints(keys)
	for _, k := range keys {
		fmt.Fprintf(w, "DPKEY %d | %s | %s | %s\n", k, ints(srt(v.DRSet[k])), ints(srt(v.ReadSet[k])), ints(srt(v.FollowSet[k])))
	}
	rd, inc, lb := v.VerifRelations()
	for nm, rel := range map[string][][2]int{"reads": rd, "includes": inc, "lookback": lb} {
		sort.Slice(rel, func(i, j int) bool {
			if rel[i][0] != rel[j][0] {
				return rel[i][0] < rel[j][0]
			}
			return rel[i][1] < rel[j][1]
		})
		var sb strings.Builder
		last := [2]int{-1, -1}
		for _, pr := range rel {
			if pr != last {
				fmt.Fprintf(&sb, " %d:%d", pr[0], pr[1])
			}
			last = pr
		}
		fmt.Fprintf(w, "DPREL %s%s\n", nm, sb.String())
	}
	// any line that looks like a conflict warning, whatever its exact wording
	fmt.Fprintf(w, "WARNANY %d\n", len(warnAnyRe.FindAllString(out, -1)))
	for qi, row := range v.GTable {
		fmt.Fprintf(w, "ROW %d %s\n", qi, ints(row))
	}
	if v.NeedPacked {
		fmt.Fprintf(w, "PACKED 1\n")
		fmt.Fprintf(w, "ACT %s\n", ints(v.ActionTable))
		fmt.Fprintf(w, "OFF %s\n", ints(v.OffsetTable))
		fmt.Fprintf(w, "CHK %s\n", ints(v.CheckTable))
		fmt.Fprintf(w, "ADEF %s\n", ints(v.ActionDef))
		fmt.Fprintf(w, "GDEF %s\n", ints(v.GoToDef))
	} else {
		fmt.Fprintf(w, "PACKED 0\n")
	}
	fmt.Fprintf(w, "CODES %d %d\n", v.GenErrorCode(), v.GenAcceptCode())
}

func cmdCore() {
	w := bufio.NewWriterSize(realStdout, 1<<20)
	defer w.Flush()
	readCases(os.Stdin, func(c Case) {
		dumpCore(w, c)
	})
}
