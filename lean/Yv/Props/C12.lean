import Yv.Model.Visitor
/-! # C12 — unusable grammars are rejected, usable ones are not

The front end marks the symbols that "can terminate" (`Visitor.productive`) by iterating a step
function `b.syms.length + 1` times over the rules, and refuses the grammar (`unproductive`) when a
nonterminal is not marked.  Here:

* `Productive b x` is the specification: the least set containing the terminals and closed under
  the rules;
* `productiveChecked b` runs the same iteration and additionally tests that one more step adds
  nothing;  `C12_productive_exact` says its answer is exactly `Productive b`;
* `C12_productive_stable` : when every left-hand side is a symbol of the table (true of every
  grammar `buildGrammar` returns, `buildGrammar_lhs_in_syms`) the unchecked iteration count always
  suffices, so `productive b` itself is exact (`C12_productive_exact_built`);
* `C12_verdict` / `C12_verdict_spec` characterise the verdict of `front`;
* `C12_norule` characterises the `norule` refusal of `buildGrammar`. -/
namespace Visitor

/-! ## the iteration, named -/

/-- what `productive` does for one rule -/
def prodStepF (s : List Nat) (r : GRule) : List Nat :=
  if r.rhs.all s.contains && !s.contains r.lhs then s ++ [r.lhs] else s

/-- one sweep over the rules (the local `step` of `productive`) -/
def prodStep (b : Built) (s : List Nat) : List Nat := b.rules.foldl prodStepF s

def prodInit (b : Built) : List Nat := (b.syms.filter (!·.isNT)).map (·.id)

def iter {α : Type} (f : α → α) : Nat → α → α
  | 0, s => s
  | n+1, s => iter f n (f s)

theorem foldl_range'_iter {α : Type} (f : α → α) (n k : Nat) (s : α) :
    (List.range' k n).foldl (fun s _ => f s) s = iter f n s := by
  induction n generalizing k s with
  | zero => rfl
  | succ n ih => simp only [List.range'_succ, List.foldl_cons, iter]; exact ih _ _

theorem productive_eq_iter (b : Built) :
    productive b = iter (prodStep b) (b.syms.length + 1) (prodInit b) := by
  have := foldl_range'_iter (prodStep b) (b.syms.length + 1) 0 (prodInit b)
  rw [← this, ← List.range_eq_range']
  rfl

/-- the same iteration as `productive`, with a final stability test: one more sweep adds nothing -/
def productiveChecked (b : Built) : Option (List Nat) :=
  let s := productive b
  if (prodStep b s).all s.contains then some s else none

/-! ## specification -/

inductive Productive (b : Built) : Nat → Prop
  | term (x : Nat) : (∃ sy ∈ b.syms, sy.id = x ∧ sy.isNT = false) → Productive b x
  | rule (r : GRule) : r ∈ b.rules → (∀ y ∈ r.rhs, Productive b y) → Productive b r.lhs

/-! ## one sweep -/

theorem prodStepF_mono (s : List Nat) (r : GRule) (x : Nat) (h : x ∈ s) : x ∈ prodStepF s r := by
  unfold prodStepF; split
  · exact List.mem_append_left _ h
  · exact h

theorem foldF_mono (rs : List GRule) (s : List Nat) (x : Nat) (h : x ∈ s) :
    x ∈ rs.foldl prodStepF s := by
  induction rs generalizing s with
  | nil => exact h
  | cons r rs ih => exact ih _ (prodStepF_mono s r x h)

theorem prodStepF_fires (s : List Nat) (r : GRule) (h : ∀ y ∈ r.rhs, y ∈ s) :
    r.lhs ∈ prodStepF s r := by
  unfold prodStepF
  by_cases hc : s.contains r.lhs = true
  · simp only [hc, Bool.not_true, Bool.and_false]
    simpa using hc
  · have ha : r.rhs.all s.contains = true := by
      rw [List.all_eq_true]; intro y hy; simpa using h y hy
    simp only [ha, hc, Bool.not_false, Bool.and_self, if_true]
    simp

theorem foldF_fires (rs : List GRule) (s : List Nat) (r : GRule) (hr : r ∈ rs)
    (h : ∀ y ∈ r.rhs, y ∈ s) : r.lhs ∈ rs.foldl prodStepF s := by
  induction rs generalizing s with
  | nil => cases hr
  | cons r' rs ih =>
    rw [List.foldl_cons]
    rcases List.mem_cons.1 hr with rfl | hr
    · exact foldF_mono _ _ _ (prodStepF_fires s r h)
    · exact ih _ hr (fun y hy => prodStepF_mono s r' y (h y hy))

theorem prodStepF_sound (b : Built) (s : List Nat) (r : GRule) (hr : r ∈ b.rules)
    (hs : ∀ x ∈ s, Productive b x) : ∀ x ∈ prodStepF s r, Productive b x := by
  unfold prodStepF; split
  · rename_i hc
    intro x hx
    rcases List.mem_append.1 hx with hx | hx
    · exact hs x hx
    · have : x = r.lhs := by simpa using hx
      subst this
      refine Productive.rule r hr (fun y hy => hs y ?_)
      have ha : r.rhs.all s.contains = true := by
        cases h1 : r.rhs.all s.contains <;> simp [h1] at hc ⊢
      have := List.all_eq_true.1 ha y hy
      simpa using this
  · exact hs

theorem foldF_sound (b : Built) (rs : List GRule) (hrs : ∀ r ∈ rs, r ∈ b.rules) (s : List Nat)
    (hs : ∀ x ∈ s, Productive b x) : ∀ x ∈ rs.foldl prodStepF s, Productive b x := by
  induction rs generalizing s with
  | nil => exact hs
  | cons r rs ih =>
    rw [List.foldl_cons]
    exact ih (fun r' h' => hrs r' (List.mem_cons_of_mem _ h')) _
      (prodStepF_sound b s r (hrs r List.mem_cons_self) hs)

theorem prodStep_mono (b : Built) (s : List Nat) (x : Nat) (h : x ∈ s) : x ∈ prodStep b s :=
  foldF_mono _ _ _ h

theorem prodStep_sound (b : Built) (s : List Nat) (hs : ∀ x ∈ s, Productive b x) :
    ∀ x ∈ prodStep b s, Productive b x :=
  foldF_sound b b.rules (fun _ h => h) s hs

theorem prodInit_sound (b : Built) : ∀ x ∈ prodInit b, Productive b x := by
  intro x hx
  unfold prodInit at hx
  rcases List.mem_map.1 hx with ⟨sy, hsy, rfl⟩
  rcases List.mem_filter.1 hsy with ⟨hm, hnt⟩
  exact Productive.term _ ⟨sy, hm, rfl, by simpa using hnt⟩

theorem prodInit_complete (b : Built) (sy : Sym) (hm : sy ∈ b.syms) (hnt : sy.isNT = false) :
    sy.id ∈ prodInit b := by
  unfold prodInit
  exact List.mem_map.2 ⟨sy, List.mem_filter.2 ⟨hm, by simp [hnt]⟩, rfl⟩

theorem iter_sound (b : Built) (n : Nat) (s : List Nat) (hs : ∀ x ∈ s, Productive b x) :
    ∀ x ∈ iter (prodStep b) n s, Productive b x := by
  induction n generalizing s with
  | zero => exact hs
  | succ n ih => exact ih _ (prodStep_sound b s hs)

theorem iter_mono (b : Built) (n : Nat) (s : List Nat) (x : Nat) (h : x ∈ s) :
    x ∈ iter (prodStep b) n s := by
  induction n generalizing s with
  | zero => exact h
  | succ n ih => exact ih _ (prodStep_mono b s x h)

/-- soundness: everything `productive` marks is productive -/
theorem productive_sound (b : Built) : ∀ x ∈ productive b, Productive b x := by
  rw [productive_eq_iter]; exact iter_sound b _ _ (prodInit_sound b)

theorem prodInit_sub_productive (b : Built) (x : Nat) (h : x ∈ prodInit b) : x ∈ productive b := by
  rw [productive_eq_iter]; exact iter_mono b _ _ x h

/-- a set containing the terminals and closed under one sweep contains every productive symbol -/
theorem closed_complete (b : Built) (s : List Nat) (hi : ∀ x ∈ prodInit b, x ∈ s)
    (hc : ∀ x ∈ prodStep b s, x ∈ s) : ∀ x, Productive b x → x ∈ s := by
  intro x hx
  induction hx with
  | term x h =>
    obtain ⟨sy, hm, rfl, hnt⟩ := h
    exact hi _ (prodInit_complete b sy hm hnt)
  | rule r hr _ ih => exact hc _ (foldF_fires b.rules s r hr ih)

theorem productiveChecked_some (b : Built) (s : List Nat) (h : productiveChecked b = some s) :
    s = productive b ∧ ∀ x ∈ prodStep b s, x ∈ s := by
  unfold productiveChecked at h
  simp only at h
  split at h
  · rename_i hc
    cases h
    refine ⟨rfl, fun x hx => ?_⟩
    have := List.all_eq_true.1 hc x hx
    simpa using this
  · cases h

theorem C12_checked_eq (b : Built) (s : List Nat) (h : productiveChecked b = some s) :
    s = productive b := (productiveChecked_some b s h).1

/-- soundness for the checked result -/
theorem C12_productive_sound (b : Built) (s : List Nat) (h : productiveChecked b = some s) :
    ∀ x ∈ s, Productive b x := by
  rw [C12_checked_eq b s h]; exact productive_sound b

/-- completeness for the checked result -/
theorem C12_productive_complete (b : Built) (s : List Nat) (h : productiveChecked b = some s) :
    ∀ x, Productive b x → x ∈ s := by
  obtain ⟨he, hc⟩ := productiveChecked_some b s h
  exact closed_complete b s (fun x hx => he ▸ prodInit_sub_productive b x hx) hc

/-- **C12 (exactness).** When the stability test passes, the computed set is exactly the set of
    productive symbols. -/
theorem C12_productive_exact (b : Built) (s : List Nat) (h : productiveChecked b = some s) (x : Nat) :
    x ∈ s ↔ Productive b x :=
  ⟨C12_productive_sound b s h x, C12_productive_complete b s h x⟩

/-! ## the iteration count suffices (pigeonhole) -/

/-- every left-hand side is the id of a symbol of the table -/
def LhsInSyms (b : Built) : Prop := ∀ r ∈ b.rules, ∃ sy ∈ b.syms, sy.id = r.lhs

/-- shape of every intermediate set: the initial terminals followed by distinct new left-hand sides -/
def Shape (b : Built) (s : List Nat) : Prop :=
  ∃ added : List Nat, s = prodInit b ++ added ∧ added.Nodup ∧
    ∀ x ∈ added, x ∉ prodInit b ∧ ∃ r ∈ b.rules, r.lhs = x

theorem prodStepF_cases (s : List Nat) (r : GRule) :
    prodStepF s r = s ∨ (prodStepF s r = s ++ [r.lhs] ∧ r.lhs ∉ s) := by
  unfold prodStepF; split
  · rename_i hc
    right; refine ⟨rfl, ?_⟩
    intro hm
    simp at hc
    exact hc.2 hm
  · left; rfl

theorem prodStepF_shape (b : Built) (s : List Nat) (r : GRule) (hr : r ∈ b.rules)
    (h : Shape b s) : Shape b (prodStepF s r) := by
  rcases prodStepF_cases s r with he | ⟨he, hn⟩
  · rw [he]; exact h
  · rw [he]
    obtain ⟨added, rfl, hnd, hadd⟩ := h
    refine ⟨added ++ [r.lhs], by simp, ?_, ?_⟩
    · rw [List.nodup_append]
      refine ⟨hnd, by simp, ?_⟩
      intro a ha c hc
      have : c = r.lhs := by simpa using hc
      subst this
      intro hac; subst hac
      exact hn (List.mem_append_right _ ha)
    · intro x hx
      rcases List.mem_append.1 hx with hx | hx
      · exact hadd x hx
      · have : x = r.lhs := by simpa using hx
        subst this
        exact ⟨fun hi => hn (List.mem_append_left _ hi), r, hr, rfl⟩

theorem foldF_shape (b : Built) (rs : List GRule) (hrs : ∀ r ∈ rs, r ∈ b.rules) (s : List Nat)
    (h : Shape b s) : Shape b (rs.foldl prodStepF s) := by
  induction rs generalizing s with
  | nil => exact h
  | cons r rs ih =>
    rw [List.foldl_cons]
    exact ih (fun r' h' => hrs r' (List.mem_cons_of_mem _ h')) _
      (prodStepF_shape b s r (hrs r List.mem_cons_self) h)

theorem iter_shape (b : Built) (n : Nat) (s : List Nat) (h : Shape b s) :
    Shape b (iter (prodStep b) n s) := by
  induction n generalizing s with
  | zero => exact h
  | succ n ih => exact ih _ (foldF_shape b b.rules (fun _ h => h) s h)

theorem prodStepF_len (s : List Nat) (r : GRule) : s.length ≤ (prodStepF s r).length := by
  rcases prodStepF_cases s r with he | ⟨he, _⟩ <;> rw [he] <;> simp

theorem foldF_len (rs : List GRule) (s : List Nat) : s.length ≤ (rs.foldl prodStepF s).length := by
  induction rs generalizing s with
  | nil => exact Nat.le_refl _
  | cons r rs ih => exact Nat.le_trans (prodStepF_len s r) (ih _)

/-- a sweep either changes nothing or makes the set longer -/
theorem foldF_dich (rs : List GRule) (s : List Nat) :
    rs.foldl prodStepF s = s ∨ s.length < (rs.foldl prodStepF s).length := by
  induction rs generalizing s with
  | nil => left; rfl
  | cons r rs ih =>
    rw [List.foldl_cons]
    rcases prodStepF_cases s r with he | ⟨he, _⟩
    · rw [he]; exact ih s
    · right
      have h1 := foldF_len rs (prodStepF s r)
      have h2 : (prodStepF s r).length = s.length + 1 := by rw [he]; simp
      omega

theorem iter_fix {α : Type} (f : α → α) (n : Nat) (s : α) (h : f s = s) : iter f n s = s := by
  induction n with
  | zero => rfl
  | succ n ih => simp only [iter, h, ih]

/-- after `n` sweeps either a fixed point has been reached or the set has grown by at least `n` -/
theorem iter_dich (b : Built) (n : Nat) (s : List Nat) :
    prodStep b (iter (prodStep b) n s) = iter (prodStep b) n s ∨
    s.length + n ≤ (iter (prodStep b) n s).length := by
  induction n generalizing s with
  | zero => right; exact Nat.le_refl _
  | succ n ih =>
    simp only [iter]
    rcases ih (prodStep b s) with h | h
    · left; exact h
    · rcases foldF_dich b.rules s with he | hl
      · left
        have he' : prodStep b s = s := he
        rw [he', iter_fix _ _ _ he', he']
      · right
        have hl' : s.length < (prodStep b s).length := hl
        omega

theorem prodInit_shape (b : Built) : Shape b (prodInit b) :=
  ⟨[], by simp, List.nodup_nil, fun _ h => by cases h⟩

/-- pigeonhole: the new elements are distinct ids of symbols marked nonterminal -/
theorem shape_len (b : Built) (hl : LhsInSyms b) (s : List Nat) (h : Shape b s) :
    s.length ≤ (prodInit b).length + b.syms.length := by
  obtain ⟨added, rfl, hnd, hadd⟩ := h
  have hsub : added ⊆ b.syms.map (·.id) := by
    intro x hx
    obtain ⟨_, r, hr, rfl⟩ := hadd x hx
    obtain ⟨sy, hm, hid⟩ := hl r hr
    exact List.mem_map.2 ⟨sy, hm, hid⟩
  have := hnd.length_le_of_subset hsub
  simp only [List.length_map] at this
  simp only [List.length_append]
  omega

/-- the number of sweeps `productive` makes reaches the fixed point -/
theorem productive_fix (b : Built) (hl : LhsInSyms b) : prodStep b (productive b) = productive b := by
  rw [productive_eq_iter]
  rcases iter_dich b (b.syms.length + 1) (prodInit b) with h | h
  · exact h
  · have := shape_len b hl _ (iter_shape b (b.syms.length + 1) _ (prodInit_shape b))
    omega

/-- **C12 (the unchecked iteration count suffices).** -/
theorem C12_productive_stable (b : Built) (hl : LhsInSyms b) :
    productiveChecked b = some (productive b) := by
  unfold productiveChecked
  simp only [productive_fix b hl]
  rw [if_pos]
  rw [List.all_eq_true]; intro x hx; simpa using hx

/-- hence `productive` itself is exact on such grammars -/
theorem C12_productive_exact_lhs (b : Built) (hl : LhsInSyms b) (x : Nat) :
    x ∈ productive b ↔ Productive b x :=
  C12_productive_exact b _ (C12_productive_stable b hl) x

/-! ## the verdict of `front` -/

/-- **C12 (verdict).** Once the declarations, the rules and the grammar have been built, `front`
    refuses with `unproductive` exactly when some symbol marked nonterminal is not in
    `productive b`, and otherwise returns the grammar. -/
theorem C12_verdict (r : YParse.Root) (ds ds' : Decls) (vs : List VRule) (b : Built)
    (h1 : processDecl r.decl = .ok ds) (h2 : processRules ds r.rules = .ok (ds', vs))
    (h3 : buildGrammar ds' vs = .ok b) :
    ((∃ sy ∈ b.syms, sy.isNT = true ∧ sy.id ∉ productive b) → front r = .error .unproductive) ∧
    ((∀ sy ∈ b.syms, sy.isNT = true → sy.id ∈ productive b) → front r = .ok b) ∧
    (front r = .error .unproductive ↔ ∃ sy ∈ b.syms, sy.isNT = true ∧ sy.id ∉ productive b) := by
  have hf : front r =
      if b.syms.any (fun sy => sy.isNT && !(productive b).contains sy.id) then .error .unproductive
      else .ok b := by
    unfold front; rw [h1]; dsimp only; rw [h2]; dsimp only; rw [h3]
  have hany : b.syms.any (fun sy => sy.isNT && !(productive b).contains sy.id) = true ↔
      ∃ sy ∈ b.syms, sy.isNT = true ∧ sy.id ∉ productive b := by
    simp [List.any_eq_true]
  refine ⟨fun h => ?_, fun h => ?_, ?_⟩
  · rw [hf, if_pos (hany.2 h)]
  · rw [hf, if_neg]
    intro hc
    obtain ⟨sy, hm, hnt, hn⟩ := hany.1 hc
    exact hn (h sy hm hnt)
  · rw [hf]
    constructor
    · intro h
      by_cases hc : b.syms.any (fun sy => sy.isNT && !(productive b).contains sy.id) = true
      · exact hany.1 hc
      · rw [if_neg hc] at h; cases h
    · intro h; rw [if_pos (hany.2 h)]

/-! ## the grammar construction, named -/

/-- the body of the rule loop of `buildGrammar` -/
def ruleStep (syms : List Sym) (acc : Except Refuse (List GRule)) (v : VRule) :
    Except Refuse (List GRule) :=
  match acc with
  | .error e => .error e
  | .ok rs =>
    match symId syms v.lhs with
    | none => .error (.other "lhs")
    | some l =>
      let rhs := v.rhs.filterMap (symId syms)
      if rhs.length != v.rhs.length then .error (.other "rhs") else
      let ps : Int := match v.prec with
        | some p => (match symId syms p.name with | some i => (i : Int) | none => -1)
        | none => -1
      .ok (rs ++ [⟨l, rhs, ps⟩])

def buildRules (syms : List Sym) (s : Sym) (vs : List VRule) : Except Refuse (List GRule) :=
  vs.foldl (ruleStep syms) (.ok [⟨0, [s.id], -1⟩])

/-- `SetNT` on every left-hand side -/
def markNT (lhss : List Nat) (syms : List Sym) : List Sym :=
  syms.map fun sy => if lhss.contains sy.id then { sy with isNT := true } else sy

theorem buildGrammar_eq (ds : Decls) (vs : List VRule) :
    buildGrammar ds vs =
      match ((buildSyms ds).drop 2).find? (·.name == ds.start) with
      | none => .error (.other "no start symbol")
      | some s =>
        match buildRules (buildSyms ds) s vs with
        | .error e => .error e
        | .ok rs =>
          if (markNT (rs.map (·.lhs)) (buildSyms ds)).any
              (fun sy => sy.isNT && !(rs.map (·.lhs)).contains sy.id) then .error .norule
          else .ok { syms := markNT (rs.map (·.lhs)) (buildSyms ds), rules := rs,
                     nT := ((markNT (rs.map (·.lhs)) (buildSyms ds)).filter (!·.isNT)).length } := rfl

theorem foldl_inv {α β : Type} (P : β → Prop) (f : β → α → β) (l : List α) (b0 : β) (h0 : P b0)
    (hs : ∀ b a, a ∈ l → P b → P (f b a)) : P (l.foldl f b0) := by
  induction l generalizing b0 with
  | nil => exact h0
  | cons a l ih =>
    exact ih _ (hs _ _ List.mem_cons_self h0) (fun b a' h => hs b a' (List.mem_cons_of_mem _ h))

theorem ruleStep_not_norule (syms : List Sym) (acc : Except Refuse (List GRule)) (v : VRule)
    (h : ∀ e, acc = .error e → ∃ w, e = .other w) :
    ∀ e, ruleStep syms acc v = .error e → ∃ w, e = .other w := by
  intro e he
  unfold ruleStep at he
  split at he
  · exact h _ (by cases he; rfl)
  · split at he
    · cases he; exact ⟨_, rfl⟩
    · dsimp only at he
      split at he
      · cases he; exact ⟨_, rfl⟩
      · cases he

/-- the rule loop only fails with a lookup failure -/
theorem buildRules_error (syms : List Sym) (s : Sym) (vs : List VRule) (e : Refuse)
    (h : buildRules syms s vs = .error e) : ∃ w, e = .other w := by
  unfold buildRules at h
  refine foldl_inv (fun (acc : Except Refuse (List GRule)) =>
      ∀ e : Refuse, acc = Except.error e → ∃ w, e = Refuse.other w) (ruleStep syms) vs _
    ?_ (fun acc v _ hp => ruleStep_not_norule syms acc v hp) e h
  intro e he; cases he

theorem markNT_any (lhss : List Nat) (syms : List Sym) :
    (markNT lhss syms).any (fun sy => sy.isNT && !lhss.contains sy.id) = true ↔
      ∃ sy ∈ syms, sy.isNT = true ∧ sy.id ∉ lhss := by
  unfold markNT
  rw [List.any_map, List.any_eq_true]
  constructor
  · rintro ⟨sy, hm, h⟩
    refine ⟨sy, hm, ?_⟩
    by_cases hc : sy.id ∈ lhss
    · simp [hc] at h
    · simpa [hc] using h
  · rintro ⟨sy, hm, hnt, hn⟩
    refine ⟨sy, hm, ?_⟩
    simp [hn, hnt]

/-- **C12 (`norule`).** `buildGrammar` refuses with `norule` exactly when the start symbol is found,
    every symbol lookup of the rule loop succeeds (the loop returns `rs`), and some symbol of the
    table that is marked nonterminal is the left-hand side of no rule of `rs`. -/
theorem C12_norule (ds : Decls) (vs : List VRule) :
    buildGrammar ds vs = .error .norule ↔
      ∃ s rs, ((buildSyms ds).drop 2).find? (·.name == ds.start) = some s ∧
        buildRules (buildSyms ds) s vs = .ok rs ∧
        ∃ sy ∈ buildSyms ds, sy.isNT = true ∧ ∀ r ∈ rs, r.lhs ≠ sy.id := by
  have hmem : ∀ (rs : List GRule) (x : Nat), x ∉ rs.map (·.lhs) ↔ ∀ r ∈ rs, r.lhs ≠ x := by
    intro rs x; simp
  rw [buildGrammar_eq]
  constructor
  · intro h
    split at h
    · cases h
    · rename_i s hs
      split at h
      · rename_i e he
        obtain ⟨w, hw⟩ := buildRules_error _ _ _ _ he
        cases h; cases hw
      · rename_i rs hrs
        split at h
        · rename_i hc
          obtain ⟨sy, hm, hnt, hn⟩ := (markNT_any _ _).1 hc
          exact ⟨s, rs, hs, hrs, sy, hm, hnt, (hmem rs sy.id).1 hn⟩
        · cases h
  · rintro ⟨s, rs, hs, hrs, sy, hm, hnt, hn⟩
    rw [hs]; dsimp only; rw [hrs]; dsimp only
    rw [if_pos ((markNT_any _ _).2 ⟨sy, hm, hnt, (hmem rs sy.id).2 hn⟩)]

/-- and when it answers, the answer has no such symbol, its rules are those of the loop and its
    symbols are those of the table with the left-hand sides marked -/
theorem buildGrammar_ok (ds : Decls) (vs : List VRule) (b : Built) (h : buildGrammar ds vs = .ok b) :
    ∃ s rs, ((buildSyms ds).drop 2).find? (·.name == ds.start) = some s ∧
      buildRules (buildSyms ds) s vs = .ok rs ∧
      b.rules = rs ∧ b.syms = markNT (rs.map (·.lhs)) (buildSyms ds) ∧
      ∀ sy ∈ buildSyms ds, sy.isNT = true → ∃ r ∈ rs, r.lhs = sy.id := by
  rw [buildGrammar_eq] at h
  split at h
  · cases h
  · rename_i s hs
    split at h
    · cases h
    · rename_i rs hrs
      split at h
      · cases h
      · rename_i hc
        cases h
        refine ⟨s, rs, hs, hrs, rfl, rfl, ?_⟩
        intro sy hm hnt
        apply Classical.byContradiction
        intro hno
        apply hc
        refine (markNT_any _ _).2 ⟨sy, hm, hnt, ?_⟩
        intro hin
        obtain ⟨r, hr, he⟩ := List.mem_map.1 hin
        exact hno ⟨r, hr, he⟩

/-! ## when the rule loop succeeds: exactly when every symbol lookup succeeds -/

/-- every name of the rule is found in the symbol table -/
def Looked (syms : List Sym) (v : VRule) : Prop :=
  (∃ l, symId syms v.lhs = some l) ∧ ∀ n ∈ v.rhs, ∃ k, symId syms n = some k

theorem filterMap_length_iff {α β : Type} (f : α → Option β) (l : List α) :
    (l.filterMap f).length = l.length ↔ ∀ x ∈ l, ∃ y, f x = some y := by
  induction l with
  | nil => simp
  | cons a l ih =>
    cases hfa : f a with
    | none =>
      rw [List.filterMap_cons_none hfa]
      have := List.length_filterMap_le f l
      constructor
      · intro h; simp only [List.length_cons] at h; omega
      · intro h
        obtain ⟨y, hy⟩ := h a List.mem_cons_self
        rw [hfa] at hy; cases hy
    | some b =>
      rw [List.filterMap_cons_some hfa]
      simp only [List.length_cons, Nat.add_right_cancel_iff, ih]
      constructor
      · intro h x hx
        rcases List.mem_cons.1 hx with hx | hx
        · rw [hx]; exact ⟨b, hfa⟩
        · exact h x hx
      · intro h x hx; exact h x (List.mem_cons_of_mem _ hx)

theorem ruleStep_ok (syms : List Sym) (rs : List GRule) (v : VRule) :
    (Looked syms v ∧ ∃ r, ruleStep syms (.ok rs) v = .ok (rs ++ [r])) ∨
    (¬ Looked syms v ∧ ∃ e, ruleStep syms (.ok rs) v = .error e) := by
  unfold ruleStep Looked
  dsimp only
  split
  · rename_i hl
    right
    exact ⟨fun h => (by obtain ⟨⟨l, h'⟩, _⟩ := h; rw [hl] at h'; cases h'), _, rfl⟩
  · rename_i l hl
    split
    · rename_i hne
      right
      refine ⟨fun h => ?_, _, rfl⟩
      have := (filterMap_length_iff (symId syms) v.rhs).2 h.2
      simp [this] at hne
    · rename_i hne
      left
      refine ⟨⟨⟨l, hl⟩, ?_⟩, _, rfl⟩
      apply (filterMap_length_iff (symId syms) v.rhs).1
      by_cases heq : (List.filterMap (symId syms) v.rhs).length = v.rhs.length
      · exact heq
      · exact absurd (bne_iff_ne.2 heq) hne

theorem ruleFold_error (syms : List Sym) (vs : List VRule) (e : Refuse) :
    vs.foldl (ruleStep syms) (.error e) = .error e := by
  induction vs with
  | nil => rfl
  | cons v vs ih => rw [List.foldl_cons]; exact ih

theorem ruleFold_ok_iff (syms : List Sym) (vs : List VRule) (rs0 : List GRule) :
    (∃ rs, vs.foldl (ruleStep syms) (.ok rs0) = .ok rs) ↔ ∀ v ∈ vs, Looked syms v := by
  induction vs generalizing rs0 with
  | nil => exact ⟨fun _ _ h => (by cases h), fun _ => ⟨rs0, rfl⟩⟩
  | cons v vs ih =>
    rw [List.foldl_cons]
    rcases ruleStep_ok syms rs0 v with ⟨hl, r, hr⟩ | ⟨hl, e, he⟩
    · rw [hr, ih]
      constructor
      · intro h x hx
        rcases List.mem_cons.1 hx with hx | hx
        · rw [hx]; exact hl
        · exact h x hx
      · intro h x hx; exact h x (List.mem_cons_of_mem _ hx)
    · rw [he, ruleFold_error]
      constructor
      · rintro ⟨rs, h⟩; cases h
      · intro h; exact absurd (h v List.mem_cons_self) hl

/-- the rule loop of `buildGrammar` succeeds exactly when every left-hand side and every right-hand
    side name of every rule is found in the symbol table -/
theorem buildRules_ok_iff (syms : List Sym) (s : Sym) (vs : List VRule) :
    (∃ rs, buildRules syms s vs = .ok rs) ↔ ∀ v ∈ vs, Looked syms v :=
  ruleFold_ok_iff syms vs _

/-! ## grammars built by `buildGrammar` satisfy the hypothesis of the pigeonhole argument -/

theorem symId_mem (syms : List Sym) (n : String) (l : Nat) (h : symId syms n = some l) :
    ∃ sy ∈ syms, sy.id = l := by
  unfold symId at h
  obtain ⟨sy, hf, rfl⟩ := Option.map_eq_some_iff.1 h
  exact ⟨sy, List.mem_reverse.1 (List.mem_of_find?_eq_some hf), rfl⟩

theorem ruleStep_lhs (syms : List Sym) (acc : Except Refuse (List GRule)) (v : VRule)
    (h : ∀ rs, acc = .ok rs → ∀ r ∈ rs, ∃ sy ∈ syms, sy.id = r.lhs) :
    ∀ rs, ruleStep syms acc v = .ok rs → ∀ r ∈ rs, ∃ sy ∈ syms, sy.id = r.lhs := by
  intro rs he
  unfold ruleStep at he
  split at he
  · cases he
  · rename_i rs0
    split at he
    · cases he
    · rename_i l hl
      dsimp only at he
      split at he
      · cases he
      · cases he
        intro r hr
        rcases List.mem_append.1 hr with hr | hr
        · exact h rs0 rfl r hr
        · rw [List.mem_singleton] at hr
          subst hr
          exact symId_mem syms _ _ hl

theorem buildSyms_zero (ds : Decls) : ∃ sy ∈ buildSyms ds, sy.id = 0 := by
  unfold buildSyms
  exact ⟨_, List.mem_append_left _ List.mem_cons_self, rfl⟩

theorem buildRules_lhs (ds : Decls) (s : Sym) (vs : List VRule) (rs : List GRule)
    (h : buildRules (buildSyms ds) s vs = .ok rs) : ∀ r ∈ rs, ∃ sy ∈ buildSyms ds, sy.id = r.lhs := by
  unfold buildRules at h
  refine foldl_inv (fun (acc : Except Refuse (List GRule)) =>
      ∀ rs : List GRule, acc = Except.ok rs → ∀ r ∈ rs, ∃ sy ∈ buildSyms ds, sy.id = r.lhs)
    (ruleStep (buildSyms ds)) vs _ ?_ (fun acc v _ hp => ruleStep_lhs _ acc v hp) rs h
  intro rs he r hr
  cases he
  rw [List.mem_singleton] at hr
  subst hr
  exact buildSyms_zero ds

theorem buildGrammar_lhs_in_syms (ds : Decls) (vs : List VRule) (b : Built)
    (h : buildGrammar ds vs = .ok b) : LhsInSyms b := by
  obtain ⟨s, rs, _, hrs, hr, hsy, _⟩ := buildGrammar_ok ds vs b h
  intro r hm
  rw [hr] at hm
  obtain ⟨sy, hsm, hid⟩ := buildRules_lhs ds s vs rs hrs r hm
  rw [hsy]
  unfold markNT
  refine ⟨_, List.mem_map.2 ⟨sy, hsm, rfl⟩, ?_⟩
  split <;> exact hid

/-- on every grammar `buildGrammar` returns, `productive` is exactly the set of productive symbols -/
theorem C12_productive_exact_built (ds : Decls) (vs : List VRule) (b : Built)
    (h : buildGrammar ds vs = .ok b) (x : Nat) : x ∈ productive b ↔ Productive b x :=
  C12_productive_exact_lhs b (buildGrammar_lhs_in_syms ds vs b h) x

/-- **C12 (verdict against the specification).** `front` refuses with `unproductive` exactly when
    some symbol marked nonterminal derives no terminal string, and otherwise returns the grammar. -/
theorem C12_verdict_spec (r : YParse.Root) (ds ds' : Decls) (vs : List VRule) (b : Built)
    (h1 : processDecl r.decl = .ok ds) (h2 : processRules ds r.rules = .ok (ds', vs))
    (h3 : buildGrammar ds' vs = .ok b) :
    (front r = .error .unproductive ↔ ∃ sy ∈ b.syms, sy.isNT = true ∧ ¬ Productive b sy.id) ∧
    (front r = .ok b ↔ ∀ sy ∈ b.syms, sy.isNT = true → Productive b sy.id) := by
  obtain ⟨_, hok, hiff⟩ := C12_verdict r ds ds' vs b h1 h2 h3
  have hex := C12_productive_exact_built ds' vs b h3
  constructor
  · rw [hiff]
    constructor
    · rintro ⟨sy, hm, hnt, hn⟩; exact ⟨sy, hm, hnt, fun hp => hn ((hex _).2 hp)⟩
    · rintro ⟨sy, hm, hnt, hn⟩; exact ⟨sy, hm, hnt, fun hp => hn ((hex _).1 hp)⟩
  · constructor
    · intro hf sy hm hnt
      apply Classical.byContradiction
      intro hn
      have : front r = .error .unproductive := hiff.2 ⟨sy, hm, hnt, fun hp => hn ((hex _).1 hp)⟩
      rw [hf] at this; cases this
    · intro h; exact hok (fun sy hm hnt => (hex _).2 (h sy hm hnt))

/-! ## non-vacuity -/

/-- `start → A`, `A → tok`, `B → B`: `B` is unproductive -/
def exBuilt : Built :=
  { syms := [⟨0, "start", 0, "", true, -1, 2⟩, ⟨1, "$", -1, "", false, -1, 2⟩, ⟨2, "tok", 3, "", false, -1, 2⟩,
             ⟨3, "A", 4, "", true, -1, 2⟩, ⟨4, "B", 5, "", true, -1, 2⟩],
    rules := [⟨0, [3], -1⟩, ⟨3, [2], -1⟩, ⟨4, [4], -1⟩], nT := 2 }

example : productiveChecked exBuilt = some [1, 2, 3, 0] := by decide
example : Productive exBuilt 0 := (C12_productive_exact exBuilt [1, 2, 3, 0] (by decide) 0).1 (by decide)
example : ¬ Productive exBuilt 4 := fun h => absurd ((C12_productive_exact exBuilt [1, 2, 3, 0] (by decide) 4).2 h) (by decide)

/-- the hypothesis `LhsInSyms` of `C12_productive_stable` cannot be dropped: with left-hand sides
    outside the symbol table the fixed number of sweeps can be too small, and the check says so -/
example : productiveChecked { syms := [], rules := [⟨3, [2], -1⟩, ⟨2, [1], -1⟩, ⟨1, [], -1⟩], nT := 0 } = none := by
  decide

end Visitor
