import Yv.Abs.Lalr
/-! Concrete artefacts (as data) and the Bool-valued certificates evaluated on them by `ymodel`:
    the LR(0) automaton (`certA`) and the dense table (`certT`).  They are what the harness dumps
    from the implementation (`LR0Closure`, `GTable`) — or what the model generator computes. -/
namespace Y

/-- the automaton as data: per state its item list and its goto list `(symbol, target)` -/
structure Auto where
  items : List (List Item)
  gotos : List (List (Sym × Nat))

namespace Auto
def n (A : Auto) : Nat := A.items.length
def its (A : Auto) (q : Nat) : List Item := A.items.getD q []
def gts (A : Auto) (q : Nat) : List (Sym × Nat) := A.gotos.getD q []
def goto (A : Auto) (q : Nat) (X : Sym) : Option Nat :=
  ((A.gts q).find? (fun e => e.1 == X)).map Prod.snd
end Auto

def Grammar.rhsOf (G : Grammar) (r : Nat) : List Sym :=
  match G.rules[r]? with
  | some rl => rl.rhs
  | none => []

def Grammar.lhsOf (G : Grammar) (r : Nat) : Sym :=
  match G.rules[r]? with
  | some rl => rl.lhs
  | none => 0

/-- well-formedness of the grammar as data: rule 0 is `start' → S`; left-hand sides are
    nonterminals; no right-hand side mentions `start'` (0) or the end marker (1) -/
def gramWF (G : Grammar) (nS : Nat) : Bool :=
  decide (1 ≤ G.nT) && decide (G.nT < nS) &&
  (match G.rules[0]? with
   | some rl => rl.lhs == 0 && rl.rhs.length == 1
   | none => false) &&
  G.rules.all (fun rl => (rl.lhs == 0 || G.nT < rl.lhs) && rl.lhs < nS &&
    rl.rhs.all (fun x => 2 ≤ x && x < nS)) &&
  (G.rules.drop 1).all (fun rl => G.nT < rl.lhs)

/-- LR(0) certificate (backward consistency + goto completeness + justification of closure items) -/
def certA (G : Grammar) (A : Auto) : Bool :=
  decide (0 < A.n) && decide (A.gotos.length = A.n) &&
  -- items are items of the grammar
  ((List.range A.n).all fun q => (A.its q).all fun it =>
      decide (it.r < G.rules.length) && decide (it.d ≤ (G.rhsOf it.r).length)) &&
  -- state 0 holds only dot-0 items and the start item; the start item is nowhere else
  ((A.its 0).all fun it => it.d == 0) && (A.its 0).contains ⟨0, 0⟩ &&
  ((List.range A.n).all fun q => q == 0 || !(A.its q).contains ⟨0, 0⟩) &&
  -- every edge q -X-> p: p is a state other than 0, and every item of p with the dot not at the
  -- left end comes from an item of q by advancing over X
  ((List.range A.n).all fun q => (A.gts q).all fun e =>
      decide (e.2 < A.n) && decide (e.2 ≠ 0) &&
      (A.its e.2).all fun it => it.d == 0 ||
        ((G.rhsOf it.r)[it.d - 1]? == some e.1 && (A.its q).contains ⟨it.r, it.d - 1⟩)) &&
  -- goto completeness: an item with X after the dot has an edge on X to a state holding the advanced item
  ((List.range A.n).all fun q => (A.its q).all fun it =>
      match (G.rhsOf it.r)[it.d]? with
      | none => true
      | some X =>
        match A.goto q X with
        | none => false
        | some p => (A.its p).contains ⟨it.r, it.d + 1⟩) &&
  -- every dot-0 item other than the start item is justified by an item of the same state
  ((List.range A.n).all fun q => (A.its q).all fun it =>
      it.d != 0 || it.r == 0 ||
        (A.its q).any fun jt => (G.rhsOf jt.r)[jt.d]? == some (G.lhsOf it.r))

/-- the dense table as data -/
abbrev Dense := List (List Int)

def cell (T : Dense) (q a : Nat) : Option Int := (T[q]?).bind (fun row => row[a]?)

def errCode (n : Nat) : Int := (n : Int) + 100
def accCode (n : Nat) : Int := (n : Int) + 200

/-- table certificate relative to the automaton: shape; column 0 all error; every cell is the
    error code, or accept (only on `$` in a state holding `start' → S ·`), or the target of the
    automaton's edge, or a reduction by a user rule that is complete in that state, on a terminal;
    the end marker is never shifted; and every nonterminal edge of the automaton is in the table -/
def certT (G : Grammar) (nS : Nat) (A : Auto) (T : Dense) : Bool :=
  decide (T.length = A.n) && T.all (fun row => decide (row.length = nS)) &&
  ((List.range A.n).all fun q => (List.range nS).all fun a =>
      match cell T q a with
      | none => false
      | some v =>
        if v = errCode A.n then true
        else if a = 0 then false
        else if v = accCode A.n then a == 1 && (A.its q).contains ⟨0, 1⟩
        else if 0 < v then a != 1 && A.goto q a == some v.toNat
        else
          decide (1 ≤ (-v).toNat) && decide ((-v).toNat < G.rules.length) && G.isT a &&
            (A.its q).contains ⟨(-v).toNat, (G.rhsOf (-v).toNat).length⟩) &&
  ((List.range A.n).all fun q => (A.gts q).all fun e =>
      G.isT e.1 || cell T q e.1 == some (e.2 : Int))

end Y
