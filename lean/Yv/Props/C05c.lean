import Yv.Gen.Action
import Yv.Model.SplitA
import Yv.Props.C05b
/-! The packed `Action` method of BOTH Go templates, as translated from the template text
    (`Yv/Gen/Action.lean`, regenerated on every run), is the lookup `SplitA.lookupA` of
    `C05_split_lookup` — for every table, every state and every symbol, with no side condition. -/
namespace C05c
open SplitA

theorem idx_nat (l : List Int) (n : Nat) : Gen.idx l (n : Int) = l.getD n 0 := by
  unfold Gen.idx
  have : ¬ ((n : Int) < 0) := by omega
  rw [if_neg this]; rfl

theorem idx_nonneg (l : List Int) (i : Int) (h : 0 ≤ i) : Gen.idx l i = l.getD i.toNat 0 := by
  unfold Gen.idx
  have : ¬ (i < 0) := by omega
  rw [if_neg this]

theorem getD_default_irrel (l : List Int) (n : Nat) (h : n < l.length) (d d' : Int) :
    l.getD n d = l.getD n d' := by
  simp [List.getD_eq_getElem?_getD, List.getElem?_eq_getElem h]

/-- the shape shared by both templates, as a plain function -/
def actionShape (act off chk adef gdef : List Int) (nterminals errorAction : Int) (q a : Int) : Int :=
  if (((Gen.idx off q) + a) < 0) then errorAction
  else if ((((Gen.idx off q) + a) ≥ (Gen.len chk)) ∨ ((Gen.idx chk ((Gen.idx off q) + a)) ≠ q)) then
    if (a > nterminals) then (Gen.idx gdef ((a - nterminals) - 1)) else (Gen.idx adef q)
  else (Gen.idx act ((Gen.idx off q) + a))

theorem global_is_shape : Gen.actionPackedGlobal = actionShape := rfl
theorem object_is_shape : Gen.actionPackedObject = actionShape := rfl

theorem shape_eq_lookupA (p : PackA.Packed) (s : PackX.Split) (nT : Nat) (err : Int) (q a : Nat) :
    actionShape p.act p.off p.check s.actdef s.gtdef (nT : Int) err (q : Int) (a : Int)
      = lookupA p s nT err q a := by
  unfold actionShape lookupA
  rw [idx_nat p.off q, idx_nat s.actdef q]
  have hd : (if ((a : Int) > (nT : Int)) then Gen.idx s.gtdef (((a : Int) - (nT : Int)) - 1) else s.actdef.getD q 0)
      = (if a > nT then s.gtdef.getD (a - nT - 1) 0 else s.actdef.getD q 0) := by
    by_cases ha : a > nT
    · have ha' : (a : Int) > (nT : Int) := by omega
      have hs : (a : Int) - (nT : Int) - 1 = ((a - nT - 1 : Nat) : Int) := by omega
      rw [if_pos ha, if_pos ha', hs, idx_nat]
    · have ha' : ¬ ((a : Int) > (nT : Int)) := by omega
      rw [if_neg ha, if_neg ha']
  rw [hd]
  by_cases h0 : p.off.getD q 0 + (a : Int) < 0
  · rw [if_pos h0]; simp only [h0, if_true]
  · have h0' : 0 ≤ p.off.getD q 0 + (a : Int) := by omega
    rw [if_neg h0]
    simp only [h0, if_false]
    rw [idx_nonneg _ _ h0', idx_nonneg _ _ h0']
    by_cases hlen : (p.off.getD q 0 + (a : Int)).toNat ≥ p.check.length
    · have hl : p.off.getD q 0 + (a : Int) ≥ Gen.len p.check := by unfold Gen.len; omega
      rw [if_pos (Or.inl hl)]
      simp only [hlen, decide_true, Bool.true_or, if_true]
    · have hl : ¬ (p.off.getD q 0 + (a : Int) ≥ Gen.len p.check) := by unfold Gen.len; omega
      have hlt : (p.off.getD q 0 + (a : Int)).toNat < p.check.length := by omega
      rw [getD_default_irrel p.check _ hlt 0 (-1)]
      by_cases hc : p.check.getD (p.off.getD q 0 + (a : Int)).toNat (-1) = (q : Int)
      · have : ¬ (p.off.getD q 0 + (a : Int) ≥ Gen.len p.check ∨
            p.check.getD (p.off.getD q 0 + (a : Int)).toNat (-1) ≠ (q : Int)) := by
          intro h; rcases h with h | h
          · exact hl h
          · exact h hc
        rw [if_neg this]
        have hb : (decide ((p.off.getD q 0 + (a : Int)).toNat ≥ p.check.length) ||
            (p.check.getD (p.off.getD q 0 + (a : Int)).toNat (-1) != (q : Int))) = false := by
          rw [decide_eq_false hlen, Bool.false_or]; exact bne_eq_false_iff_eq.2 hc
        rw [hb]; rfl
      · rw [if_pos (Or.inr hc)]
        have hb : (decide ((p.off.getD q 0 + (a : Int)).toNat ≥ p.check.length) ||
            (p.check.getD (p.off.getD q 0 + (a : Int)).toNat (-1) != (q : Int))) = true := by
          rw [decide_eq_false hlen, Bool.false_or]; exact bne_iff_ne.2 hc
        rw [hb]; rfl

/-- C05 (template side): the packed `Action` method of the package-global template IS `lookupA` -/
theorem C05_action_global (p : PackA.Packed) (s : PackX.Split) (nT : Nat) (err : Int) (q a : Nat) :
    Gen.actionPackedGlobal p.act p.off p.check s.actdef s.gtdef (nT : Int) err (q : Int) (a : Int)
      = lookupA p s nT err q a := by
  rw [global_is_shape]; exact shape_eq_lookupA p s nT err q a

/-- C05 (template side): the packed `Action` method of the object template IS `lookupA` -/
theorem C05_action_object (p : PackA.Packed) (s : PackX.Split) (nT : Nat) (err : Int) (q a : Nat) :
    Gen.actionPackedObject p.act p.off p.check s.actdef s.gtdef (nT : Int) err (q : Int) (a : Int)
      = lookupA p s nT err q a := by
  rw [object_is_shape]; exact shape_eq_lookupA p s nT err q a

/-- C05, end to end on the generated code's own text: for a rectangular dense table that meets the
    computed well-formedness predicate, the packed `Action` method (either Go template), run on the
    arrays `packA (trySplit T)`, returns exactly the dense table's cell — for every state and symbol. -/
theorem C05_action_is_dense (T : List (List Int)) (nT nS : Nat) (err : Int)
    (hrect : ∀ r ∈ T, r.length = nS) (hnT : nT < nS) (hwf : DenseWF T nT nS err = true)
    (q a : Nat) (hq : q < T.length) (ha : a < nS) :
    let p := PackA.packA (PackX.trySplit T nT).tab
    let s := PackX.trySplit T nT
    Gen.actionPackedGlobal p.act p.off p.check s.actdef s.gtdef (nT : Int) err (q : Int) (a : Int)
        = (T.getD q []).getD a 0 ∧
    Gen.actionPackedObject p.act p.off p.check s.actdef s.gtdef (nT : Int) err (q : Int) (a : Int)
        = (T.getD q []).getD a 0 := by
  intro p s
  rw [C05_action_global, C05_action_object]
  exact ⟨C05_split_lookup T nT nS err hrect hnT hwf q a hq ha, C05_split_lookup T nT nS err hrect hnT hwf q a hq ha⟩

end C05c
