import Yv.Proofs.EmitFacts
/-! # C11b / C01 / C05 / C06 — the emitted text determines the data ("read-back")

`Yv/Model/Emit.lean` models the code that PRINTS the token codes and the parse tables into the generated
Go / TypeScript file (compared byte for byte with the implementation on every run).  Here every printed
part is parsed back by an explicit, total reader of `Yv/Model/EmitRead.lean`, and the reader is proved to
return exactly the data the emitter was given, for ALL inputs:

* `emit_dec_readback`, `emit_dec_injective`, `emit_arr_readback` — `%d` and the array body;
* `C05_emit_packed_readback` — the five packed arrays, located by their names;
* `C01_emit_rows_readback_go/ts`, `C01_emit_dense_readback_go/ts` — the plain table, with the row numbers
  in the `/* i */` comments checked to be 0, 1, 2, …;
* `C11_emit_translate_readback_go/ts`, `C11_emit_translate_functional` — the `switch` of `translate`;
* `C11_emit_consts_readback_go/ts`, `C06_emitted_codes_go/ts` — the constant block. -/
namespace Y.Props
open Emit

/-! ## 1–2. numbers and array bodies -/

theorem emit_dec_readback (i : Int) : Emit.readInt (Emit.dec i) = some i := by
  unfold readInt
  have := readIntL_dec i [] (NoHead_nil _)
  rw [List.append_nil] at this
  rw [toList_dec, this]
  rfl

theorem emit_dec_injective : Function.Injective Emit.dec := by
  intro i j h
  have hi := emit_dec_readback i
  rw [h, emit_dec_readback j] at hi
  exact (Option.some.inj hi).symm

theorem emit_arr_readback (xs : List Int) : Emit.readArr (Emit.arr xs) = some xs := by
  unfold readArr
  have := readArrL_arr xs [] (NoHead_nil _)
  rw [List.append_nil] at this
  rw [toList_arr, this]
  rfl

theorem emit_arr_injective : Function.Injective Emit.arr := by
  intro xs ys h
  have hx := emit_arr_readback xs
  rw [h, emit_arr_readback ys] at hx
  exact (Option.some.inj hx).symm

/-! ## 3. the packed arrays -/

/-- the packed part as a list of named blocks -/
theorem toList_packedGo (d : Emit.Data) (h : d.need = true) :
    (Emit.packedGo d true).toList =
      blocksL [("StatePackAction", [' '], d.act), ("StatePackOffset", [], d.off),
        ("StackPackCheck", [], d.check), ("StackPackActDef", [], d.actdef),
        ("StackPackGotoDef", [], d.gotodef)] ++ ['\n'] := by
  have e1 : "\nvar StatePackAction = []int {\n\t".toList =
      '\n' :: (kwVar ++ ("StatePackAction".toList ++ (kwIntArr ++ ['\n', '\t']))) := rfl
  have e2 : " \n}\nvar StatePackOffset = []int {\n\t".toList =
      ' ' :: '\n' :: '}' :: '\n' :: (kwVar ++ ("StatePackOffset".toList ++ (kwIntArr ++ ['\n', '\t']))) := rfl
  have e3 : "\n}\nvar StackPackCheck = []int {\n\t".toList =
      '\n' :: '}' :: '\n' :: (kwVar ++ ("StackPackCheck".toList ++ (kwIntArr ++ ['\n', '\t']))) := rfl
  have e4 : "\n}\nvar StackPackActDef = []int {\n\t".toList =
      '\n' :: '}' :: '\n' :: (kwVar ++ ("StackPackActDef".toList ++ (kwIntArr ++ ['\n', '\t']))) := rfl
  have e5 : "\n}\nvar StackPackGotoDef = []int {\n\t".toList =
      '\n' :: '}' :: '\n' :: (kwVar ++ ("StackPackGotoDef".toList ++ (kwIntArr ++ ['\n', '\t']))) := rfl
  have e6 : "\n}\n".toList = ['\n', '}', '\n'] := rfl
  simp only [packedGo, h, Bool.and_self, if_true, String.toList_append, toList_arr, e1, e2, e3, e4, e5, e6,
    blocksL, blockL, List.map_cons, List.map_nil, List.flatten_cons, List.flatten_nil, List.append_assoc,
    List.cons_append, List.nil_append, List.append_nil]

theorem C05_emit_packed_readback (d : Emit.Data) (h : d.need = true) :
    Emit.readPacked (Emit.packedGo d true) = some (d.act, d.off, d.check, d.actdef, d.gotodef) := by
  unfold readPacked readDecls
  rw [toList_packedGo d h]
  rw [readDeclsF_blocks _ ['\n']
    (by intro b hb; simp only [List.mem_cons, List.not_mem_nil, or_false] at hb
        rcases hb with rfl | rfl | rfl | rfl | rfl
        · exact (by unfold GoodName; decide : GoodName "StatePackAction")
        · exact (by unfold GoodName; decide : GoodName "StatePackOffset")
        · exact (by unfold GoodName; decide : GoodName "StackPackCheck")
        · exact (by unfold GoodName; decide : GoodName "StackPackActDef")
        · exact (by unfold GoodName; decide : GoodName "StackPackGotoDef"))
    (by intro b hb; simp only [List.mem_cons, List.not_mem_nil, or_false] at hb
        rcases hb with rfl | rfl | rfl | rfl | rfl
        · exact (by decide : ∀ c ∈ [' '], isWs c = true)
        all_goals exact (by decide : ∀ c ∈ ([] : List Char), isWs c = true))
    (by decide) _ (by
      have := length_blocksL [("StatePackAction", [' '], d.act), ("StatePackOffset", [], d.off),
        ("StackPackCheck", [], d.check), ("StackPackActDef", [], d.actdef),
        ("StackPackGotoDef", [], d.gotodef)]
      simp only [List.length_append] at this ⊢
      omega)]
  rfl

/-! ## 4. the plain table -/

theorem C01_emit_rows_readback_go (rows : List (List Int)) :
    Emit.readRows '{' '}' (Emit.rowsTxt "{" "}" rows) = some rows := by
  unfold readRows
  have := readRowsL_rows '{' '}' (by decide) rows [] rfl
  rw [List.append_nil] at this
  rw [toList_rowsTxt]
  show (readRowsL '{' '}' (rowsL ['{'] ['}'] 0 rows)).bind _ = _
  rw [this]
  rfl

theorem C01_emit_rows_readback_ts (rows : List (List Int)) :
    Emit.readRows '[' ']' (Emit.rowsTxt "[" "]" rows) = some rows := by
  unfold readRows
  have := readRowsL_rows '[' ']' (by decide) rows [] rfl
  rw [List.append_nil] at this
  rw [toList_rowsTxt]
  show (readRowsL '[' ']' (rowsL ['['] [']'] 0 rows)).bind _ = _
  rw [this]
  rfl

/-- different tables are printed differently -/
theorem C01_emit_rows_injective : Function.Injective (Emit.rowsTxt "{" "}") := by
  intro r1 r2 h
  have h1 := C01_emit_rows_readback_go r1
  have h' : rowsTxt "{" "}" r1 = rowsTxt "{" "}" r2 := h
  rw [h', C01_emit_rows_readback_go r2] at h1
  exact (Option.some.inj h1).symm

theorem denseGo_eq (d : Emit.Data) (pack : Bool) (h : (d.need && pack) = false) :
    Emit.denseGo d pack = Emit.header d ++ Emit.rowsTxt "{" "}" d.rows := by
  simp [denseGo, h]

theorem denseTs_eq (d : Emit.Data) :
    Emit.denseTs d = "\nvar StateActionArray :number[][] =[\n\t" ++ Emit.header d ++
      Emit.rowsTxt "[" "]" d.rows ++ " \n]\n" := rfl

/-- `hasCmtEnd` decides "the text contains `*/`" -/
theorem hasCmtEnd_iff (l : List Char) : Emit.hasCmtEnd l = true ↔ ['*', '/'] <:+: l := by
  fun_induction hasCmtEnd l with
  | case1 => simp
  | case2 => simp [List.infix_cons_iff, List.cons_prefix_cons]
  | case3 s' => simp [List.infix_cons_iff, List.cons_prefix_cons]
  | case4 c' s' hc' ih =>
    rw [ih, List.infix_cons_iff (l₂ := c' :: s')]
    simp [List.cons_prefix_cons, Ne.symm hc']
  | case5 c s hc ih =>
    rw [ih, List.infix_cons_iff (l₂ := s)]
    simp [List.cons_prefix_cons, Ne.symm hc]

theorem names_noCmtEnd (d : Emit.Data) (hn : ∀ s ∈ d.syms, ¬ ['*', '/'] <:+: s.name.toList) :
    ∀ n ∈ d.syms.map (·.name), Emit.hasCmtEnd n.toList = false := by
  intro n hm
  obtain ⟨s, hs, rfl⟩ := List.mem_map.1 hm
  have := hn s hs
  rw [← hasCmtEnd_iff] at this
  simpa using this

/-- the plain Go table read back: the comment with the symbol names is skipped (up to its `*/`), every row
    carries its own number, and the rows are `d.rows` -/
theorem C01_emit_dense_readback_go (d : Emit.Data) (pack : Bool) (h : (d.need && pack) = false)
    (hn : ∀ s ∈ d.syms, ¬ ['*', '/'] <:+: s.name.toList) :
    Emit.readDenseGo (Emit.denseGo d pack) = some d.rows := by
  rw [denseGo_eq d pack h]
  unfold readDenseGo
  rw [String.toList_append, toList_header, toList_rowsTxt]
  obtain ⟨r0, h1, h2⟩ := skipCmt_header (d.syms.map (·.name)) (rowsL "{".toList "}".toList 0 d.rows)
    (names_noCmtEnd d hn)
  have := readRowsL_rows '{' '}' (by decide) d.rows [] rfl
  rw [List.append_nil] at this
  rw [h1, Option.bind_some, h2, Option.bind_some, strip_cons_self, Option.bind_some]
  show (readRowsL '{' '}' (rowsL ['{'] ['}'] 0 d.rows)).bind _ = _
  rw [this]
  rfl

theorem C01_emit_dense_readback_ts (d : Emit.Data)
    (hn : ∀ s ∈ d.syms, ¬ ['*', '/'] <:+: s.name.toList) :
    Emit.readDenseTs (Emit.denseTs d) = some d.rows := by
  rw [denseTs_eq]
  unfold readDenseTs
  have e : ("\nvar StateActionArray :number[][] =[\n\t" ++ header d ++ rowsTxt "[" "]" d.rows ++ " \n]\n").toList
      = kwTsDenseHead ++ (headerL (d.syms.map (·.name)) ++ (rowsL ['['] [']'] 0 d.rows ++ kwTsDenseTail)) := by
    simp only [String.toList_append, toList_header, toList_rowsTxt, List.append_assoc]
    rfl
  obtain ⟨r0, h1, h2⟩ := skipCmt_header (d.syms.map (·.name)) (rowsL ['['] [']'] 0 d.rows ++ kwTsDenseTail)
    (names_noCmtEnd d hn)
  rw [e, strip_append, Option.bind_some, h1, Option.bind_some, h2, Option.bind_some, strip_cons_self,
    Option.bind_some, readRowsL_rows '[' ']' (by decide) d.rows kwTsDenseTail (by decide)]
  simp

/-! ## 5. the `switch` of `translate` -/

/-- the terminals of the symbol table as (external code, internal id) -/
def termPairs (d : Emit.Data) : List (Int × Int) :=
  (d.syms.filter (!·.isNT)).map fun s => (s.value, (s.id : Int))

theorem toList_cases (term : String) (ts : List Emit.ESym) :
    (cat (ts.map fun s => "\tcase " ++ dec s.value ++ ":\n \tconv = " ++ dec s.id ++ term)).toList =
      casesL term.toList (ts.map fun s => (s.value, (s.id : Int))) := by
  simp only [toList_cat, casesL, caseL, List.map_map, Function.comp_def, String.toList_append, toList_dec,
    List.append_assoc]
  rfl

theorem toList_translateGo (d : Emit.Data) :
    (Emit.translateGo d).toList = casesL kwEndGo (termPairs d) :=
  toList_cases "\n" _

theorem toList_translateTs (d : Emit.Data) :
    (Emit.translateTs d).toList = kwTsTransHead ++ (casesL kwEndTs (termPairs d) ++ kwTsTransTail) := by
  unfold translateTs
  rw [String.toList_append, String.toList_append, toList_cases ";\nbreak;\n", List.append_assoc]
  rfl

theorem C11_emit_translate_readback_go (d : Emit.Data) :
    Emit.readTranslateGo (Emit.translateGo d) =
      some ((d.syms.filter (!·.isNT)).map fun s => (s.value, (s.id : Int))) := by
  unfold readTranslateGo
  rw [toList_translateGo]
  have := readCasesF_cases kwEndGo (fun x => (by decide : Char.isDigit '\n' = false)) (termPairs d) [] rfl
    ((casesL kwEndGo (termPairs d)).length + 1) (by have := length_casesL kwEndGo (termPairs d); omega)
  rw [List.append_nil] at this
  rw [this]
  rfl

theorem C11_emit_translate_readback_ts (d : Emit.Data) :
    Emit.readTranslateTs (Emit.translateTs d) =
      some ((d.syms.filter (!·.isNT)).map fun s => (s.value, (s.id : Int))) := by
  unfold readTranslateTs
  rw [toList_translateTs, strip_append, Option.bind_some]
  rw [readCasesF_cases kwEndTs (fun x => (by decide : Char.isDigit ';' = false)) (termPairs d) kwTsTransTail
    (by decide) _ (by
      have := length_casesL kwEndTs (termPairs d)
      simp only [List.length_append]; omega)]
  simp [termPairs]

/-! ## 6. the constant block -/

/-- the identifiers that get a `const` line: the terminals without the literals' temporary names -/
def constIds (d : Emit.Data) : List Emit.EId := d.ids.filter fun i => i.isTerm && !Emit.isTemp i.name

/-- what the constant block says: the token constants, then the two action codes -/
def constPairs (d : Emit.Data) : List (String × Int) :=
  ((d.ids.filter fun i => i.isTerm && !Emit.isTemp i.name).map fun i => (i.name, i.value)) ++
    [("ERROR_ACTION", d.errC), ("ACCEPT_ACTION", d.accC)]

theorem toList_constLines (d : Emit.Data) :
    (Emit.constLines d).toList = clinesL ((constIds d).map fun i => (i.name, i.value, [])) := by
  simp only [constLines, constIds, toList_cat, clinesL, clineL, List.map_map, Function.comp_def,
    String.toList_append, toList_dec, List.append_assoc, List.nil_append]
  rfl

theorem toList_constGo (d : Emit.Data) :
    (Emit.constGo d).toList = clinesL (((constIds d).map fun i => (i.name, i.value, [])) ++
      [("ERROR_ACTION", d.errC, []), ("ACCEPT_ACTION", d.accC, [])]) := by
  have e1 : "const ERROR_ACTION = ".toList = kwConst ++ ("ERROR_ACTION".toList ++ kwEq) := by decide
  have e2 : "\nconst ACCEPT_ACTION = ".toList = '\n' :: (kwConst ++ ("ACCEPT_ACTION".toList ++ kwEq)) := by
    decide
  have e3 : "\n".toList = ['\n'] := rfl
  simp only [constGo, String.toList_append, toList_constLines, toList_dec, e1, e2, e3]
  simp only [clinesL, clineL, List.map_append, List.flatten_append, List.map_cons, List.map_nil,
    List.flatten_cons, List.flatten_nil, List.append_assoc, List.cons_append, List.nil_append, List.append_nil]

def tsConstHead : List Char := "// const part \n".toList

theorem toList_constTs (d : Emit.Data) :
    (Emit.constTs d).toList = tsConstHead ++ clinesL (((constIds d).map fun i => (i.name, i.value, [])) ++
      [("ERROR_ACTION", d.errC, [' ']), ("ACCEPT_ACTION", d.accC, [])]) := by
  have e0 : "// const part \n".toList = tsConstHead := by unfold tsConstHead; exact Eq.refl _
  have e1 : "const ERROR_ACTION = ".toList = kwConst ++ ("ERROR_ACTION".toList ++ kwEq) := by decide
  have e2 : " \nconst ACCEPT_ACTION = ".toList = ' ' :: '\n' :: (kwConst ++ ("ACCEPT_ACTION".toList ++ kwEq)) := by
    decide
  have e3 : "\n".toList = ['\n'] := rfl
  delta constTs
  simp only [String.toList_append, toList_constLines, toList_dec]
  rw [e0, e1, e2, e3]
  simp only [clinesL, clineL, List.map_append, List.flatten_append, List.map_cons, List.map_nil,
    List.flatten_cons, List.flatten_nil, List.append_assoc, List.cons_append, List.nil_append, List.append_nil]

/-- the hypothesis of the constant-block theorems: every name that gets a `const` line is non-empty and
    contains no blank, no `=` and no newline -/
def ConstNamesOk (d : Emit.Data) : Prop :=
  ∀ i ∈ d.ids, i.isTerm = true → Emit.isTemp i.name = false → Emit.GoodName i.name

theorem constTriples_ok (d : Emit.Data) (hn : ConstNamesOk d) (pad : List Char) (hpad : ∀ c ∈ pad, c = ' ') :
    (∀ t ∈ ((constIds d).map fun i => (i.name, i.value, ([] : List Char))) ++
        [("ERROR_ACTION", d.errC, pad), ("ACCEPT_ACTION", d.accC, [])], GoodName t.1) ∧
    (∀ t ∈ ((constIds d).map fun i => (i.name, i.value, ([] : List Char))) ++
        [("ERROR_ACTION", d.errC, pad), ("ACCEPT_ACTION", d.accC, [])], ∀ c ∈ t.2.2, c = ' ') := by
  constructor
  · intro t ht
    rcases List.mem_append.1 ht with h | h
    · obtain ⟨i, hi, rfl⟩ := List.mem_map.1 h
      simp only [constIds, List.mem_filter, Bool.and_eq_true, Bool.not_eq_true'] at hi
      exact hn i hi.1 hi.2.1 hi.2.2
    · simp only [List.mem_cons, List.not_mem_nil, or_false] at h
      rcases h with rfl | rfl
      · exact (by unfold GoodName; decide : GoodName "ERROR_ACTION")
      · exact (by unfold GoodName; decide : GoodName "ACCEPT_ACTION")
  · intro t ht
    rcases List.mem_append.1 ht with h | h
    · obtain ⟨i, _, rfl⟩ := List.mem_map.1 h
      intro c hc; cases hc
    · simp only [List.mem_cons, List.not_mem_nil, or_false] at h
      rcases h with rfl | rfl
      · exact hpad
      · intro c hc; cases hc

theorem constTriples_map (d : Emit.Data) (pad : List Char) :
    ((((constIds d).map fun i => (i.name, i.value, ([] : List Char))) ++
        [("ERROR_ACTION", d.errC, pad), ("ACCEPT_ACTION", d.accC, [])]).map fun t => (t.1, t.2.1)) =
      constPairs d := by
  simp [constPairs, constIds, Function.comp_def]

theorem C11_emit_consts_readback_go (d : Emit.Data)
    (hn : ∀ i ∈ d.ids, i.isTerm = true → Emit.isTemp i.name = false →
      i.name.toList ≠ [] ∧ ∀ c ∈ i.name.toList, c ≠ ' ' ∧ c ≠ '=' ∧ c ≠ '\n') :
    Emit.readConsts (Emit.constGo d) =
      some (((d.ids.filter fun i => i.isTerm && !Emit.isTemp i.name).map fun i => (i.name, i.value)) ++
        [("ERROR_ACTION", d.errC), ("ACCEPT_ACTION", d.accC)]) := by
  unfold readConsts
  obtain ⟨h1, h2⟩ := constTriples_ok d hn [] (by intro c hc; cases hc)
  rw [toList_constGo, readConstsF_lines _ h1 h2 _ (Nat.lt_succ_of_le (length_clinesL _)), constTriples_map]
  rfl

theorem readConstsF_ts (ts : List (String × Int × List Char))
    (hn : ∀ t ∈ ts, GoodName t.1) (hp : ∀ t ∈ ts, ∀ c ∈ t.2.2, c = ' ') :
    readConstsF ((tsConstHead ++ clinesL ts).length + 1) (tsConstHead ++ clinesL ts) =
      some (ts.map fun t => (t.1, t.2.1)) := by
  have step : ∀ f x, readConstsF (f + 1) (tsConstHead ++ x) = readConstsF f x := by
    intro f x
    have e : tsConstHead ++ x = '/' :: '/' :: (" const part ".toList ++ '\n' :: x) := rfl
    rw [e, readConstsF]
    have e2 : strip ['/', '/'] ('/' :: '/' :: (" const part ".toList ++ '\n' :: x)) =
        some (" const part ".toList ++ '\n' :: x) := by simp [strip]
    simp only [e2]
    rw [dropWhile_append_noHead (by decide) (by simp)]
    rfl
  have hl := length_clinesL ts
  have e : (tsConstHead ++ clinesL ts).length + 1 = (14 + (clinesL ts).length + 1) + 1 := by
    rw [List.length_append, show tsConstHead.length = 15 from rfl]; omega
  rw [e, step, readConstsF_lines ts hn hp _ (by omega)]

theorem C11_emit_consts_readback_ts (d : Emit.Data)
    (hn : ∀ i ∈ d.ids, i.isTerm = true → Emit.isTemp i.name = false →
      i.name.toList ≠ [] ∧ ∀ c ∈ i.name.toList, c ≠ ' ' ∧ c ≠ '=' ∧ c ≠ '\n') :
    Emit.readConsts (Emit.constTs d) =
      some (((d.ids.filter fun i => i.isTerm && !Emit.isTemp i.name).map fun i => (i.name, i.value)) ++
        [("ERROR_ACTION", d.errC), ("ACCEPT_ACTION", d.accC)]) := by
  unfold readConsts
  obtain ⟨h1, h2⟩ := constTriples_ok d hn [' '] (by intro c hc; simpa using hc)
  rw [toList_constTs, readConstsF_ts _ h1 h2, constTriples_map]
  rfl

/-! ## 7. corollaries: the two action codes, and `translate` as a function -/

theorem lookup_append_of_absent {β : Type} (l r : List (String × β)) (k : String)
    (h : ∀ p ∈ l, p.1 ≠ k) : (l ++ r).lookup k = r.lookup k := by
  have : l.lookup k = none := by
    rw [List.lookup_eq_none_iff]
    intro p hp
    simpa [bne_iff_ne] using (h p hp).symm
  rw [List.lookup_append, this, Option.none_or]

/-- the token constants never shadow the two action codes -/
def NoCodeClash (d : Emit.Data) : Prop :=
  ∀ i ∈ d.ids, i.isTerm = true → Emit.isTemp i.name = false →
    i.name ≠ "ERROR_ACTION" ∧ i.name ≠ "ACCEPT_ACTION"

theorem constPairs_codes (d : Emit.Data) (hc : NoCodeClash d) :
    (constPairs d).lookup "ERROR_ACTION" = some d.errC ∧
    (constPairs d).lookup "ACCEPT_ACTION" = some d.accC ∧
    (∀ v, ("ERROR_ACTION", v) ∈ constPairs d → v = d.errC) ∧
    (∀ v, ("ACCEPT_ACTION", v) ∈ constPairs d → v = d.accC) := by
  have habs : ∀ p ∈ (d.ids.filter fun i => i.isTerm && !Emit.isTemp i.name).map (fun i => (i.name, i.value)),
      p.1 ≠ "ERROR_ACTION" ∧ p.1 ≠ "ACCEPT_ACTION" := by
    intro p hp
    obtain ⟨i, hi, rfl⟩ := List.mem_map.1 hp
    simp only [List.mem_filter, Bool.and_eq_true, Bool.not_eq_true'] at hi
    exact hc i hi.1 hi.2.1 hi.2.2
  refine ⟨?_, ?_, ?_, ?_⟩
  · rw [constPairs, lookup_append_of_absent _ _ _ (fun p hp => (habs p hp).1)]
    rfl
  · rw [constPairs, lookup_append_of_absent _ _ _ (fun p hp => (habs p hp).2)]
    rw [List.lookup_cons, show ("ACCEPT_ACTION" == "ERROR_ACTION") = false by decide]
    rfl
  · intro v hv
    rcases List.mem_append.1 hv with h | h
    · exact absurd rfl (habs _ h).1
    · simp only [List.mem_cons, List.not_mem_nil, or_false, Prod.mk.injEq] at h
      rcases h with h | h
      · exact h.2
      · exact absurd h.1 (by decide)
  · intro v hv
    rcases List.mem_append.1 hv with h | h
    · exact absurd rfl (habs _ h).2
    · simp only [List.mem_cons, List.not_mem_nil, or_false, Prod.mk.injEq] at h
      rcases h with h | h
      · exact absurd h.1 (by decide)
      · exact h.2

/-- In the emitted Go constant block, the constants named `ERROR_ACTION` / `ACCEPT_ACTION` are exactly the
    codes the table was built with (looked up by name; no other line carries these names). -/
theorem C06_emitted_codes_go (d : Emit.Data)
    (hn : ∀ i ∈ d.ids, i.isTerm = true → Emit.isTemp i.name = false →
      i.name.toList ≠ [] ∧ ∀ c ∈ i.name.toList, c ≠ ' ' ∧ c ≠ '=' ∧ c ≠ '\n')
    (hc : ∀ i ∈ d.ids, i.isTerm = true → Emit.isTemp i.name = false →
      i.name ≠ "ERROR_ACTION" ∧ i.name ≠ "ACCEPT_ACTION") :
    ∃ cs, Emit.readConsts (Emit.constGo d) = some cs ∧
      cs.lookup "ERROR_ACTION" = some d.errC ∧ cs.lookup "ACCEPT_ACTION" = some d.accC ∧
      (∀ v, ("ERROR_ACTION", v) ∈ cs → v = d.errC) ∧ (∀ v, ("ACCEPT_ACTION", v) ∈ cs → v = d.accC) :=
  ⟨constPairs d, C11_emit_consts_readback_go d hn, constPairs_codes d hc⟩

theorem C06_emitted_codes_ts (d : Emit.Data)
    (hn : ∀ i ∈ d.ids, i.isTerm = true → Emit.isTemp i.name = false →
      i.name.toList ≠ [] ∧ ∀ c ∈ i.name.toList, c ≠ ' ' ∧ c ≠ '=' ∧ c ≠ '\n')
    (hc : ∀ i ∈ d.ids, i.isTerm = true → Emit.isTemp i.name = false →
      i.name ≠ "ERROR_ACTION" ∧ i.name ≠ "ACCEPT_ACTION") :
    ∃ cs, Emit.readConsts (Emit.constTs d) = some cs ∧
      cs.lookup "ERROR_ACTION" = some d.errC ∧ cs.lookup "ACCEPT_ACTION" = some d.accC ∧
      (∀ v, ("ERROR_ACTION", v) ∈ cs → v = d.errC) ∧ (∀ v, ("ACCEPT_ACTION", v) ∈ cs → v = d.accC) :=
  ⟨constPairs d, C11_emit_consts_readback_ts d hn, constPairs_codes d hc⟩

/-- without any hypothesis on clashes: the last two `const` lines are the two codes -/
theorem C06_emitted_codes_last (d : Emit.Data)
    (hn : ∀ i ∈ d.ids, i.isTerm = true → Emit.isTemp i.name = false →
      i.name.toList ≠ [] ∧ ∀ c ∈ i.name.toList, c ≠ ' ' ∧ c ≠ '=' ∧ c ≠ '\n') :
    ∃ toks, Emit.readConsts (Emit.constGo d) = some (toks ++ [("ERROR_ACTION", d.errC), ("ACCEPT_ACTION", d.accC)]) ∧
      Emit.readConsts (Emit.constTs d) = some (toks ++ [("ERROR_ACTION", d.errC), ("ACCEPT_ACTION", d.accC)]) :=
  ⟨_, C11_emit_consts_readback_go d hn, C11_emit_consts_readback_ts d hn⟩

theorem lookup_map_nodup {α β : Type} (l : List α) (k : α → Int) (v : α → β) (h : (l.map k).Nodup) :
    ∀ a ∈ l, (l.map fun a => (k a, v a)).lookup (k a) = some (v a) := by
  induction l with
  | nil => intro a ha; cases ha
  | cons x l ih =>
    intro a ha
    rw [List.map_cons, List.nodup_cons] at h
    rw [List.map_cons, List.lookup_cons]
    rcases List.mem_cons.1 ha with rfl | ha'
    · simp
    · have hne : k a ≠ k x := by
        intro e
        exact h.1 (e ▸ List.mem_map_of_mem ha')
      have : (k a == k x) = false := by simpa using hne
      rw [this]
      exact ih h.2 a ha'

/-- If the terminals carry pairwise distinct codes, the `switch` read back from the emitted `translate` (Go
    and TypeScript give the same list) is a function on codes: the code of a terminal is mapped to the id of
    that terminal, and a number that is the code of no terminal has no `case`. -/
theorem C11_emit_translate_functional (d : Emit.Data)
    (hd : ((d.syms.filter (!·.isNT)).map (·.value)).Nodup) :
    ∃ ps, Emit.readTranslateGo (Emit.translateGo d) = some ps ∧
      Emit.readTranslateTs (Emit.translateTs d) = some ps ∧
      (∀ s ∈ d.syms, s.isNT = false → ps.lookup s.value = some (s.id : Int)) ∧
      (∀ c : Int, (∀ s ∈ d.syms, s.isNT = false → s.value ≠ c) → ps.lookup c = none) := by
  refine ⟨_, C11_emit_translate_readback_go d, C11_emit_translate_readback_ts d, ?_, ?_⟩
  · intro s hs hnt
    exact lookup_map_nodup (d.syms.filter (!·.isNT)) (·.value) (fun s => (s.id : Int)) hd s
      (by simp [List.mem_filter, hs, hnt])
  · intro c hc
    rw [List.lookup_eq_none_iff]
    intro p hp
    obtain ⟨s, hs, rfl⟩ := List.mem_map.1 hp
    simp only [List.mem_filter, Bool.not_eq_true'] at hs
    simpa [bne_iff_ne] using (hc s hs.1 hs.2).symm

/-! ## 8. non-vacuity: one concrete table -/

/-- three terminals (one of them the literal `'+'` under its temporary name), one nonterminal, two rows -/
def exData : Emit.Data := {
  ids := [⟨"NUM", true, 257⟩, ⟨"$operator+", true, 43⟩, ⟨"expr", false, 0⟩, ⟨"ID", true, 258⟩],
  syms := [⟨0, false, 0, "$end"⟩, ⟨1, false, 257, "NUM"⟩, ⟨2, false, 43, "$operator+"⟩,
    ⟨3, true, -1, "expr"⟩, ⟨4, false, 258, "ID"⟩],
  rows := [[0, -3, 12, 1000], [5, 0, -1, 7]], need := true,
  act := [1, -2, 30], off := [0, -7], check := [], actdef := [4], gotodef := [-1, 0, 22],
  errC := -1000, accC := 2147483647, rules := [] }

theorem exData_names : ∀ i ∈ exData.ids, i.isTerm = true → Emit.isTemp i.name = false →
    i.name.toList ≠ [] ∧ ∀ c ∈ i.name.toList, c ≠ ' ' ∧ c ≠ '=' ∧ c ≠ '\n' := by
  intro i hi _ _
  simp only [exData, List.mem_cons, List.not_mem_nil, or_false] at hi
  rcases hi with rfl | rfl | rfl | rfl <;> decide

theorem exData_syms : ∀ s ∈ exData.syms, ¬ ['*', '/'] <:+: s.name.toList := by
  intro s hs
  rw [← hasCmtEnd_iff]
  simp only [exData, List.mem_cons, List.not_mem_nil, or_false] at hs
  rcases hs with rfl | rfl | rfl | rfl | rfl <;> simp [hasCmtEnd]

example : Emit.readPacked (Emit.packedGo exData true) = some ([1, -2, 30], [0, -7], [], [4], [-1, 0, 22]) :=
  C05_emit_packed_readback exData rfl

example : Emit.readDenseGo (Emit.denseGo exData false) = some [[0, -3, 12, 1000], [5, 0, -1, 7]] :=
  C01_emit_dense_readback_go exData false rfl exData_syms

example : Emit.readDenseTs (Emit.denseTs exData) = some [[0, -3, 12, 1000], [5, 0, -1, 7]] :=
  C01_emit_dense_readback_ts exData exData_syms

example : Emit.readTranslateGo (Emit.translateGo exData) = some [(0, 0), (257, 1), (43, 2), (258, 4)] :=
  C11_emit_translate_readback_go exData

example : Emit.readTranslateTs (Emit.translateTs exData) = some [(0, 0), (257, 1), (43, 2), (258, 4)] :=
  C11_emit_translate_readback_ts exData

theorem exData_constPairs : constPairs exData =
    [("NUM", 257), ("ID", 258), ("ERROR_ACTION", -1000), ("ACCEPT_ACTION", 2147483647)] := by
  simp [constPairs, exData, Emit.isTemp]

example : Emit.readConsts (Emit.constGo exData) =
    some [("NUM", 257), ("ID", 258), ("ERROR_ACTION", -1000), ("ACCEPT_ACTION", 2147483647)] := by
  rw [← exData_constPairs]; exact C11_emit_consts_readback_go exData exData_names

example : Emit.readConsts (Emit.constTs exData) =
    some [("NUM", 257), ("ID", 258), ("ERROR_ACTION", -1000), ("ACCEPT_ACTION", 2147483647)] := by
  rw [← exData_constPairs]; exact C11_emit_consts_readback_ts exData exData_names

example : ((exData.syms.filter (!·.isNT)).map (·.value)).Nodup := by decide

end Y.Props
