import Yv.Model.GoAst
/-! A small abstract syntax for the TypeScript subset in which the LR driver of the TypeScript
    back end is written (`Builder/TsGenCode.go`: the text assigned to `b.StateFunc` —
    `PushStateSym`, `PopStateSym`, `initialize`, `Parser`, `fetchLookAhead` — and the frame of
    `ReduceFunc`).  HAND-WRITTEN: only the program VALUES (`Yv/Gen/TsDriver.lean`) are regenerated
    from the text by the translator (`translator/tsdriver.go`), which fails closed on every token,
    every construct and every identifier that is not listed here.  The binary operators are
    `Gen.BinOp` of `Yv/Model/GoAst.lean`. -/
namespace Gen.Ts

/-- every identifier the TypeScript driver text may mention (anything else stops the translator) -/
inductive Id
  -- the two module-level variables
  | StateSymStack | StackPointer
  -- parameters and locals
  | state | num | input | currentPos | val | model | lookAhead | action | sym | SymTy | gotoState
  | token | reduceIndex | dollarDolar | topIndex
  -- classes, types, fields
  | StateSym | ValType | number | string | Yystate | YySymIndex | pos
  -- constants
  | ERROR_ACTION | ACCEPT_ACTION
  -- functions and methods of the generated file
  | PushStateSym | PopStateSym | initialize | Parser | fetchLookAhead | ReduceFunc | Action
  | GetToken | translate
  -- built-ins
  | push | length | console | error
deriving DecidableEq, Repr

/-- type annotations (erased at run time; kept so that the generated file mirrors the text) -/
inductive Ty
  | name (x : Id)                                  -- `number`, `string`, `ValType`, `StateSym`
  | obj (keys : List Id) (tys : List Id)           -- `{ValType :ValType, pos :number}`
deriving DecidableEq, Repr

inductive DeclKind
  | kVar | kLet | kConst
deriving DecidableEq, Repr

inductive Expr
  | id (x : Id)
  | int (n : Int)                                  -- integer literal
  | str (s : String)                               -- string literal
  | null
  | neg (e : Expr)                                 -- `-e`
  | bin (op : Gen.BinOp) (l r : Expr)
  | index (e i : Expr)                             -- `e[i]`
  | sel (e : Expr) (f : Id)                        -- `e.f`
  | call (f : Expr) (args : List Expr)             -- `f(args)`, `recv.m(args)`
  | new (cls : Id) (args : List Expr)              -- `new C(args)`
  | obj (keys : List Id) (vals : List Expr)        -- `{k :v, …}`
  | arr (elts : List Expr)                         -- `[e, …]`

inductive Stmt
  | expr (e : Expr)                                -- call statement
  | decl (k : DeclKind) (x : Id) (ty : Option Ty) (init : Option Expr)  -- `var/let/const x [:T] [= e]`
  | assign (lhs : Expr) (e : Expr)                 -- `lhs = e`
  | subAssign (lhs : Expr) (e : Expr)              -- `lhs -= e`
  | inc (lhs : Expr)                               -- `lhs++`
  | ite (cond : Expr) (thn : List Stmt) (els : List Stmt)   -- `else if` = `els` is one `ite`
  | loop (body : List Stmt)                        -- `while (true) { … }`
  | brk
  | ret (e : Expr)
  | switchHole (scrut : Expr)                      -- `switch (e) { %s }`: the per-grammar `case`s go here

/-- a function declaration: typed parameters, optional result type, body -/
structure Fn where
  params : List (Id × Ty)
  ret : Option Ty
  body : List Stmt

end Gen.Ts
