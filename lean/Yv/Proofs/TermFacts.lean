import Yv.Model.Term
/-! Facts about the termination certificate `Y.Term.certTerm`: the driver halts on every table that
    passes it (`halts_of_ok`, with an explicit fuel bound), `run` is stable once it has halted
    (`run_mono`), and the array-backed evaluator equals the list one (`certTermFast_eq`). -/
namespace Y.Term
open Y Y.D

/-! ## `run` is stable once it halts -/

theorem run_mono {V : Type} (P : Params V) : ∀ (k : Nat) (c : D.Cfg V), run P k c ≠ .outOfFuel →
    ∀ k', k ≤ k' → run P k' c = run P k c
  | 0, c, h, _, _ => absurd rfl h
  | k + 1, c, h, k', hk => by
    obtain ⟨j, rfl⟩ : ∃ j, k' = j + 1 := ⟨k' - 1, by omega⟩
    unfold run at h ⊢
    split
    · rename_i c' hc
      rw [hc] at h
      exact run_mono P k c' h j (by omega)
    all_goals rfl

def HaltsIn {V : Type} (P : Params V) (k : Nat) (c : D.Cfg V) : Prop := run P k c ≠ .outOfFuel

theorem HaltsIn.mono {V : Type} {P : Params V} {k k' : Nat} {c : D.Cfg V}
    (h : HaltsIn P k c) (hk : k ≤ k') : HaltsIn P k' c := by
  unfold HaltsIn; rw [run_mono P k c h k' hk]; exact h

theorem HaltsIn.of_next {V : Type} {P : Params V} {k : Nat} {c c' : D.Cfg V}
    (hs : D.step P c = .next c') (h : HaltsIn P k c') : HaltsIn P (k + 1) c := by
  unfold HaltsIn run; rw [hs]; exact h

theorem HaltsIn.of_not_next {V : Type} {P : Params V} {c : D.Cfg V}
    (hs : ∀ c', D.step P c ≠ .next c') : HaltsIn P 1 c := by
  unfold HaltsIn run
  split
  · rename_i c' hc; exact absurd hc (hs c')
  all_goals simp

/-! ## inversion of `step` and `rstep` -/

def sts {V : Type} (stk : List (Entry V)) : List Nat := stk.map Entry.st

/-- the two ways `step` continues: a shift or a reduce (with all the data) -/
theorem step_next_inv {V : Type} (P : Params V) (c c' : D.Cfg V) (h : D.step P c = .next c') :
    ∃ top below v, c.stack = top :: below ∧ P.L top.st (look P.eofVal c).1 = some v ∧
      v ≠ P.errC ∧ v ≠ P.accC ∧
      ((0 < v ∧ c'.rest = c.rest.tail ∧
          ∃ e, e.st = v.toNat ∧ c'.stack = e :: top :: below) ∨
       (¬ 0 < v ∧ c'.rest = c.rest ∧
          ∃ lhs n u rest' g e, P.rule (-v).toNat = some (lhs, n) ∧ n ≤ below.length ∧
            (top :: below).drop n = u :: rest' ∧ P.L u.st lhs = some g ∧ ¬ g < 0 ∧
            e.st = g.toNat ∧ c'.stack = e :: u :: rest')) := by
  unfold D.step at h
  split at h
  · cases h
  · rename_i top below hstk
    split at h
    · cases h
    · rename_i v hv
      refine ⟨top, below, v, hstk, hv, ?_⟩
      split at h
      · cases h
      · split at h
        · cases h
        · rename_i h1 h2
          refine ⟨h1, h2, ?_⟩
          split at h
          · rename_i hpos
            cases h
            exact .inl ⟨hpos, rfl, _, rfl, rfl⟩
          · rename_i hpos
            split at h
            · cases h
            · rename_i lhs n hr
              split at h
              · rename_i hn
                split at h
                · cases h
                · rename_i u rest' hd
                  split at h
                  · cases h
                  · rename_i g hg
                    split at h
                    · cases h
                    · rename_i hg0
                      cases h
                      exact .inr ⟨hpos, rfl, lhs, n, u, rest', g, _, hr, hn, hd, hg, hg0, rfl, rfl⟩
              · cases h

theorem rstep_next_inv {L : Nat → Nat → Option Int} {errC accC : Int}
    {rule : Nat → Option (Sym × Nat)} {a : Sym} {s s' : List Nat}
    (h : rstep L errC accC rule a s = .next s') :
    ∃ t s1 v lhs n u rest' g, s = t :: s1 ∧ L t a = some v ∧ v ≠ errC ∧ v ≠ accC ∧ ¬ 0 < v ∧
      rule (-v).toNat = some (lhs, n) ∧ n ≤ s1.length ∧ (t :: s1).drop n = u :: rest' ∧
      L u lhs = some g ∧ ¬ g < 0 ∧ s' = g.toNat :: u :: rest' := by
  unfold rstep at h
  split at h
  · cases h
  · rename_i t s1
    split at h
    · cases h
    · rename_i v hv
      split at h
      · cases h
      · split at h
        · cases h
        · split at h
          · cases h
          · rename_i h1 h2 h3
            split at h
            · cases h
            · rename_i lhs n hr
              split at h
              · rename_i hn
                split at h
                · cases h
                · rename_i u rest' hd
                  split at h
                  · cases h
                  · rename_i g hg
                    split at h
                    · cases h
                    · rename_i hg0
                      cases h
                      exact ⟨t, s1, v, lhs, n, u, rest', g, rfl, hv, h1, h2, h3, hr, hn, hd, hg, hg0, rfl⟩
              · cases h

theorem rstep_under_inv {L : Nat → Nat → Option Int} {errC accC : Int}
    {rule : Nat → Option (Sym × Nat)} {a : Sym} {s : List Nat}
    (h : rstep L errC accC rule a s = .under) :
    ∃ t s1 v lhs n, s = t :: s1 ∧ L t a = some v ∧ v ≠ errC ∧ v ≠ accC ∧ ¬ 0 < v ∧
      rule (-v).toNat = some (lhs, n) ∧ ¬ n ≤ s1.length := by
  unfold rstep at h
  split at h
  · cases h
  · rename_i t s1
    split at h
    · cases h
    · rename_i v hv
      split at h
      · cases h
      · split at h
        · cases h
        · split at h
          · cases h
          · rename_i h1 h2 h3
            split at h
            · cases h
            · rename_i lhs n hr
              split at h
              · split at h
                · cases h
                · split at h
                  · cases h
                  · split at h <;> cases h
              · rename_i hn
                exact ⟨t, s1, v, lhs, n, rfl, hv, h1, h2, h3, hr, hn⟩

/-- `rstep` computed on a reduce action -/
theorem rstep_reduce_next {L : Nat → Nat → Option Int} {errC accC : Int}
    {rule : Nat → Option (Sym × Nat)} {a : Sym} {t : Nat} {s1 : List Nat} {v : Int} {lhs n : Nat}
    {u : Nat} {rest' : List Nat} {g : Int}
    (hv : L t a = some v) (h1 : v ≠ errC) (h2 : v ≠ accC) (h3 : ¬ 0 < v)
    (hr : rule (-v).toNat = some (lhs, n)) (hn : n ≤ s1.length)
    (hd : (t :: s1).drop n = u :: rest') (hg : L u lhs = some g) (hg0 : ¬ g < 0) :
    rstep L errC accC rule a (t :: s1) = .next (g.toNat :: u :: rest') := by
  unfold rstep
  simp only [hv, h1, h2, h3, hr, hn, hd, hg, hg0, if_false, if_true]

theorem rstep_reduce_under {L : Nat → Nat → Option Int} {errC accC : Int}
    {rule : Nat → Option (Sym × Nat)} {a : Sym} {t : Nat} {s1 : List Nat} {v : Int} {lhs n : Nat}
    (hv : L t a = some v) (h1 : v ≠ errC) (h2 : v ≠ accC) (h3 : ¬ 0 < v)
    (hr : rule (-v).toNat = some (lhs, n)) (hn : ¬ n ≤ s1.length) :
    rstep L errC accC rule a (t :: s1) = .under := by
  unfold rstep
  simp only [hv, h1, h2, h3, hr, hn, if_false]

/-- `step` computed on a reduce action -/
theorem step_reduce_eq {V : Type} (P : Params V) (c : D.Cfg V) {top : Entry V} {below : List (Entry V)}
    {v : Int} {lhs n : Nat} {u : Entry V} {rest' : List (Entry V)} {g : Int}
    (hstk : c.stack = top :: below) (hv : P.L top.st (look P.eofVal c).1 = some v)
    (h1 : v ≠ P.errC) (h2 : v ≠ P.accC) (h3 : ¬ 0 < v)
    (hr : P.rule (-v).toNat = some (lhs, n)) (hn : n ≤ below.length)
    (hd : (top :: below).drop n = u :: rest') (hg : P.L u.st lhs = some g) (hg0 : ¬ g < 0) :
    ∃ c', D.step P c = .next c' ∧ c'.rest = c.rest ∧
      ∃ e, e.st = g.toNat ∧ c'.stack = e :: u :: rest' := by
  unfold D.step
  simp only [hstk, hv, h1, h2, h3, hr, hn, hd, hg, hg0, if_false, if_true]
  exact ⟨_, rfl, rfl, _, rfl, rfl⟩

/-! ## suffix independence: `step` on a stack with states `s ++ r` follows `rstep` on `s` -/

theorem sts_cons_inv {V : Type} {stk : List (Entry V)} {t : Nat} {x : List Nat}
    (h : sts stk = t :: x) : ∃ top below, stk = top :: below ∧ top.st = t ∧ sts below = x := by
  cases stk with
  | nil => simp [sts] at h
  | cons top below =>
    simp only [sts, List.map_cons, List.cons.injEq] at h
    exact ⟨top, below, rfl, h.1, h.2⟩

theorem sts_drop {V : Type} (stk : List (Entry V)) (n : Nat) : sts (stk.drop n) = (sts stk).drop n := by
  simp [sts, List.map_drop]

theorem sts_length {V : Type} (stk : List (Entry V)) : (sts stk).length = stk.length := by
  simp [sts]

theorem sim_next {V : Type} (P : Params V) (c : D.Cfg V) (s r s' : List Nat)
    (hs : sts c.stack = s ++ r)
    (h : rstep P.L P.errC P.accC P.rule (look P.eofVal c).1 s = .next s') :
    ∃ c', D.step P c = .next c' ∧ c'.rest = c.rest ∧ sts c'.stack = s' ++ r ∧
      s'.length ≤ s.length + 1 ∧ s' ≠ [] := by
  obtain ⟨t, s1, v, lhs, n, u, rest', g, rfl, hv, h1, h2, h3, hr, hn, hd, hg, hg0, rfl⟩ :=
    rstep_next_inv h
  obtain ⟨top, below, hstk, htop, hbelow⟩ := sts_cons_inv (x := s1 ++ r) (by simpa using hs)
  have hbl : below.length = s1.length + r.length := by
    rw [← sts_length, hbelow, List.length_append]
  have hdrop : sts ((top :: below).drop n) = u :: (rest' ++ r) := by
    rw [sts_drop, ← hstk, hs, List.drop_append_of_le_length (by simp; omega), hd]; rfl
  obtain ⟨eu, erest, hed, heu, herest⟩ := sts_cons_inv hdrop
  subst htop heu
  obtain ⟨c', hc', hrest, e, he, hstk'⟩ :=
    step_reduce_eq P c hstk hv h1 h2 h3 hr (by omega) hed hg hg0
  refine ⟨c', hc', hrest, ?_, ?_, by simp⟩
  · rw [hstk']; simp [sts, he]; exact herest
  · have : (List.drop n (top.st :: s1)).length = (eu.st :: rest').length := by rw [hd]
    simp at this ⊢; omega

theorem sim_under {V : Type} (P : Params V) (c : D.Cfg V) (s r : List Nat)
    (hs : sts c.stack = s ++ r)
    (h : rstep P.L P.errC P.accC P.rule (look P.eofVal c).1 s = .under)
    (c' : D.Cfg V) (hc' : D.step P c = .next c') :
    c'.rest = c.rest ∧ c'.stack.length ≤ r.length + 1 ∧ r ≠ [] := by
  obtain ⟨t, s1, v, lhs, n, rfl, hv, h1, h2, h3, hr, hn⟩ := rstep_under_inv h
  obtain ⟨top, below, hstk, htop, hbelow⟩ := sts_cons_inv (x := s1 ++ r) (by simpa using hs)
  have hbl : below.length = s1.length + r.length := by
    rw [← sts_length, hbelow, List.length_append]
  obtain ⟨top', below', v', hstk', hv', -, -, hcase⟩ := step_next_inv P c c' hc'
  rw [hstk] at hstk'
  cases hstk'
  subst htop
  rw [hv] at hv'
  cases hv'
  rcases hcase with ⟨hpos, -⟩ | ⟨-, hrest, lhs', n', u, rest', g, e, hr', hn', hd, -, -, -, hstk''⟩
  · exact absurd hpos h3
  · rw [hr] at hr'
    cases hr'
    have hl : ((top :: below).drop n).length = (u :: rest').length := by rw [hd]
    simp only [List.length_drop, List.length_cons] at hl
    refine ⟨hrest, ?_, ?_⟩
    · rw [hstk'']; simp only [List.length_cons]; omega
    · intro hr0; subst hr0; simp at hbl; omega

theorem sim_stop {V : Type} (P : Params V) (c : D.Cfg V) (s r : List Nat)
    (hs : sts c.stack = s ++ r) (hne : s ≠ [])
    (h : rstep P.L P.errC P.accC P.rule (look P.eofVal c).1 s = .stop)
    (c' : D.Cfg V) (hc' : D.step P c = .next c') :
    c'.rest = c.rest.tail ∧ c'.stack.length = c.stack.length + 1 ∧
      ∃ p v, P.L p (look P.eofVal c).1 = some v ∧ isShift P.errC P.accC v = true := by
  obtain ⟨top, below, v, hstk, hv, h1, h2, hcase⟩ := step_next_inv P c c' hc'
  rcases hcase with ⟨hpos, hrest, e, -, hstk'⟩ | ⟨h3, -, lhs, n, u, rest', g, e, hr, hn, hd, hg, hg0, -, -⟩
  · refine ⟨hrest, by rw [hstk', hstk]; simp, top.st, v, hv, ?_⟩
    simp [isShift, hpos, h1, h2]
  · exfalso
    cases s with
    | nil => exact hne rfl
    | cons t s1 =>
      rw [hstk] at hs
      simp only [sts, List.map_cons, List.cons_append, List.cons.injEq] at hs
      obtain ⟨htop, hbelow⟩ := hs
      subst htop
      by_cases hn1 : n ≤ s1.length
      · have hdrop : sts (u :: rest') = (top.st :: s1).drop n ++ r := by
          rw [← hd, sts_drop]
          simp only [sts, List.map_cons]
          rw [hbelow, ← List.cons_append, List.drop_append_of_le_length (by simp; omega)]
        cases hx : (top.st :: s1).drop n with
        | nil =>
          have : ((top.st :: s1).drop n).length = 0 := by rw [hx]; rfl
          simp at this; omega
        | cons y ys =>
          rw [hx] at hdrop
          simp only [sts, List.map_cons, List.cons_append, List.cons.injEq] at hdrop
          rw [← hdrop.1] at hx
          rw [rstep_reduce_next hv h1 h2 h3 hr hn1 hx hg hg0] at h
          cases h
      · rw [rstep_reduce_under hv h1 h2 h3 hr hn1] at h
        cases h

/-! ## the adjacency invariant -/

/-- every state on the stack occurs as a non-negative value in the row of the state below it,
    and the bottom state is 0 -/
inductive Good (L : Nat → Nat → Option Int) : List Nat → Prop
  | base : Good L [0]
  | cons {q p : Nat} {s : List Nat} :
      (∃ X v, L p X = some v ∧ 0 ≤ v ∧ q = v.toNat) → Good L (p :: s) → Good L (q :: p :: s)

theorem Good.drop {L : Nat → Nat → Option Int} : ∀ (n : Nat) {s : List Nat}, Good L s →
    n < s.length → Good L (s.drop n)
  | 0, _, h, _ => by simpa using h
  | n + 1, _, .base, hn => by simp at hn
  | n + 1, _, .cons _ h, hn => by
    simp only [List.drop_succ_cons]
    exact Good.drop n h (by simp at hn ⊢; omega)

theorem step_good {V : Type} (P : Params V) (c c' : D.Cfg V) (hg : Good P.L (sts c.stack))
    (h : D.step P c = .next c') : Good P.L (sts c'.stack) := by
  obtain ⟨top, below, v, hstk, hv, h1, h2, hcase⟩ := step_next_inv P c c' h
  rcases hcase with ⟨hpos, -, e, he, hstk'⟩ | ⟨-, -, lhs, n, u, rest', g, e, -, hn, hd, hgo, hg0, he, hstk'⟩
  · rw [hstk', show sts (e :: top :: below) = e.st :: top.st :: sts below from rfl, he]
    rw [hstk] at hg
    exact .cons ⟨_, v, hv, Int.le_of_lt hpos, rfl⟩ hg
  · rw [hstk', show sts (e :: u :: rest') = e.st :: u.st :: sts rest' from rfl, he]
    refine .cons ⟨_, g, hgo, Int.not_lt.mp hg0, rfl⟩ ?_
    have := Good.drop n hg (by rw [sts_length, hstk]; simp; omega)
    rw [← sts_drop, hstk, hd] at this
    exact this

/-! ## termination -/

/-- what `certTerm` establishes (Prop form) -/
structure TermOK (L : Nat → Nat → Option Int) (errC accC : Int) (rule : Nat → Option (Sym × Nat))
    (F : Nat) : Prop where
  bot : ∀ a, simHalts L errC accC rule F a [0] = true
  adj : ∀ p X v a, L p X = some v → 0 ≤ v → simHalts L errC accC rule F a [v.toNat, p] = true
  noEof : ∀ p v, L p 1 = some v → isShift errC accC v = false

theorem look_congr {V : Type} (e : V) (c c' : D.Cfg V) (h : c'.rest = c.rest) :
    look e c' = look e c := by
  unfold look; rw [h]

/-- one segment of a reduce phase: while the simulation from `s` (the top part of the stack)
    answers `next` the driver follows it; when it answers `stop` the driver halts or shifts, when
    it answers `under` the driver halts or cuts the stack down to at most `|r| + 1` entries -/
theorem segment {V : Type} (P : Params V) (hEof : ∀ p v, P.L p 1 = some v → isShift P.errC P.accC v = false)
    (N : Nat) : ∀ (F : Nat) (c : D.Cfg V) (s r : List Nat),
    simHalts P.L P.errC P.accC P.rule F (look P.eofVal c).1 s = true → s ≠ [] →
    sts c.stack = s ++ r → Good P.L (sts c.stack) →
    (∀ c', Good P.L (sts c'.stack) →
      (c'.rest.length < c.rest.length ∧ c'.stack.length ≤ s.length + r.length + F) ∨
      (c'.rest = c.rest ∧ c'.stack.length ≤ r.length + 1 ∧ r ≠ []) → HaltsIn P N c') →
    HaltsIn P (N + F) c
  | 0, c, s, r, h, _, _, _, _ => by simp [simHalts] at h
  | F + 1, c, s, r, h, hne, hs, hg, K => by
    have hlen : c.stack.length = s.length + r.length := by
      rw [← sts_length, hs, List.length_append]
    unfold simHalts at h
    split at h
    · -- stop
      rename_i hr
      by_cases hx : ∃ c', D.step P c = .next c'
      · obtain ⟨c', hc'⟩ := hx
        obtain ⟨hrest, hl, p, v, hv, hsh⟩ := sim_stop P c s r hs hne hr c' hc'
        have hrne : c.rest ≠ [] := by
          intro h0
          have : (look P.eofVal c).1 = 1 := by unfold look; rw [h0]
          rw [this] at hv
          rw [hEof p v hv] at hsh
          cases hsh
        have hlt : c'.rest.length < c.rest.length := by
          rw [hrest]
          cases hcr : c.rest with
          | nil => exact absurd hcr hrne
          | cons x xs => simp
        exact (HaltsIn.of_next hc' (K c' (step_good P c c' hg hc') (.inl ⟨hlt, by omega⟩))).mono
          (by omega)
      · exact (HaltsIn.of_not_next (fun c' hc' => hx ⟨c', hc'⟩)).mono (by omega)
    · -- under
      rename_i hr
      by_cases hx : ∃ c', D.step P c = .next c'
      · obtain ⟨c', hc'⟩ := hx
        have := sim_under P c s r hs hr c' hc'
        exact (HaltsIn.of_next hc' (K c' (step_good P c c' hg hc') (.inr this))).mono (by omega)
      · exact (HaltsIn.of_not_next (fun c' hc' => hx ⟨c', hc'⟩)).mono (by omega)
    · -- next
      rename_i s' hr
      obtain ⟨c', hc', hrest, hs', hl', hne'⟩ := sim_next P c s r s' hs hr
      rw [← look_congr P.eofVal c c' hrest] at h
      have := segment P hEof N F c' s' r h hne' hs' (step_good P c c' hg hc') (by
        intro c'' hg'' halt
        apply K c'' hg''
        rw [hrest] at halt
        rcases halt with ⟨h1, h2⟩ | h2
        · exact .inl ⟨h1, by omega⟩
        · exact .inr h2)
      exact HaltsIn.of_next hc' this

def termC (F m h : Nat) : Nat := (m + 1) * (h + m * F) * F

theorem termC_A1 (F m h : Nat) : F ≤ termC F m (h + 1) := by
  unfold termC
  calc F = 1 * 1 * F := by simp
    _ ≤ (m + 1) * (h + 1 + m * F) * F :=
      Nat.mul_le_mul_right _ (Nat.mul_le_mul (by omega) (by omega))

theorem termC_A3 (F m h : Nat) : termC F m h + F ≤ termC F m (h + 1) := by
  unfold termC
  have : (m + 1) * (h + 1 + m * F) * F = (m + 1) * (h + m * F) * F + (m + 1) * F := by
    rw [← Nat.add_mul, show h + 1 + m * F = (h + m * F) + 1 by omega, Nat.mul_add, Nat.mul_one]
  rw [this]
  have : F ≤ (m + 1) * F := Nat.le_mul_of_pos_left _ (by omega)
  omega

theorem termC_A2 (F m h : Nat) : termC F m (h + 1 + F) + F ≤ termC F (m + 1) (h + 1) := by
  unfold termC
  have e : h + 1 + F + m * F = h + 1 + (m + 1) * F := by rw [Nat.add_mul]; omega
  rw [e]
  have hX : 1 ≤ h + 1 + (m + 1) * F := by omega
  generalize h + 1 + (m + 1) * F = X at hX ⊢
  have e2 : (m + 1 + 1) * X * F = (m + 1) * X * F + X * F := by
    rw [← Nat.add_mul, Nat.succ_mul (m + 1) X]
  rw [e2]
  have : F ≤ X * F := Nat.le_mul_of_pos_left _ hX
  omega

/-- closed-form fuel bound for an input of `len` tokens -/
def termBound (F len : Nat) : Nat := termC F len 1

theorem halts_core {V : Type} (P : Params V) (F : Nat)
    (ok : TermOK P.L P.errC P.accC P.rule F) (m : Nat)
    (ihm : ∀ m', m' < m → ∀ (h : Nat) (c : D.Cfg V), Good P.L (sts c.stack) →
      c.rest.length ≤ m' → c.stack.length ≤ h → HaltsIn P (termC F m' h) c) :
    ∀ (h : Nat) (c : D.Cfg V), Good P.L (sts c.stack) → c.rest.length ≤ m →
      c.stack.length ≤ h → HaltsIn P (termC F m h) c := by
  intro h
  induction h with
  | zero =>
    intro c hg _ hl
    have : sts c.stack = [] := by
      have : c.stack = [] := List.eq_nil_of_length_eq_zero (by omega)
      rw [this]; rfl
    rw [this] at hg
    cases hg
  | succ h ihh =>
    intro c hg hm hl
    have key : ∀ s r : List Nat, s ≠ [] → sts c.stack = s ++ r →
        simHalts P.L P.errC P.accC P.rule F (look P.eofVal c).1 s = true →
        (r ≠ [] → r.length + 1 ≤ h) → HaltsIn P (termC F m (h + 1)) c := by
      intro s r hne hs hsim hr
      have hlen : c.stack.length = s.length + r.length := by
        rw [← sts_length, hs, List.length_append]
      have := segment P ok.noEof (termC F m (h + 1) - F) F c s r hsim hne hs hg (by
        intro c' hg' halt
        rcases halt with ⟨hlt, hl'⟩ | ⟨hrest, hl', hrne⟩
        · cases m with
          | zero => omega
          | succ m' =>
            have h1 := ihm m' (by omega) (h + 1 + F) c' hg' (by omega) (by omega)
            have h2 := termC_A2 F m' h
            exact h1.mono (by omega)
        · have h1 := ihh c' hg' (by rw [hrest]; exact hm) (by have := hr hrne; omega)
          have h2 := termC_A3 F m h
          exact h1.mono (by omega))
      have h3 := termC_A1 F m h
      exact this.mono (by omega)
    generalize hx : sts c.stack = x at hg
    cases hg with
    | base => exact key [0] [] (by simp) (by rw [hx]; rfl) (ok.bot _) (fun h => absurd rfl h)
    | @cons q p s2 hadj hg2 =>
      obtain ⟨X, v, hv, hv0, rfl⟩ := hadj
      refine key [v.toNat, p] s2 (by simp) (by rw [hx]; rfl) (ok.adj p X v _ hv hv0) ?_
      intro _
      have : c.stack.length = s2.length + 2 := by rw [← sts_length, hx]; rfl
      omega

theorem halts_of_ok {V : Type} (P : Params V) (F : Nat)
    (ok : TermOK P.L P.errC P.accC P.rule F) : ∀ (m h : Nat) (c : D.Cfg V),
    Good P.L (sts c.stack) → c.rest.length ≤ m → c.stack.length ≤ h → HaltsIn P (termC F m h) c := by
  intro m
  induction m using Nat.strongRecOn with
  | _ m ih => exact halts_core P F ok m ih

/-! ## from the Bool certificate to `TermOK` -/

theorem ncols_foldl_le (T : Dense) : ∀ (m : Nat), m ≤ T.foldl (fun m row => max m row.length) m ∧
    ∀ row ∈ T, row.length ≤ T.foldl (fun m row => max m row.length) m := by
  induction T with
  | nil => intro m; simp
  | cons r T ih =>
    intro m
    simp only [List.foldl_cons, List.mem_cons, forall_eq_or_imp]
    obtain ⟨h1, h2⟩ := ih (max m r.length)
    exact ⟨by omega, by omega, h2⟩

theorem cell_some {T : Dense} {q a : Nat} {v : Int} (h : cell T q a = some v) :
    ∃ row, T[q]? = some row ∧ row[a]? = some v := by
  unfold cell at h
  cases hq : T[q]? with
  | none => rw [hq] at h; cases h
  | some row => rw [hq] at h; exact ⟨row, rfl, h⟩

theorem cell_lt_ncols {T : Dense} {q a : Nat} {v : Int} (h : cell T q a = some v) : a < ncols T := by
  obtain ⟨row, hq, ha⟩ := cell_some h
  have h1 := (ncols_foldl_le T 0).2 row (List.mem_of_getElem? hq)
  have h2 : a < row.length := by
    obtain ⟨h2, -⟩ := List.getElem?_eq_some_iff.mp ha
    exact h2
  unfold ncols; omega

theorem simAll_all {T : Dense} {errC accC : Int} {rule : Nat → Option (Sym × Nat)} {F : Nat}
    (hF : 0 < F) {s : List Nat}
    (h : simAll (cell T) errC accC rule F (ncols T) s = true) (a : Nat) :
    simHalts (cell T) errC accC rule F a s = true := by
  by_cases ha : a < ncols T
  · unfold simAll at h
    exact List.all_eq_true.mp h a (List.mem_range.mpr ha)
  · obtain ⟨F', rfl⟩ : ∃ F', F = F' + 1 := ⟨F - 1, by omega⟩
    have : rstep (cell T) errC accC rule a s = .stop := by
      unfold rstep
      split
      · rfl
      · rename_i t s1
        cases hc : cell T t a with
        | none => rfl
        | some v => exact absurd (cell_lt_ncols hc) ha
    unfold simHalts
    rw [this]

theorem certTermWith_ok {T : Dense} {errC accC : Int} {rule : Nat → Option (Sym × Nat)} {F : Nat}
    (h : certTermWith (cell T) errC accC rule T F = true) : TermOK (cell T) errC accC rule F := by
  unfold certTermWith certTermCore at h
  simp only [Bool.and_eq_true, decide_eq_true_eq] at h
  obtain ⟨⟨⟨hF, h0⟩, hadj⟩, heof⟩ := h
  refine ⟨simAll_all hF h0, ?_, ?_⟩
  · intro p X v a hv hv0
    obtain ⟨row, hq, hX⟩ := cell_some hv
    have h1 := List.all_eq_true.mp hadj (row, p) (List.mem_zipIdx_iff_getElem?.mpr hq)
    have h2 := List.all_eq_true.mp h1 v (List.mem_of_getElem? hX)
    simp only [Bool.or_eq_true, decide_eq_true_eq] at h2
    rcases h2 with (h2 | h2) | h2
    · omega
    · obtain ⟨F', rfl⟩ : ∃ F', F = F' + 1 := ⟨F - 1, by omega⟩
      have hnone : cell T v.toNat a = none := by
        unfold cell
        rw [List.getElem?_eq_none h2]; rfl
      unfold simHalts rstep
      simp only [hnone]
    · exact simAll_all hF h2 a
  · intro p v hv
    obtain ⟨row, hq, hX⟩ := cell_some hv
    have h1 := List.all_eq_true.mp heof row (List.mem_of_getElem? hq)
    rw [hX] at h1
    simpa using h1

theorem certTerm_ok {V : Type} {G : Grammar} {T : Dense} {n F : Nat}
    (h : certTerm G T n F = true) (sem : Nat → List V → V) (eofVal : V) :
    TermOK (dparams G T n sem eofVal).L (dparams G T n sem eofVal).errC
      (dparams G T n sem eofVal).accC (dparams G T n sem eofVal).rule F :=
  certTermWith_ok h

/-! ## the array-backed evaluator computes the same certificate -/

theorem cellA_eq (T : Dense) : cellA (T.map List.toArray).toArray = cell T := by
  funext q a
  unfold cellA cell
  rw [List.getElem?_toArray, List.getElem?_map]
  cases T[q]? <;> simp

theorem ruleA_eq (G : Grammar) :
    ruleA (G.rules.map fun rl => (rl.lhs, rl.rhs.length)).toArray = (tparams G [] 0).rule := by
  funext r
  unfold ruleA tparams dparams
  simp only [List.getElem?_toArray, List.getElem?_map]

theorem certTermFast_eq (G : Grammar) (T : Dense) (n F : Nat) :
    certTermFast G T n F = certTerm G T n F := by
  unfold certTermFast certTerm
  rw [cellA_eq, ruleA_eq]
  rfl

end Y.Term
