import Yv.Model.Core
/-! Prototype: executable mirror of TrySplitTable + findMaxOccurence (first-max tie rule of the F14
    repair) + PackTable (with the F5 repair) + the generated packed lookup. -/
namespace PackX

/-- first value in row order whose count is maximal (the repaired findMaxOccurence) -/
def findMax (row : List Int) : Int :=
  let cnt (v : Int) : Nat := (row.filter (· == v)).length
  (row.foldl (fun (best : Int × Nat) v => if cnt v > best.2 then (v, cnt v) else best) (0, 0)).1

def blank (row : List Int) (d : Int) : List Int := row.map fun v => if v == d then 0 else v

def transpose (rows : List (List Int)) (ncols : Nat) : List (List Int) :=
  (List.range ncols).map fun j => rows.map fun r => r.getD j 0

structure Split where
  tab : List (List Int)      -- action columns ++ blanked goto columns, per state
  actdef : List Int
  gtdef : List Int

def trySplit (tab : List (List Int)) (nT : Nat) : Split :=
  let nSyms := (tab.headD []).length
  let act := tab.map (·.take (nT + 1))
  let actdef := act.map findMax
  let actB := (act.zip actdef).map fun (r, d) => blank r d
  let gotoCols := transpose (tab.map (·.drop (nT + 1))) (nSyms - nT - 1)   -- one row per nonterminal
  let gtdef := gotoCols.map findMax
  let gotoB := (gotoCols.zip gtdef).map fun (c, d) => blank c d
  let gotoRows := transpose gotoB tab.length
  { tab := (actB.zip gotoRows).map fun (a, g) => a ++ g, actdef := actdef, gtdef := gtdef }

def nzCols (row : List Int) : List Nat :=
  (List.range row.length).filter fun j => row.getD j 0 != 0

def fits (entry : Array Bool) (d : Nat) (cols : List Nat) : Bool :=
  cols.all fun j => !(entry.getD (d + j) false)

def firstFit (entry : Array Bool) (cols : List Nat) : Nat → Nat → Nat
  | 0, d => d
  | fuel+1, d => if fits entry d cols then d else firstFit entry cols fuel (d + 1)

structure Packed where
  act : List Int
  off : List Int
  check : List Int

def packTable (tab : List (List Int)) : Packed :=
  let n := tab.length
  let ncols := (tab.headD []).length
  let idx := List.range n
  -- rows by decreasing non-zero count, stable
  let order := idx.mergeSort fun i j => (nzCols (tab.getD i [])).length ≥ (nzCols (tab.getD j [])).length
  let size := n * ncols
  let (entry, disp, maxIdx) := order.foldl (fun (st : Array Bool × Array Nat × Nat) i =>
    let (entry, disp, mx) := st
    let cols := nzCols (tab.getD i [])
    let d := firstFit entry cols (size + 1) 0
    let entry := cols.foldl (fun e j => e.setIfInBounds (d + j) true) entry
    let mx := cols.foldl (fun m j => max m (d + j)) mx
    (entry, disp.setIfInBounds i d, mx)) (Array.replicate size false, Array.replicate n 0, 0)
  let _ := entry
  let ret0 : Array Int := Array.replicate (maxIdx + 1) 0
  let chk0 : Array Int := Array.replicate (maxIdx + 1) (-1)
  let (ret, chk) := idx.foldl (fun (st : Array Int × Array Int) i =>
    (nzCols (tab.getD i [])).foldl (fun st k =>
      let p := disp[i]! + k
      (st.1.setIfInBounds p ((tab.getD i []).getD k 0), st.2.setIfInBounds p (i : Int))) st) (ret0, chk0)
  -- trim leading zero slots (repaired loop)
  let k := (ret.toList.takeWhile (· == 0)).length
  { act := ret.toList.drop k, off := disp.toList.map (fun (d : Nat) => (Int.ofNat d) - (Int.ofNat k)), check := chk.toList.drop k }

/-- the lookup the generated parser performs -/
def lookup (p : Packed) (s : Split) (nT : Nat) (err : Int) (q a : Nat) : Int :=
  let o := p.off.getD q 0 + a
  if o < 0 then err
  else if o.toNat ≥ p.check.length || p.check.getD o.toNat (-1) != q then
    if a > nT then s.gtdef.getD (a - nT - 1) 0 else s.actdef.getD q 0
  else p.act.getD o.toNat 0

end PackX
