import Yv.Gen.Facts
import Yv.Model.Visitor
/-! # C14 — the output does not depend on Go's randomised map iteration order

Go randomises the order of every `range` over a map, yet yaccgo must write the same bytes on every
run.  `Gen.mapRangeSites` (regenerated from the Go sources on every run) lists every `range` over
a map in non-test code.  This file

1. pins that list to a hand-written expectation `expected`, which also says WHY each site is
   harmless (`Kind`); `sites_as_expected` breaks as soon as a new map loop appears (or one moves);
2. proves, for every kind, that the result of such a loop is the same for every enumeration order,
   i.e. is invariant under `List.Perm` of the enumerated entries:
   * `sortedKeys`     — `sort_perm_eq`, `sortedKeys_perm_eq`, `tabSorted_perm_eq`
   * `disjointWrites` — `writes_perm_eq`
   * `setOnly`        — `mem_perm`, `mem_perm_inner`, `mem_foldl_perm`, `reach_congr`
   * `emptinessOnly`  — `filter_isEmpty_perm`
   * `debugPrint`     — nothing to prove: these loops only print to stdout, which is not part of
     the output file (so are the warnings of `CheckAndResolveConflict` and the names printed by
     `PrintInfLoop`);
3. composes them in a SCHEMATIC model `generate` of the places where a map order enters
   (`MapOrders` = one arbitrary enumeration per map), with `C14_order_irrelevant`.

What is NOT proved here: that the Go loop bodies have the shape their `Kind` claims (that is read
off the sources: `expected` is a reviewed list), and that the consumers of the closure results use
them as sets only.  `generate` is not a model of yaccgo's generator (that is `Yv.Model.*`, which is
deterministic by construction because it iterates `Tab.sorted`); it only shows how the four
lemmas cover the five kinds of data flow. -/
namespace C14

inductive Kind
  | sortedKeys | disjointWrites | setOnly | emptinessOnly | debugPrint
deriving DecidableEq, Repr

def expected : List ((String × String × String) × Kind) := [
  (("grammar", "*Grammar.CalculateCanTerminate", "field VnSet"), .emptinessOnly),
  (("lalr", "*LALR1.CaclIncludes", "field DRSet"), .setOnly),
  (("lalr", "*LALR1.CalcAllReadRelations", "field DRSet"), .setOnly),
  (("lalr", "*LALR1.CalcFollowSet", "field ReadSet"), .setOnly),
  (("lalr", "*LALR1.CalcLookbacks", "field DRSet"), .setOnly),
  (("lalr", "*LALR1.CalcReadSet", "field DRSet"), .setOnly),
  (("lalr", "*LALR1.CheckAndResolveConflict", "map[int][]*lalr.Action"), .disjointWrites),
  (("lalr", "*LALR1.GenTable", "map[int][]*lalr.Action"), .disjointWrites),
  (("lalr", "*LALR1.ShowDrSet", "field DRSet"), .debugPrint),
  (("lalr", "*LALR1.ShowFollowSet", "field FollowSet"), .debugPrint),
  (("lalr", "*LALR1.ShowLookAheadSet", "field LookAheadSet"), .debugPrint),
  (("lalr", "*LALR1.ShowReadSet", "field ReadSet"), .debugPrint),
  (("parser", "sortedIds", "map[string]*parser.Idendity"), .sortedKeys),
  (("utils", "PackTable", "map[int][]int"), .disjointWrites)
]

/-- every map loop of the current sources is one of the reviewed ones: no site occurs more often than the review
    lists it (a loop that was REMOVED, e.g. because a map became a slice, needs no review) -/
theorem sites_as_expected :
    Gen.mapRangeSites.all (fun s => decide (Gen.mapRangeSites.count s ≤ (expected.map Prod.fst).count s)) = true := by
  decide

/-- every kind with a proof obligation occurs, and there are exactly 14 sites -/
example : expected.length = 14 ∧ (expected.map Prod.snd).eraseDups.length = 5 := by decide

/-! ## sortedKeys -/

theorem sort_perm_eq {α : Type} (le : α → α → Bool)
    (trans : ∀ a b c, le a b → le b c → le a c)
    (total : ∀ a b, le a b || le b a)
    {l₁ l₂ : List α}
    (antisymm : ∀ a b, a ∈ l₁ → b ∈ l₁ → le a b → le b a → a = b)
    (h : l₁.Perm l₂) : l₁.mergeSort le = l₂.mergeSort le := by
  have p₁ := List.mergeSort_perm l₁ le
  have p₂ := List.mergeSort_perm l₂ le
  apply List.Perm.eq_of_pairwise (le := fun a b => le a b = true)
  · intro a b ha hb hab hba
    exact antisymm a b (p₁.mem_iff.mp ha) (h.mem_iff.mpr (p₂.mem_iff.mp hb)) hab hba
  · exact List.pairwise_mergeSort trans total l₁
  · exact List.pairwise_mergeSort trans total l₂
  · exact p₁.trans (h.trans p₂.symm)

theorem strLe_iff (a b : String) : Visitor.strLe a b = true ↔ a ≤ b := by
  unfold Visitor.strLe
  simp only [Bool.or_eq_true, decide_eq_true_eq, beq_iff_eq]
  constructor
  · rintro (h | h)
    · exact String.not_lt.mp (String.lt_asymm h)
    · subst h; exact String.le_refl a
  · intro h
    by_cases h' : a < b
    · exact .inl h'
    · exact .inr (String.le_antisymm h (String.not_lt.mp h'))

theorem strLe_trans (a b c : String) :
    Visitor.strLe a b = true → Visitor.strLe b c = true → Visitor.strLe a c = true := by
  simp only [strLe_iff]; exact String.le_trans

theorem strLe_total (a b : String) : (Visitor.strLe a b || Visitor.strLe b a) = true := by
  simp only [Bool.or_eq_true, strLe_iff]; exact String.le_total a b

theorem strLe_antisymm (a b : String) :
    Visitor.strLe a b = true → Visitor.strLe b a = true → a = b := by
  simp only [strLe_iff]; exact String.le_antisymm

/-- `sortedIds`: whatever order the keys come out of the map, the sorted list is the same -/
theorem sortedKeys_perm_eq {l₁ l₂ : List String} (h : l₁.Perm l₂) :
    l₁.mergeSort Visitor.strLe = l₂.mergeSort Visitor.strLe :=
  sort_perm_eq _ strLe_trans strLe_total (fun a b _ _ => strLe_antisymm a b) h

theorem eq_of_key_eq {α κ : Type} (key : α → κ) :
    ∀ {l : List α}, (l.map key).Nodup → ∀ a b, a ∈ l → b ∈ l → key a = key b → a = b
  | [], _, _, _, ha, _, _ => by cases ha
  | x :: l, hd, a, b, ha, hb, hk => by
    simp only [List.map_cons, List.nodup_cons, List.mem_map, not_exists, not_and] at hd
    simp only [List.mem_cons] at ha hb
    rcases ha with rfl | ha <;> rcases hb with rfl | hb
    · rfl
    · exact absurd hk.symm (hd.1 b hb)
    · exact absurd hk (hd.1 a ha)
    · exact eq_of_key_eq key hd.2 a b ha hb hk

/-- records sorted by a key which is distinct among them (the shape of `Visitor.Tab.sorted`) -/
theorem sortByKey_perm_eq {α : Type} (key : α → String) {l₁ l₂ : List α}
    (hd : (l₁.map key).Nodup) (h : l₁.Perm l₂) :
    l₁.mergeSort (fun a b => Visitor.strLe (key a) (key b)) =
      l₂.mergeSort (fun a b => Visitor.strLe (key a) (key b)) :=
  sort_perm_eq _ (fun a b c => strLe_trans (key a) (key b) (key c))
    (fun a b => strLe_total (key a) (key b))
    (fun a b ha hb hab hba => eq_of_key_eq key hd a b ha hb (strLe_antisymm _ _ hab hba)) h

theorem tabSorted_perm_eq {t₁ t₂ : Visitor.Tab} (hd : (t₁.map (·.name)).Nodup) (h : t₁.Perm t₂) :
    t₁.sorted = t₂.sorted := sortByKey_perm_eq (fun i : Visitor.Id => i.name) hd h

/-! ## disjointWrites -/

def writeAll {β : Type} (init : List β) (ws : List (Nat × β)) : List β :=
  ws.foldl (fun a w => a.set w.1 w.2) init

theorem writes_perm_eq {β : Type} (init : List β) (ws₁ ws₂ : List (Nat × β)) (h : ws₁.Perm ws₂)
    (hd : (ws₁.map Prod.fst).Nodup) :
    ws₁.foldl (fun a w => a.set w.1 w.2) init = ws₂.foldl (fun a w => a.set w.1 w.2) init := by
  apply h.foldl_eq'
  intro x hx y hy z
  by_cases hk : x.1 = y.1
  · rw [eq_of_key_eq Prod.fst hd x y hx hy hk]
  · exact List.set_comm _ _ hk

/-! ## setOnly -/

theorem mem_perm {α γ : Type} (f : α → List γ) {l₁ l₂ : List α} (h : l₁.Perm l₂) (x : γ) :
    x ∈ l₁.flatMap f ↔ x ∈ l₂.flatMap f := by
  simp only [List.mem_flatMap, h.mem_iff]

/-- the shape of `CalcLookbacks`: a fixed outer loop around the map loop -/
theorem mem_perm_inner {α δ γ : Type} (outer : List δ) (f : δ → α → List γ) {l₁ l₂ : List α}
    (h : l₁.Perm l₂) (x : γ) :
    x ∈ outer.flatMap (fun d => l₁.flatMap (f d)) ↔ x ∈ outer.flatMap (fun d => l₂.flatMap (f d)) := by
  simp only [List.mem_flatMap, h.mem_iff]

/-- the same for the accumulation `res = append(res, f(e)...)` written as a loop -/
theorem mem_foldl_perm {α γ : Type} (f : α → List γ) {l₁ l₂ : List α} (h : l₁.Perm l₂)
    (acc : List γ) (x : γ) :
    x ∈ l₁.foldl (fun r e => r ++ f e) acc ↔ x ∈ l₂.foldl (fun r e => r ++ f e) acc := by
  have key : ∀ (l : List α) (acc : List γ), l.foldl (fun r e => r ++ f e) acc = acc ++ l.flatMap f := by
    intro l
    induction l with
    | nil => intro acc; simp
    | cons e l ih => intro acc; simp [ih, List.append_assoc]
  simp only [key, List.mem_append, mem_perm f h]

/-! ## emptinessOnly -/

theorem filter_isEmpty_perm {α : Type} (p : α → Bool) {l₁ l₂ : List α} (h : l₁.Perm l₂) :
    (l₁.filter p).isEmpty = (l₂.filter p).isEmpty :=
  (h.filter p).isEmpty_eq

theorem any_perm {α : Type} (p : α → Bool) {l₁ l₂ : List α} (h : l₁.Perm l₂) :
    l₁.any p = l₂.any p := by
  rw [Bool.eq_iff_iff]; simp only [List.any_eq_true, h.mem_iff]

/-! ## a schematic generation model: every place where a map order enters -/

/-- the order-free data of a run (what the maps contain is a function of the input only) -/
structure Params where
  /-- number of symbols = length of a table row -/
  width : Nat
  errCode : Int
  /-- `CheckAndResolveConflict` on the candidate actions of one symbol -/
  resolve : List Int → List Int
  /-- `GenTable`: the cell for a resolved entry; `none` = the ERROR action, nothing is written -/
  cell : List Int → Option Int
  /-- `PackTable`: length of the packed array, displacement of each row, the unpacked table -/
  packLen : Nat
  rowOff : Nat → Nat
  tableAt : Nat → Nat → Int
  /-- closure: iteration bound, the relation edges contributed by one map entry, initial sets -/
  fuel : Nat
  edgesOf : Nat × List Nat → List (Nat × Nat)
  init : Nat → List Nat
  canTerminate : Nat → Bool

/-- the two map loops for one automaton state -/
structure StateOrders where
  /-- `action_set` as enumerated by `CheckAndResolveConflict`: (symbol, candidate actions) -/
  chk : List (Nat × List Int)
  /-- the keys of the resolved set as enumerated by `GenTable` -/
  gen : List Nat
deriving DecidableEq, Repr

/-- one arbitrary enumeration for every map that is ranged over -/
structure MapOrders where
  /-- keys of the identifier table (`sortedIds`) -/
  idKeys : List String
  /-- per state (states are in a slice: fixed order) -/
  states : List StateOrders
  /-- `PackTable`: row ↦ its non-zero columns -/
  nonZeroPos : List (Nat × List Nat)
  /-- `DRSet` / `ReadSet`: transition ↦ set; gives the node list `X` and the relation `R` -/
  drSet : List (Nat × List Nat)
  /-- `g.VnSet` -/
  vnSet : List Nat
deriving DecidableEq, Repr

/-- the map after `CheckAndResolveConflict` (indexed by symbol): `action_set[k] = resolve v` -/
def resolved (P : Params) (s : StateOrders) : List (List Int) :=
  writeAll (List.replicate P.width []) (s.chk.map fun e => (e.1, P.resolve e.2))

def rowWrites (P : Params) (s : StateOrders) : List (Nat × Int) :=
  s.gen.filterMap fun k => (P.cell ((resolved P s).getD k [])).map fun c => (k, c)

/-- `GenTable`: `row[k] = cell(set[k])` for every entry of the resolved set -/
def row (P : Params) (s : StateOrders) : List Int :=
  writeAll (List.replicate P.width P.errCode) (rowWrites P s)

/-- `PackTable` step 4: `ret[row[i]+k] = table[i][k]; check[row[i]+k] = i` -/
def packWrites (P : Params) (nz : List (Nat × List Nat)) : List (Nat × Int × Int) :=
  nz.flatMap fun e => e.2.map fun k => (P.rowOff e.1 + k, P.tableAt e.1 k, (e.1 : Int))

def packed (P : Params) (nz : List (Nat × List Nat)) : List (Int × Int) :=
  writeAll (List.replicate P.packLen (0, -1)) (packWrites P nz)

/-- `y` is reachable from `x` in at most `n` steps of the relation given as an edge LIST; the list
    is looked at through `any` only -/
def reach (E : List (Nat × Nat)) : Nat → Nat → Nat → Bool
  | 0, x, y => x == y
  | n + 1, x, y => x == y || E.any fun e => e.1 == x && reach E n e.2 y

/-- membership test of the closure result `F x = ⋃ { init y | x R* y, y ∈ X }` -/
def lookMem (P : Params) (dr : List (Nat × List Nat)) (x t : Nat) : Bool :=
  (dr.map Prod.fst).any fun y => reach (dr.flatMap P.edgesOf) P.fuel x y && (P.init y).contains t

structure Output where
  sortedIds : List String
  table : List (List Int)
  packed : List (Int × Int)
  /-- the closure result, as the membership test on every (node, terminal) -/
  lookMem : Nat → Nat → Bool
  /-- `CalculateCanTerminate` found nothing -/
  canTerminate : Bool

def generate (P : Params) (o : MapOrders) : Output where
  sortedIds := o.idKeys.mergeSort Visitor.strLe
  table := o.states.map (row P)
  packed := packed P o.nonZeroPos
  lookMem := lookMem P o.drSet
  canTerminate := (o.vnSet.filter fun x => !P.canTerminate x).isEmpty

/-! ### the same maps, enumerated differently -/

def Pointwise {α : Type} (R : α → α → Prop) : List α → List α → Prop
  | [], [] => True
  | a :: as, b :: bs => R a b ∧ Pointwise R as bs
  | _, _ => False

def StateOrders.Same (s s' : StateOrders) : Prop := s.chk.Perm s'.chk ∧ s.gen.Perm s'.gen

/-- a Go map has pairwise distinct keys -/
def StateOrders.Distinct (s : StateOrders) : Prop := (s.chk.map Prod.fst).Nodup ∧ s.gen.Nodup

structure MapOrders.Same (o o' : MapOrders) : Prop where
  idKeys : o.idKeys.Perm o'.idKeys
  states : Pointwise StateOrders.Same o.states o'.states
  nonZeroPos : o.nonZeroPos.Perm o'.nonZeroPos
  drSet : o.drSet.Perm o'.drSet
  vnSet : o.vnSet.Perm o'.vnSet

structure MapOrders.Distinct (P : Params) (o : MapOrders) : Prop where
  states : ∀ s ∈ o.states, s.Distinct
  /-- the packed positions do not overlap (established by `PackTable` step 3; see C05) -/
  packPos : ((packWrites P o.nonZeroPos).map Prod.fst).Nodup

theorem resolved_perm (P : Params) {s s' : StateOrders} (h : s.Same s') (hd : s.Distinct) :
    resolved P s = resolved P s' := by
  unfold resolved writeAll
  apply writes_perm_eq _ _ _ (h.1.map _)
  rw [List.map_map]; exact hd.1

theorem nodup_keys_filterMap {β : Type} (g : Nat → Option β) :
    ∀ {l : List Nat}, l.Nodup → ((l.filterMap fun k => (g k).map fun c => (k, c)).map Prod.fst).Nodup := by
  intro l hl
  have : (l.filterMap fun k => (g k).map fun c => (k, c)).map Prod.fst = l.filter fun k => (g k).isSome := by
    induction l with
    | nil => rfl
    | cons k l ih =>
      cases hg : g k <;> simp [hg, ih (List.nodup_cons.mp hl).2]
  rw [this]; exact List.Pairwise.filter _ hl

theorem row_perm (P : Params) {s s' : StateOrders} (h : s.Same s') (hd : s.Distinct) :
    row P s = row P s' := by
  unfold row rowWrites writeAll
  rw [← resolved_perm P h hd]
  exact writes_perm_eq _ _ _ (h.2.filterMap _) (nodup_keys_filterMap _ hd.2)

theorem table_perm (P : Params) : ∀ {ss ss' : List StateOrders},
    Pointwise StateOrders.Same ss ss' → (∀ s ∈ ss, s.Distinct) → ss.map (row P) = ss'.map (row P)
  | [], [], _, _ => rfl
  | s :: ss, s' :: ss', h, hd => by
    simp only [List.map_cons]
    rw [row_perm P h.1 (hd s List.mem_cons_self),
      table_perm P h.2 fun t ht => hd t (List.mem_cons_of_mem _ ht)]
  | [], _ :: _, h, _ => h.elim
  | _ :: _, [], h, _ => h.elim

theorem packed_perm (P : Params) {nz nz' : List (Nat × List Nat)} (h : nz.Perm nz')
    (hd : ((packWrites P nz).map Prod.fst).Nodup) : packed P nz = packed P nz' :=
  writes_perm_eq _ _ _ (h.flatMap_right _) hd

theorem reach_congr {E E' : List (Nat × Nat)} (h : ∀ e, e ∈ E ↔ e ∈ E') :
    ∀ n x y, reach E n x y = reach E' n x y
  | 0, _, _ => rfl
  | n + 1, x, y => by
    rw [Bool.eq_iff_iff]
    simp only [reach, Bool.or_eq_true, List.any_eq_true, Bool.and_eq_true, h, reach_congr h n]

theorem lookMem_perm (P : Params) {dr dr' : List (Nat × List Nat)} (h : dr.Perm dr') (x t : Nat) :
    lookMem P dr x t = lookMem P dr' x t := by
  unfold lookMem
  rw [any_perm _ (h.map _)]
  congr 1; funext y
  rw [reach_congr (mem_perm P.edgesOf h)]

/-- **C14**: the output does not depend on the order in which any of the maps is enumerated -/
theorem C14_order_irrelevant (P : Params) (o o' : MapOrders) (h : o.Same o') (hd : o.Distinct P) :
    generate P o = generate P o' := by
  unfold generate
  congr 1
  · exact sortedKeys_perm_eq h.idKeys
  · exact table_perm P h.states hd.states
  · exact packed_perm P h.nonZeroPos hd.packPos
  · funext x t; exact lookMem_perm P h.drSet x t
  · exact filter_isEmpty_perm _ h.vnSet

/-! ## non-vacuity: two different enumerations of three-entry maps -/

def P₀ : Params where
  width := 4
  errCode := -1
  resolve := fun v => v.take 1
  cell := fun v => match v with
    | [] => none
    | a :: _ => if a = 0 then none else some a
  packLen := 6
  rowOff := fun i => i
  tableAt := fun i k => ((10 * i + k : Nat) : Int)
  fuel := 3
  edgesOf := fun e => e.2.map fun y => (e.1, y)
  init := fun y => [y + 100]
  canTerminate := fun x => x != 7

def ordA : MapOrders where
  idKeys := ["b", "a", "c"]
  states := [⟨[(0, [5, 6]), (2, [7]), (3, [0])], [0, 2, 3]⟩]
  nonZeroPos := [(0, [0, 1]), (1, [1]), (2, [1, 3])]
  drSet := [(0, [1]), (1, [2]), (2, [])]
  vnSet := [0, 1, 2]

def ordB : MapOrders where
  idKeys := ["c", "a", "b"]
  states := [⟨[(3, [0]), (0, [5, 6]), (2, [7])], [2, 3, 0]⟩]
  nonZeroPos := [(2, [1, 3]), (0, [0, 1]), (1, [1])]
  drSet := [(2, []), (1, [2]), (0, [1])]
  vnSet := [1, 2, 0]

theorem ordA_same_ordB : ordA.Same ordB where
  idKeys := by decide
  states := ⟨⟨by decide, by decide⟩, trivial⟩
  nonZeroPos := by decide
  drSet := by decide
  vnSet := by decide

theorem ordA_distinct : ordA.Distinct P₀ where
  states := by
    intro s hs
    have : s = ⟨[(0, [5, 6]), (2, [7]), (3, [0])], [0, 2, 3]⟩ := by simpa [ordA] using hs
    subst this; exact ⟨by decide, by decide⟩
  packPos := by decide

example : ordA.vnSet ≠ ordB.vnSet ∧ ordA.drSet ≠ ordB.drSet ∧ ordA.nonZeroPos ≠ ordB.nonZeroPos
    ∧ ordA.states ≠ ordB.states := by decide

example : generate P₀ ordA = generate P₀ ordB :=
  C14_order_irrelevant P₀ ordA ordB ordA_same_ordB ordA_distinct

/-- the components are what one expects (and not constants) -/
example : (generate P₀ ordA).table = [[5, -1, 7, -1]] ∧ (generate P₀ ordB).table = [[5, -1, 7, -1]] := by
  decide
example : (generate P₀ ordA).packed = [(0, 0), (1, 0), (11, 1), (21, 2), (0, -1), (23, 2)]
    ∧ (generate P₀ ordB).packed = [(0, 0), (1, 0), (11, 1), (21, 2), (0, -1), (23, 2)] := by decide
example : (generate P₀ ordA).lookMem 0 102 = true ∧ (generate P₀ ordB).lookMem 0 102 = true
    ∧ (generate P₀ ordA).lookMem 2 100 = false ∧ (generate P₀ ordB).lookMem 2 100 = false := by decide
example : (generate P₀ ordA).canTerminate = true ∧ (generate P₀ ordB).canTerminate = true
    ∧ (generate P₀ { ordB with vnSet := [1, 7, 0] }).canTerminate = false := by decide
example : (generate P₀ ordA).sortedIds = ["a", "b", "c"] ∧ (generate P₀ ordB).sortedIds = ["a", "b", "c"] := by
  simp [generate, ordA, ordB, List.mergeSort, Visitor.strLe]

/-- the distinct-key hypothesis of `writes_perm_eq` cannot be dropped -/
example : writeAll [0] [(0, 1), (0, 2)] ≠ writeAll [0] [(0, 2), (0, 1)] := by decide

end C14
