import Yv.Model.ArrDrive
/-! The array-and-pointer driver `Y.AD.astep` refines the list driver `Y.D.step`. -/
namespace Y.AD
open Y.D

namespace AStack
variable {V : Type}

theorem inv_push (s : AStack V) (e : Entry V) (h : Inv s) : Inv (push s e) := by
  unfold Inv push at *
  split <;> simp <;> omega

theorem inv_pop (s : AStack V) (n : Nat) (h : Inv s) : Inv (pop s n) := by
  unfold Inv pop at *; simp; omega

theorem sp_push (s : AStack V) (e : Entry V) : (push s e).sp = s.sp + 1 := by
  unfold push; split <;> rfl

theorem sp_pop (s : AStack V) (n : Nat) : (pop s n).sp = s.sp - n := rfl

theorem abs_push (s : AStack V) (e : Entry V) (h : Inv s) : abs (push s e) = e :: abs s := by
  unfold Inv at h
  unfold push abs
  split
  · rename_i hge
    have : s.sp = s.a.length := by omega
    have e1 : List.take (s.a.length + 1) (s.a ++ [e]) = s.a ++ [e] :=
      List.take_of_length_le (by simp)
    simp [this, e1]
  · rename_i hlt
    have hlt' : s.sp < s.a.length := by omega
    simp only
    rw [List.take_add_one]
    simp [List.take_set_of_le (Nat.le_refl _), List.getElem?_set_self hlt']

theorem abs_pop (s : AStack V) (n : Nat) (h : Inv s) (hn : n ≤ s.sp) :
    abs (pop s n) = (abs s).drop n := by
  unfold Inv at h
  unfold pop abs
  simp only
  rw [List.drop_reverse, List.take_take]
  congr 1
  have h1 : min (s.sp - n) s.sp = s.sp - n := by omega
  have : (List.take s.sp s.a).length = s.sp := by simp [List.length_take]; omega
  rw [this, h1]

theorem length_abs (s : AStack V) (h : Inv s) : (abs s).length = s.sp := by
  unfold Inv at h; unfold abs; simp; omega

/-- the entry `Stack[sp-1]` is the head of the live part -/
theorem abs_top (s : AStack V) (h : Inv s) (h1 : 1 ≤ s.sp) :
    ∃ top, s.top? = some top ∧ abs s = top :: abs (pop s 1) := by
  unfold Inv at h
  have hlt : s.sp - 1 < s.a.length := by omega
  refine ⟨s.a[s.sp - 1], ?_, ?_⟩
  · unfold top?; exact List.getElem?_eq_getElem hlt
  · unfold abs pop
    have e : s.sp = (s.sp - 1) + 1 := by omega
    simp only
    conv => lhs; rw [e, List.take_add_one]
    simp [List.getElem?_eq_getElem hlt]

/-- `Dollar[1..n]` are the `n` topmost live entries, oldest first -/
theorem dollar_vals (s : AStack V) (n : Nat) (h : Inv s) (h1 : 1 ≤ s.sp) (hn : n ≤ s.sp - 1) :
    (s.dollar n).drop 1 = ((abs s).take n).reverse := by
  unfold Inv at h
  unfold dollar abs
  rw [List.take_reverse, List.reverse_reverse, List.drop_take, List.drop_take, List.drop_drop]
  have hl : (List.take s.sp s.a).length = s.sp := by simp; omega
  rw [hl]
  have e1 : s.sp - 1 - n + 1 = s.sp - n := by omega
  have e2 : n + 1 - 1 = n := by omega
  have e3 : s.sp - (s.sp - n) = n := by omega
  rw [e1, e2, e3]

end AStack

open AStack

theorem abs_initGlobal {V : Type} (bv : V) : (initGlobal bv).abs = [bottom bv] := by
  simp [initGlobal, AStack.abs]

/-- the entry that `ParserInit` of the context template leaves at index 0 -/
def ctxBottom {V : Type} (s : AStack V) (bv : V) : Entry V :=
  match s.a with
  | [] => bottom bv
  | b0 :: _ => b0

theorem abs_initCtx {V : Type} (s : AStack V) (bv : V) : (initCtx s bv).abs = [ctxBottom s bv] := by
  unfold initCtx AStack.abs ctxBottom
  cases s.a <;> simp

theorem inv_initGlobal {V : Type} (bv : V) : (initGlobal bv).Inv := by
  simp [initGlobal, AStack.Inv]

theorem inv_initCtx {V : Type} (s : AStack V) (bv : V) : (initCtx s bv).Inv := by
  simp [initCtx, AStack.Inv]

/-- the loop invariant: pointer within the array and never 0 -/
def Good {V : Type} (c : ACfg V) : Prop := c.stack.Inv ∧ 1 ≤ c.stack.sp

theorem alook_eq {V : Type} (e : V) (c : ACfg V) : alook e c = look e (absCfg c) := rfl

/-- **Simulation, one iteration.**  Under the loop invariant the array driver does exactly what
    the list driver does on the live part of the stack; in particular the `nil` exit is dead. -/
theorem astep_refines {V : Type} (P : Params V) (c : ACfg V) (hG : Good c) :
    absStepR (astep P c) = some (D.step P (absCfg c)) := by
  obtain ⟨hI, h1⟩ := hG
  obtain ⟨top, htop, habs⟩ := abs_top c.stack hI h1
  have hnz : ¬ c.stack.sp = 0 := by omega
  have hle : ¬ c.stack.sp > c.stack.a.length := by unfold AStack.Inv at hI; omega
  have hs : (absCfg c).stack = top :: abs (pop c.stack 1) := habs
  have hlen : (c.stack.pop 1).abs.length = c.stack.sp - 1 := by
    rw [length_abs _ (inv_pop _ _ hI)]; rfl
  unfold astep D.step
  simp only [hnz, hle, if_false, htop, alook_eq]
  rw [hs]
  simp only [← habs, hlen]
  cases hL : P.L top.st (look P.eofVal (absCfg c)).fst with
  | none => rfl
  | some a =>
    simp only
    by_cases he : a = P.errC
    · simp only [if_pos he]; rfl
    simp only [if_neg he]
    by_cases ha : a = P.accC
    · simp only [if_pos ha]; rfl
    simp only [if_neg ha]
    by_cases hp : 0 < a
    · simp only [if_pos hp, absStepR, absCfg, abs_push _ _ hI]
    simp only [if_neg hp]
    cases hR : P.rule (-a).toNat with
    | none => rfl
    | some p =>
      obtain ⟨lhs, n⟩ := p
      simp only
      by_cases hn : n ≤ c.stack.sp - 1
      · simp only [if_pos hn]
        have hI' := inv_pop c.stack n hI
        have h1' : 1 ≤ (c.stack.pop n).sp := by rw [sp_pop]; omega
        obtain ⟨under, hu, hua⟩ := abs_top _ hI' h1'
        rw [← abs_pop _ _ hI (by omega), hua, hu]
        simp only
        cases hg : P.L under.st lhs with
        | none => rfl
        | some g =>
          simp only
          by_cases hg0 : g < 0
          · simp only [if_pos hg0]; rfl
          · simp only [if_neg hg0, absStepR, absCfg, abs_push _ _ hI', hua,
              dollar_vals _ _ hI h1 hn]
      · simp only [if_neg hn]; rfl

/-- every successor configuration is "pop `n` (within the live part, keeping the bottom), then
    push one entry" -/
theorem astep_next_shape {V : Type} (P : Params V) (c c' : ACfg V) (h : astep P c = .next c') :
    ∃ n e, n ≤ c.stack.sp - 1 ∧ c'.stack = (c.stack.pop n).push e := by
  unfold astep at h
  repeat' split at h
  all_goals first | (cases h; done) | skip
  all_goals (cases h)
  · exact ⟨0, _, Nat.zero_le _, rfl⟩
  · exact ⟨_, _, by assumption, rfl⟩

/-- the loop invariant is preserved: the pointer stays within the array and never returns to 0 -/
theorem astep_good {V : Type} (P : Params V) (c c' : ACfg V) (hG : Good c)
    (h : astep P c = .next c') : Good c' := by
  obtain ⟨n, e, _, hs⟩ := astep_next_shape P c c' h
  unfold Good
  rw [hs]
  exact ⟨inv_push _ _ (inv_pop _ _ hG.1), by rw [sp_push]; omega⟩

/-- **Simulation, whole run.** -/
theorem arun_refines {V : Type} (P : Params V) (fuel : Nat) (c : ACfg V) (hG : Good c) :
    absOutcome (arun P fuel c) = some (D.run P fuel (absCfg c)) := by
  induction fuel generalizing c with
  | zero => rfl
  | succ k ih =>
    have h := astep_refines P c hG
    simp only [arun, D.run]
    cases hs : astep P c with
    | next c' =>
      rw [hs] at h; simp only [absStepR, Option.some.injEq] at h
      rw [← h]; exact ih c' (astep_good P c c' hG hs)
    | acc v c' =>
      rw [hs] at h; simp only [absStepR, Option.some.injEq] at h
      rw [← h]; rfl
    | err c' =>
      rw [hs] at h; simp only [absStepR, Option.some.injEq] at h
      rw [← h]; rfl
    | crash =>
      rw [hs] at h; simp only [absStepR, Option.some.injEq] at h
      rw [← h]; rfl
    | nil => rw [hs] at h; simp [absStepR] at h

/-- the `return nil` exit of `Parser` is unreachable once `ParserInit` has run -/
theorem arun_ne_nil {V : Type} (P : Params V) (fuel : Nat) (c : ACfg V) (hG : Good c) :
    arun P fuel c ≠ .nil := by
  intro h
  have := arun_refines P fuel c hG
  rw [h] at this
  simp [absOutcome] at this

/-! ### the bottom slot -/

/-- the array is empty (context never initialised) or still has the bottom entry at index 0 -/
def BottomIntact {V : Type} (σ : AStack V) (bv : V) : Prop :=
  σ.a = [] ∨ σ.a[0]? = some (bottom bv)

theorem push_get_zero {V : Type} (s : AStack V) (e : Entry V) (h1 : 1 ≤ s.sp) (hne : 0 < s.a.length) :
    (s.push e).a[0]? = s.a[0]? := by
  unfold AStack.push
  split
  · exact List.getElem?_append_left hne
  · exact List.getElem?_set_ne (by omega)

/-- index 0 is never written once `sp ≥ 1` -/
theorem astep_get_zero {V : Type} (P : Params V) (c c' : ACfg V) (hG : Good c)
    (h : astep P c = .next c') : c'.stack.a[0]? = c.stack.a[0]? := by
  obtain ⟨n, e, hn, hs⟩ := astep_next_shape P c c' h
  obtain ⟨hI, h1⟩ := hG
  unfold AStack.Inv at hI
  rw [hs]
  exact push_get_zero _ _ (by rw [sp_pop]; omega) (by show 0 < c.stack.a.length; omega)

end Y.AD
