import Yv.Proofs.DigraphFacts
import Yv.Props.C03b
/-! # C03c — `Digraph` (the SCC-based traversal of DeRemer and Pennello) computes the least solution

`LALR/Digraph.go` computes the three set-valued closures of the lookahead computation (`Read` from `DR`
over `reads`, `Follow` from `Read` over `includes`, the lookahead sets from `Follow` over `lookback`)
with the classical routine `Digraph`/`Traverse`.  `Yv/Model/Digraph.lean` (`Y.DG`) is a functional
model of that routine, statement for statement (same scan order of `R`, same order of `X`, same
`Union`, nodes outside `X` are traversed when a pair leads to them, as with the auto-extending Go maps;
validated against the Go code on random inputs, element ORDER included).

## Theorems

* `digraph_total`  — `digraph X R Fp` returns for ALL inputs (the fuel `|X| + |R| + 1` bounds the
  recursion depth because every call marks an unmarked node among the roots and pair targets).
* `digraph_least` (MAIN) — if `digraph X R Fp = some F` then for every `x ∈ X`:
  `a ∈ F x ↔ ∃ y, Reach R x y ∧ a ∈ Fp y`, i.e. `F x` is, as a set, the least solution of
  `F x = Fp x ∪ ⋃ {F y | (x, y) ∈ R}`.  `digraph_least_reach` is the same for every node reachable
  from `X` (exactly the visited nodes); `digraph_sound` is the `→` direction for EVERY node.
  Hypothesis: `X.length + R.length < MaxInt` — the routine marks finished nodes with `N = MaxInt`
  and stacked ones with their stack depth, so the depth (at most the number of distinct nodes, at most
  `|X| + |R|`) must stay below `MaxInt`.  (Always true for Go slices.)
* `digraph_eq_solve` — when `Y.DP.solve fuel init rel = some sol`, `digraph X rel (init.getD · [])`
  has the same elements as `sol` at every `x ∈ X`.
* `C03_dp_digraph` — `stagesDG` (the stages with `Digraph` for the three closures, as `CalcReadSet`,
  `CalcFollowSet`, `CalcLookAheadSet` call it) and `stagesWith` have the same transitions and
  relations and the same `Read`/`Follow`/lookahead SETS.  Hypotheses: `dgSizeOK` (the size bound for
  the three calls) and `dpStartOK` (transition 0 is `(0, S₀)`; otherwise `$` would be attached to a
  reduce transition if that is what transition 0 is, and `CalcLookAheadSet`'s `Digraph` would — unlike
  `laOf` — also copy that transition's own `FollowSet` entry).
* `C03_dp_digraph_exact` — hence (directly, without reference to `stagesWith`; `stagesDG_total`) the
  lookaheads `stagesDG` attaches to `(q, r)` are exactly the LALR(1) lookaheads `LA`.
* `C03_dg_lines_eq` — `laLinesDG = laLinesDPWith` (as lists) whenever `stagesWith` returns.

The proof of `digraph_least` is in `Yv/Proofs/DigraphFacts.lean`: a state invariant `Inv` (stack =
the nodes with `0 < N < MaxInt`, duplicate-free; `N u ≤ rank u`; lower stack nodes reach upper ones;
`u` reaches a stack node of rank `≤ N u`; `F` sound everywhere, `⊇ Fp` on the stack, complete and
edge-closed on finished nodes) and a Hoare-style specification of `traverse` (`Post`: stack
discipline, frame, and for the segment left on the stack: all in the component of `x`, `N x ≤ N u`,
`F u ⊆ F x`, every pair `(u, w)` leads to a finished `w` with `F w ⊆ F u` or to a stack node of rank
`≥ N u`).  When `N x = d` the segment above `x` is closed under `R` up to finished nodes, which gives
completeness of `F x` for the whole segment.

## What the model does NOT cover

Go slices share backing arrays.  `Traverse` assigns `F[top] = F[x]` (same slice) to the members of a
component, and `Union(a, b)` appends to `b` in place when it has spare capacity.  Inside one call
of `Digraph` this is harmless, but `CalcFollowSet` uses the `ReadSet` entries as `FP`: two keys in a
nontrivial component of `reads` share one slice, both `FollowSet` entries start as that slice, and the
appends of the second overwrite those of the first (observed with the real code: see
`/root/scratch/pf/dg/gocheck`, `go run . alias`).  The model has value semantics, so the theorem speaks
about the implementation only when `reads` has no nontrivial component (its presence means the grammar
is not LR(k) for any k) or the slices happen to have no spare capacity. -/
namespace Y.Props
open Y Y.DP Y.DGP

/-- `digraph` always returns: the fuel it supplies (`|X| + |R| + 1`) is enough -/
theorem digraph_total (X : List Nat) (R : List (Nat × Nat)) (Fp : Nat → List Nat) :
    ∃ F, DG.digraph X R Fp = some F :=
  DG.digraph_total X R Fp

/-- SOUNDNESS, for every node (also the unvisited ones, where `F` is empty): every element of `F u`
    comes from `Fp y` for some `y` reachable from `u` -/
theorem digraph_sound (X : List Nat) (R : List (Nat × Nat)) (Fp F : Nat → List Nat)
    (hlen : X.length + R.length < DG.inf) (h : DG.digraph X R Fp = some F) (u a : Nat)
    (ha : a ∈ F u) : ∃ y, DG.Reach R u y ∧ a ∈ Fp y :=
  DG.digraph_sound hlen h u a ha

/-- the result on every node that is reachable from a root (these are exactly the nodes the
    traversal visits) is the least solution -/
theorem digraph_least_reach (X : List Nat) (R : List (Nat × Nat)) (Fp F : Nat → List Nat)
    (hlen : X.length + R.length < DG.inf) (h : DG.digraph X R Fp = some F)
    (x : Nat) (hx : x ∈ X) (u : Nat) (hu : DG.Reach R x u) (a : Nat) :
    a ∈ F u ↔ ∃ y, DG.Reach R u y ∧ a ∈ Fp y :=
  DG.digraph_least_reach hlen h hx hu a

/-- MAIN: for the nodes of `X`, `Digraph` computes exactly the least solution of
    `F x = Fp x ∪ ⋃ {F y | (x, y) ∈ R}`, i.e. the union of `Fp` over the nodes reachable from `x` -/
theorem digraph_least (X : List Nat) (R : List (Nat × Nat)) (Fp F : Nat → List Nat)
    (hlen : X.length + R.length < DG.inf) (h : DG.digraph X R Fp = some F)
    (x : Nat) (hx : x ∈ X) (a : Nat) :
    a ∈ F x ↔ ∃ y, DG.Reach R x y ∧ a ∈ Fp y :=
  DG.digraph_least hlen h hx a

/-- whenever the solver of the model returns, `Digraph` on the same data has the same elements at
    every root (`X` arbitrary; in particular `X = List.range init.length`) -/
theorem digraph_eq_solve (fuel : Nat) (init : List (List Sym)) (rel : List (Nat × Nat))
    (sol : List (List Sym)) (X : List Nat) (F : Nat → List Nat)
    (hs : solve fuel init rel = some sol)
    (hd : DG.digraph X rel (fun i => init.getD i []) = some F)
    (hlen : X.length + rel.length < DG.inf) (x : Nat) (hx : x ∈ X) (a : Sym) :
    a ∈ F x ↔ a ∈ sol.getD x [] := by
  rw [solve_spec hs, dpReach_iff]
  exact DG.digraph_least hlen hd hx a

/-- `stagesDG` always returns -/
theorem stagesDG_total (G : Grammar) (A : Auto) (nl : List Sym) :
    ∃ sd, DG.stagesDG G A nl = some sd := by
  unfold DG.stagesDG
  obtain ⟨rd, hrd⟩ := digraph_total (DG.keysOf G (trans G A)) (readsRel G nl (trans G A))
    (fun i => (dr G (trans G A)).getD i [])
  obtain ⟨fo, hfo⟩ := digraph_total (DG.keysOf G (trans G A)) (includesRel G A nl (trans G A)) rd
  obtain ⟨la, hla⟩ := digraph_total (DG.redsOf (trans G A)) (lookbackRel G A (trans G A)) fo
  simp only [hrd, hfo, hla]
  exact ⟨_, rfl⟩

/-- the three stages computed by `Digraph` (as `CalcReadSet`, `CalcFollowSet`, `CalcLookAheadSet` call
    it) yield the same `Read`, `Follow` and lookahead SETS as the least-solution model `stagesWith` -/
theorem C03_dp_digraph (G : Grammar) (A : Auto) (nl : List Sym) (st sd : Stages)
    (hsz : DG.dgSizeOK G A nl = true) (hS : dpStartOK G A = true)
    (hst : stagesWith G A nl = some st) (hsd : DG.stagesDG G A nl = some sd) :
    sd.trans = st.trans ∧ sd.dr = st.dr ∧ sd.reads = st.reads ∧ sd.includes = st.includes ∧
    sd.lookback = st.lookback ∧
    (∀ i a, a ∈ sd.read.getD i [] ↔ a ∈ st.read.getD i []) ∧
    (∀ i a, a ∈ sd.follow.getD i [] ↔ a ∈ st.follow.getD i []) ∧
    (∀ x a, a ∈ sd.la.getD x [] ↔ a ∈ st.la.getD x []) ∧
    (∀ q r a, a ∈ sd.laGet q r ↔ a ∈ st.laGet q r) := by
  obtain ⟨h1, h2, h3⟩ := stagesDG_sets hsz hS hsd
  obtain ⟨rd, fo, hrd, hfo, rfl⟩ := stagesWith_some hst
  obtain ⟨rd', fo', la', _, _, _, hsd'⟩ := stagesDG_some hsd
  have e1 : sd.trans = trans G A := by rw [hsd']
  have e2 : sd.la.length = (trans G A).length := by rw [hsd']; simp
  have hread : ∀ i a, a ∈ sd.read.getD i [] ↔ a ∈ rd.getD i [] :=
    fun i a => (h1 i a).trans (solve_spec hrd i a).symm
  have hfol : ∀ i a, a ∈ sd.follow.getD i [] ↔ a ∈ fo.getD i [] :=
    fun i a => ((h2 i a).trans (dpReach_congr hread i a)).trans (solve_spec hfo i a).symm
  have hla : ∀ x a, a ∈ sd.la.getD x [] ↔
      a ∈ ((trans G A).zipIdx.map fun tx =>
        laOf (lookbackRel G A (trans G A)) fo tx.2 tx.1).getD x [] := by
    intro x a
    cases hx : (trans G A)[x]? with
    | none =>
      have hge : (trans G A).length ≤ x := by
        rcases Nat.lt_or_ge x (trans G A).length with hlt | hge
        · rw [List.getElem?_eq_getElem hlt] at hx; cases hx
        · exact hge
      rw [List.getD_eq_getElem?_getD, List.getD_eq_getElem?_getD,
        List.getElem?_eq_none (by rw [e2]; exact hge),
        List.getElem?_eq_none (by simpa using hge)]
    | some t =>
      rw [h3 x t hx a, List.getD_eq_getElem?_getD (l := List.map _ _), getElem?_map_zipIdx, hx]
      simp only [Option.map_some, Option.getD_some]
      exact laOf_congr hfol x t a
  refine ⟨e1, by rw [hsd'], by rw [hsd'], by rw [hsd'], by rw [hsd'], hread, hfol, hla, ?_⟩
  intro q r a
  unfold Stages.laGet
  rw [e1]
  simp only
  cases redIdx (trans G A) q r with
  | none => exact Iff.rfl
  | some x => exact hla x a

/-- `Digraph`-computed lookaheads are exactly the LALR(1) lookaheads (no reference to `stagesWith`;
    `stagesDG` always returns) -/
theorem C03_dp_digraph_exact (G : Grammar) (nS : Nat) (A : Auto) (nl : List Sym) (sd : Stages)
    (hG : gramWF G nS = true) (hA : certA G A = true) (hC : certCanon G A = true)
    (hP : prodOK G nS = true) (hS : dpStartOK G A = true) (hN : nullExactB G nS nl = true)
    (hsz : DG.dgSizeOK G A nl = true) (hsd : DG.stagesDG G A nl = some sd)
    (q r : Nat) (hit : (⟨r, (G.rhsOf r).length⟩ : Item) ∈ A.its q) (a : Sym) :
    a ∈ sd.laGet q r ↔ LA G A.goto q ⟨r, (G.rhsOf r).length⟩ a := by
  have h : MH G nS A nl := ⟨dph_of_certs hG hA hC hP, nullExactB_ok hN, hS⟩
  obtain ⟨h1, h2, h3⟩ := stagesDG_sets hsz hS hsd
  obtain ⟨rd', fo', la', _, _, _, hsd'⟩ := stagesDG_some hsd
  have e1 : sd.trans = trans G A := by rw [hsd']
  obtain ⟨x, hx⟩ := redIdx_of_mem (trans_of_item (its_lt hit) hit)
  obtain ⟨u, hxu, hqu, hku⟩ := redIdx_some hx
  unfold Stages.laGet
  rw [e1]
  simp only [hx]
  rw [h3 x u hxu a, ← hqu]
  exact (mem_laOf h h1 h2 hxu hku a).trans
    (C03_dp_declarative G nS A hG hA hC hP u.q r (hqu ▸ hit) a)

/-- the lines the driver prints from `stagesDG` are those of `stagesWith` whenever the latter returns -/
theorem C03_dg_lines_eq (G : Grammar) (A : Auto) (nl : List Sym) (st : Stages)
    (hsz : DG.dgSizeOK G A nl = true) (hS : dpStartOK G A = true)
    (hst : stagesWith G A nl = some st) :
    DG.laLinesDG G A nl = laLinesDPWith G A nl := by
  obtain ⟨sd, hsd⟩ := stagesDG_total G A nl
  have hget := (C03_dp_digraph G A nl st sd hsz hS hst hsd).2.2.2.2.2.2.2.2
  unfold DG.laLinesDG laLinesDPWith
  rw [hsd, hst]
  simp only [Option.map_some, Option.some.injEq]
  unfold Stages.lines
  refine flatMap_congr' (fun q _ => filterMap_congr' (fun it _ => ?_))
  split
  · congr 3
    exact sortS_congr (fun a => hget q it.r a)
  · rfl


/-! ## Non-vacuity -/

/-- run `digraph` with `Fp` given as a list and tabulate the result on `0 … n-1` -/
def dgRun (X : List Nat) (R : List (Nat × Nat)) (fp : List (List Nat)) (n : Nat) :
    Option (List (List Nat)) :=
  (DG.digraph X R (fun i => fp.getD i [])).map fun F => (List.range n).map F

/-- a 2-cycle -/
example : dgRun [0, 1] [(0, 1), (1, 0)] [[10], [11]] 2 = some [[10, 11], [10, 11]] := by decide

/-- a 3-cycle with an exit to node 3 (in the implementation's element order) -/
example : dgRun [0, 1, 2, 3] [(0, 1), (1, 2), (2, 0), (1, 3)] [[10], [11], [12], [13]] 4 =
    some [[10, 11, 12, 13], [10, 11, 12, 13], [10, 11, 12, 13], [13]] := by decide

/-- the same with the roots in the opposite order: other lists, same sets -/
example : dgRun [3, 2, 1, 0] [(0, 1), (1, 2), (2, 0), (1, 3)] [[10], [11], [12], [13]] 4 =
    some [[12, 10, 11, 13], [12, 10, 11, 13], [12, 10, 11, 13], [13]] := by decide

/-- a diamond -/
example : dgRun [0, 1, 2, 3] [(0, 1), (0, 2), (1, 3), (2, 3)] [[10], [11], [12], [13]] 4 =
    some [[10, 11, 13, 12], [11, 13], [12, 13], [13]] := by decide

/-- a self-loop (and `Union` keeps the repetitions of its second argument) -/
example : dgRun [0] [(0, 0)] [[10, 10]] 1 = some [[10, 10]] := by decide

/-- nodes outside `X` (1 and 2, a cycle) are traversed through `R` and get their sets too; node 3 is
    never touched -/
example : dgRun [0] [(0, 2), (2, 1), (1, 2)] [[], [11], [12]] 4 =
    some [[12, 11], [12, 11], [12, 11], []] := by decide

/-- an unreachable node outside `X` is not visited (its `Fp` does not appear) -/
example : dgRun [1] [(0, 2), (2, 1), (1, 2)] [[10], [11], [12]] 4 =
    some [[], [11, 12], [11, 12], []] := by decide

/-- two nested components, an exit, a second root reaching the first component -/
example : dgRun [0, 4] [(0, 1), (1, 2), (2, 1), (2, 3), (3, 0), (4, 2), (3, 5)]
      [[10], [11], [12], [13], [14], [15]] 6 =
    some [[10, 11, 12, 13, 15], [10, 11, 12, 13, 15], [10, 11, 12, 13, 15], [10, 11, 12, 13, 15],
          [14, 10, 11, 12, 13, 15], [15]] := by decide

/-- `digraph_least` applied: in the last example `F 4` is `{14} ∪ {10, 11, 12, 13, 15}` -/
example : ∀ a, (∃ y, DG.Reach [(0, 1), (1, 2), (2, 1), (2, 3), (3, 0), (4, 2), (3, 5)] 4 y ∧
      a ∈ [[10], [11], [12], [13], [14], [15]].getD y []) ↔ a ∈ [14, 10, 11, 12, 13, 15] := by
  obtain ⟨F, hF⟩ := digraph_total [0, 4] [(0, 1), (1, 2), (2, 1), (2, 3), (3, 0), (4, 2), (3, 5)]
    (fun i => [[10], [11], [12], [13], [14], [15]].getD i [])
  have h4 : F 4 = [14, 10, 11, 12, 13, 15] := by
    have : dgRun [0, 4] [(0, 1), (1, 2), (2, 1), (2, 3), (3, 0), (4, 2), (3, 5)]
        [[10], [11], [12], [13], [14], [15]] 6 =
      some [[10, 11, 12, 13, 15], [10, 11, 12, 13, 15], [10, 11, 12, 13, 15], [10, 11, 12, 13, 15],
            [14, 10, 11, 12, 13, 15], [15]] := by decide
    unfold dgRun at this
    rw [hF] at this
    simp only [Option.map_some, Option.some.injEq] at this
    have := congrArg (fun l => l.getD 4 []) this
    simpa [List.range, List.range.loop] using this
  intro a
  rw [← h4]
  exact (digraph_least _ _ _ F (by decide) hF 4 (by decide) a).symm

/-- the grammars of C03b through `Digraph`: same lines as the least-solution model and the oracle -/
example : DG.dgSizeOK laG laA (nullableL laG 8) = true ∧ DG.dgSizeOK nuG nuA (nullableL nuG 7) = true := by
  decide

example : DG.laLinesDG laG laA (nullableL laG 8) = laLinesDP laG 8 laA := by decide

example : DG.laLinesDG nuG nuA (nullableL nuG 7) =
    some [(0, 3, [1, 3]), (1, 0, [1]), (2, 5, [1]), (3, 2, [1, 3]), (4, 1, [1]), (5, 4, [1])] := by
  decide

/-- `Read`, `Follow` and the lookahead lists of the grammar with nullable nonterminals, per transition
    index: `Digraph` produces them in the implementation's element order (`Follow (0, A) = [3, 1]`),
    the least-solution model sorted (`[1, 3]`); sorted, they coincide -/
example : (DG.stagesDG nuG nuA (nullableL nuG 7)).map (fun sd => sd.follow) =
    some [[1], [3, 1], [], [], [], [1], [], [], [], [], []] := by decide

example : (DG.stagesDG nuG nuA (nullableL nuG 7)).map
      (fun sd => (sd.read.map sortS, sd.follow.map sortS, sd.la.map sortS)) =
    ((stagesWith nuG nuA (nullableL nuG 7)).map fun st => (st.read, st.follow, st.la)) := by decide

end Y.Props

#print axioms Y.Props.digraph_total
#print axioms Y.Props.digraph_sound
#print axioms Y.Props.digraph_least_reach
#print axioms Y.Props.digraph_least
#print axioms Y.Props.digraph_eq_solve
#print axioms Y.Props.stagesDG_total
#print axioms Y.Props.C03_dp_digraph
#print axioms Y.Props.C03_dp_digraph_exact
#print axioms Y.Props.C03_dg_lines_eq
