import Yv.Model.YParse
/-! Functional model of Parser/Vistor.go: `astDeclareVistor.Process`, `RuleVistor.Process` and the
    symbol/rule construction of `Walker.BuildLALR1` (identifier table iterated in sorted-name order,
    as the code does since the determinism repair), followed by the three refusal checks
    (nonterminal without rule, unproductive nonterminal) on the resulting grammar.
    A Go panic is an explicit `refuse` outcome. -/
namespace Visitor
open YParse

structure Id where
  name : String
  isTerm : Bool
  value : Int
  tag : String
  alias : String
deriving Repr, Inhabited

/-- the identifier table as an association list (insertion order is irrelevant: every iteration
    of the code goes through the sorted key list) -/
abbrev Tab := List Id

def Tab.find (t : Tab) (n : String) : Option Id := t.find? (·.name == n)
def Tab.has (t : Tab) (n : String) : Bool := t.any (·.name == n)
def Tab.upd (t : Tab) (n : String) (f : Id → Id) : Tab := t.map fun i => if i.name == n then f i else i

def strLe (a b : String) : Bool := a < b || a == b
def Tab.sorted (t : Tab) : Tab := t.mergeSort fun a b => strLe a.name b.name

structure PrecId where
  prec : Nat
  assoc : Nat      -- 1 left, 2 right, 3 nonassoc
  name : String
deriving Repr

structure Decls where
  tab : Tab
  idMax : Int
  preIds : List PrecId
  start : String
deriving Repr

inductive Refuse
  | precsym | undefined | norule | unproductive | toomany | other (why : String)
deriving Repr

def Refuse.name : Refuse → String
  | .precsym => "precsym" | .undefined => "undefined" | .norule => "norule"
  | .unproductive => "unproductive" | .toomany => "toomany" | .other w => "panic:" ++ w

/-- step 1 of `astDeclareVistor.Process`: token definitions -/
def addTokens (tab : Tab) (idMax : Int) (ids : List Ident) : Tab × Int :=
  ids.foldl (fun (st : Tab × Int) (id : Ident) =>
    let mx : Int := if id.value > st.2 then id.value else st.2
    if st.1.has id.name then
      (st.1.upd id.name fun i =>
        { i with alias := if id.alias != "" then id.alias else i.alias,
                 tag := if id.tag != "" then id.tag else i.tag,
                 value := (if id.value != 0 then id.value else i.value : Int) }, mx)
    else (st.1 ++ [⟨id.name, true, id.value, id.tag, id.alias⟩], mx)) (tab, idMax)

def addTypes (tab : Tab) (tys : List TypeDef) : Tab :=
  tys.foldl (fun (tab : Tab) (ty : TypeDef) =>
    if tab.has ty.name then tab.upd ty.name fun i => { i with tag := ty.tag }
    else tab ++ [⟨ty.name, false, 0, ty.tag, ""⟩]) tab

/-- step 3: precedence lines; `none` = panic "prec symbol … not found" -/
def addPrecs (tab : Tab) (lines : List (List PrecDef)) : Option (List PrecId) :=
  (lines.foldl (fun (st : Option (Nat × List PrecId)) line =>
    match st with
    | none => none
    | some (lvl, acc) =>
      line.foldl (fun (st : Option (Nat × List PrecId)) p =>
        match st with
        | none => none
        | some (l, acc) => if tab.has p.name then some (l, acc ++ [⟨l, p.assoc, p.name⟩]) else none)
        (some (lvl + 1, acc))) (some (0, []))).map (·.2)

/-- step 5: every identifier still numbered 0 gets the next free code, in sorted-name order -/
def numberRest (tab : Tab) (idMax : Int) : Tab × Int :=
  tab.sorted.foldl (fun (st : Tab × Int) i =>
    match st.1.find i.name with
    | some cur => if cur.value == 0 then (st.1.upd i.name fun j => { j with value := st.2 + 1 }, st.2 + 1) else st
    | none => st) (tab, idMax)

def processDecl (d : Decl) : Except Refuse Decls :=
  let (tab, mx) := d.tokDefs.foldl (fun (st : Tab × Int) td => addTokens st.1 st.2 td) (([] : Tab), (2 : Int))
  let tab := addTypes tab d.typeDefs
  match addPrecs tab d.precDefs with
  | none => .error .precsym
  | some pre =>
    let tab := if d.start != "" && !tab.has d.start then tab ++ [⟨d.start, false, 0, "", ""⟩] else tab
    let (tab, mx) := numberRest tab mx
    .ok { tab := tab, idMax := mx, preIds := pre, start := d.start }

structure VRule where
  lhs : String
  rhs : List String
  prec : Option PrecId
  action : String
deriving Repr

/-- `preMap`: the last precedence declaration of a name wins -/
def preMapFind (pre : List PrecId) (n : String) : Option PrecId := pre.reverse.find? (·.name == n)

def processRules (ds : Decls) (rules : List RuleDef) : Except Refuse (Decls × List VRule) :=
  -- 2. left-hand sides that are not in the table yet become nonterminals with fresh codes
  let (tab, mx) := rules.foldl (fun (st : Tab × Int) r =>
    if st.1.has r.lhs then st else (st.1 ++ [⟨r.lhs, false, st.2 + 1, "", ""⟩], st.2 + 1)) (ds.tab, ds.idMax)
  -- 3. the rules
  let res := rules.foldl (fun (acc : Except Refuse (List VRule)) r =>
    match acc with
    | .error e => .error e
    | .ok vs =>
      let st := r.rhs.foldl (fun (st : Except Refuse (List String × Option PrecId × String)) e =>
        match st with
        | .error x => .error x
        | .ok (syms, pr, act) =>
          if e.ty == 2 then .ok (syms, pr, e.el)
          else if !tab.has e.el then .error .undefined
          else
            let pr' := match preMapFind ds.preIds e.el with | some p => some p | none => pr
            .ok (syms ++ [e.el], pr', act)) (.ok ([], none, ""))
      match st with
      | .error x => .error x
      | .ok (syms, pr, act) =>
        let pr := if r.precSym != "" then preMapFind ds.preIds r.precSym else pr
        .ok (vs ++ [⟨r.lhs, syms, pr, act⟩])) (.ok [])
  match res with
  | .error e => .error e
  | .ok vs => .ok ({ ds with tab := tab, idMax := mx }, vs)

structure Sym where
  id : Nat
  name : String
  value : Int
  tag : String
  isNT : Bool
  prec : Int
  assoc : Int       -- 0 left, 1 right, 2 none
deriving Repr, Inhabited

structure GRule where
  lhs : Nat
  rhs : List Nat
  precSym : Int
deriving Repr

structure Built where
  syms : List Sym
  rules : List GRule
  nT : Nat
deriving Repr

def assocOf (a : Nat) : Int := if a == 1 then 0 else if a == 2 then 1 else 2

/-- symbol table of `BuildLALR1`: `start`, `$`, then terminals and nonterminals in sorted-name order;
    identifiers whose code is -1 are skipped -/
def buildSyms (ds : Decls) : List Sym :=
  let sorted := ds.tab.sorted
  let ids := (sorted.filter (·.isTerm)) ++ (sorted.filter (!·.isTerm))
  let ids := ids.filter (·.value != -1)
  let base : List Sym := [⟨0, "start", 0, "", true, -1, 2⟩, ⟨1, "$", -1, "", false, -1, 2⟩]
  base ++ ids.mapIdx fun k i =>
    if i.isTerm then
      match preMapFind ds.preIds i.name with
      | some p => ⟨k + 2, i.name, i.value, i.tag, false, p.prec, assocOf p.assoc⟩
      | none => ⟨k + 2, i.name, i.value, i.tag, false, -1, 2⟩
    else ⟨k + 2, i.name, i.value, i.tag, true, -1, 2⟩

/-- `FindSymbolByName`: the map is overwritten by later insertions, so the last symbol of a name wins -/
def symId (syms : List Sym) (n : String) : Option Nat := (syms.reverse.find? (·.name == n)).map (·.id)

def buildGrammar (ds : Decls) (vs : List VRule) : Except Refuse Built :=
  let syms := buildSyms ds
  let startId := (syms.drop 2).find? (·.name == ds.start)
  match startId with
  | none => .error (.other "no start symbol")
  | some s =>
    let rules := vs.foldl (fun (acc : Except Refuse (List GRule)) v =>
      match acc with
      | .error e => .error e
      | .ok rs =>
        match symId syms v.lhs with
        | none => .error (.other "lhs")
        | some l =>
          let rhs := v.rhs.filterMap (symId syms)
          if rhs.length != v.rhs.length then .error (.other "rhs") else
          let ps : Int := match v.prec with
            | some p => (match symId syms p.name with | some i => (i : Int) | none => -1)
            | none => -1
          .ok (rs ++ [⟨l, rhs, ps⟩])) (.ok [⟨0, [s.id], -1⟩])
    match rules with
    | .error e => .error e
    | .ok rs =>
      -- a left-hand side becomes a nonterminal (`InsertNewRules` calls `SetNT`)
      let lhss := rs.map (·.lhs)
      let syms := syms.map fun sy => if lhss.contains sy.id then { sy with isNT := true } else sy
      if syms.any (fun sy => sy.isNT && !lhss.contains sy.id) then .error .norule
      else .ok { syms := syms, rules := rs, nT := (syms.filter (!·.isNT)).length }

/-- `CalculateEpsilonClosure` then `CalculateCanTerminate`: the set of symbols marked CanTerminate -/
def productive (b : Built) : List Nat :=
  let init := (b.syms.filter (!·.isNT)).map (·.id)
  let step (s : List Nat) : List Nat :=
    b.rules.foldl (fun s r => if r.rhs.all s.contains && !s.contains r.lhs then s ++ [r.lhs] else s) s
  (List.range (b.syms.length + 1)).foldl (fun s _ => step s) init

def nullable (b : Built) : List Nat :=
  let step (s : List Nat) : List Nat :=
    b.rules.foldl (fun s r => if r.rhs.all s.contains && !s.contains r.lhs then s ++ [r.lhs] else s) s
  (List.range (b.syms.length + 1)).foldl (fun s _ => step s) []

def front (r : Root) : Except Refuse Built :=
  match processDecl r.decl with
  | .error e => .error e
  | .ok ds =>
    match processRules ds r.rules with
    | .error e => .error e
    | .ok (ds, vs) =>
      match buildGrammar ds vs with
      | .error e => .error e
      | .ok b =>
        let pr := productive b
        if b.syms.any (fun sy => sy.isNT && !pr.contains sy.id) then .error .unproductive else .ok b

end Visitor
