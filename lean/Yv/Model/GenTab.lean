import Yv.Model.Core
import Yv.Cert.Complete
import Yv.Cert.Canon
/-! List-based, proof-friendly model of the implementation's table generation
    (`GenTable` / `CheckAndResolveConflict` of LALR/Table.go):

    ```
    for every state q:
      candidates := for every transition q -X-> p, in goto order:   (X, shift p, prec/assoc of X)
                    then for every complete item A → α · of q (rule r), for every lookahead a of it:
                                                                    (a, reduce r, prec/assoc of the rule)
      for every symbol s: fold the candidates on s pairwise, left to right, with `res`
                          (precedence/associativity resolution, else the yacc defaults)
      row[s] := error code        when there is no candidate or the winner is the %nonassoc error
                target state / -r when the winner is shift / reduce by r ≠ 0
                accept code       when the winner is the reduction by rule 0
    ```

    The pairwise resolution is a PARAMETER `res`; `Core.pairWinner` is the mirror of the
    implementation's `ResolveConflict` + `UseDefaultResolveConflict`.  Same candidate order and the
    same cell values as the array model `Core.genRow` (`genRowL_eq_core` in Yv/Props/C01gen.lean).
    Theorems: Yv/Proofs/GenTabFacts.lean and Yv/Props/C01gen.lean. -/
namespace Y.GT
open Core (Action)

/-- precedence data: per symbol the precedence level (or -1) and the associativity
    (0 left, 1 right, 2 none); per rule the symbol that carries the rule's precedence (or -1) -/
structure PrecData where
  prec : List Int
  assoc : List Int
  rulePrec : List Int

/-- the action "shift/goto to `p`" on symbol `x` -/
def PrecData.shiftAct (P : PrecData) (x : Sym) (p : Nat) : Action :=
  ⟨0, (p : Int), P.assoc.getD x 0, P.prec.getD x 0⟩

/-- the action "reduce by rule `r`" -/
def PrecData.redAct (P : PrecData) (r : Nat) : Action :=
  if P.rulePrec.getD r (-1) < 0 then ⟨1, -(r : Int), 2, -1⟩
  else ⟨1, -(r : Int), P.assoc.getD (P.rulePrec.getD r (-1)).toNat 0,
        P.prec.getD (P.rulePrec.getD r (-1)).toNat 0⟩

/-- candidates from the transitions of `q`, in goto order -/
def shiftsL (P : PrecData) (A : Auto) (q : Nat) : List (Sym × Action) :=
  (A.gts q).map fun e => (e.1, P.shiftAct e.1 e.2)

/-- candidates from one item: when it is complete, one reduction per lookahead symbol -/
def redsOf (G : Grammar) (P : PrecData) (t : LATab) (q : Nat) (it : Item) : List (Sym × Action) :=
  match G.rules[it.r]? with
  | some rl =>
    if it.d == rl.rhs.length then (t.get q it).map fun s => (s, P.redAct it.r) else []
  | none => []

/-- candidates from the complete items of `q`, item by item, lookahead by lookahead -/
def reducesL (G : Grammar) (P : PrecData) (A : Auto) (t : LATab) (q : Nat) : List (Sym × Action) :=
  (A.its q).flatMap (redsOf G P t q)

/-- the candidate actions of state `q`, in the order `CheckAndResolveConflict` sees them -/
def candsL (G : Grammar) (P : PrecData) (A : Auto) (t : LATab) (q : Nat) : List (Sym × Action) :=
  shiftsL P A q ++ reducesL G P A t q

/-- the candidates on symbol `s` -/
def candsOn (cs : List (Sym × Action)) (s : Sym) : List Action :=
  (cs.filter (fun c => c.1 == s)).map (fun c => c.2)

/-- the left fold of `CheckAndResolveConflict` over the candidates of one cell -/
def foldCell (res : Action → Action → Action) : List Action → Option Action
  | [] => none
  | a :: rest => some (rest.foldl res a)

/-- the value `GenTable` writes for the winner of a cell (`n` = number of states) -/
def decode (n : Nat) : Option Action → Int
  | none => errCode n
  | some w => if w.ty == 2 then errCode n else if w.idx != 0 then w.idx else accCode n

def cellOf (res : Action → Action → Action) (n : Nat) (cs : List (Sym × Action)) (s : Sym) : Int :=
  decode n (foldCell res (candsOn cs s))

/-- one row of the dense table (`nS` columns) -/
def genRowL (res : Action → Action → Action) (G : Grammar) (nS : Nat) (P : PrecData) (A : Auto)
    (t : LATab) (q : Nat) : List Int :=
  (List.range nS).map (cellOf res A.n (candsL G P A t q))

/-- the dense table -/
def genTableL (res : Action → Action → Action) (G : Grammar) (nS : Nat) (P : PrecData) (A : Auto)
    (t : LATab) : Dense :=
  (List.range A.n).map (genRowL res G nS P A t)

/-- the largest number of candidate actions in a cell; the grammar is LALR(1) (relative to the
    lookahead table `t`) iff it is at most 1 (same computation as `Core.maxCands`) -/
def maxCandsL (G : Grammar) (nS : Nat) (P : PrecData) (A : Auto) (t : LATab) : Nat :=
  (List.range A.n).foldl (fun m q =>
    (List.range nS).foldl (fun m s => max m (candsOn (candsL G P A t q) s).length) m) 0

/-! ## the (decidable / propositional) side conditions of the theorems -/

/-- a pairwise resolution returns one of its two arguments or an error marker (`ty = 2`) -/
def ResSel (res : Action → Action → Action) : Prop :=
  ∀ a b, res a b = a ∨ res a b = b ∨ (res a b).ty = 2

/-- the goto lists mention every symbol at most once, and only grammar symbols other than
    `start'` (0) and the end marker (1) -/
def gotosOK (nS : Nat) (A : Auto) : Bool :=
  (List.range A.n).all fun q =>
    nodupB ((A.gts q).map Prod.fst) && (A.gts q).all fun e => decide (2 ≤ e.1) && decide (e.1 < nS)

/-- every lookahead of a complete item is a terminal, and the completed start rule is only
    reduced on the end marker -/
def laOK (G : Grammar) (A : Auto) (t : LATab) : Bool :=
  (List.range A.n).all fun q => (A.its q).all fun it =>
    it.d != (G.rhsOf it.r).length ||
      (t.get q it).all fun a => G.isT a && (it.r != 0 || a == 1)

/-! ## drop-in for the array model: the same inputs as `Core.genRow` -/

def gramOfCore (g : Core.Gram) : Grammar :=
  { nT := g.nT, rules := g.rules.toList.map fun r => ⟨r.lhs, r.rhs.toList⟩ }

def precOfCore (g : Core.Gram) : PrecData :=
  { prec := g.prec.toList, assoc := g.assoc.toList, rulePrec := g.rules.toList.map (·.precSym) }

def itemOfCore (it : Core.Item) : Item := ⟨it.1, it.2⟩

def autoOfCore (a : Core.Auto) : Auto :=
  { items := a.states.toList.map fun its => its.map itemOfCore, gotos := a.gotos.toList }

def laOfCore (t : Core.LATab) : LATab :=
  ⟨t.toList.map fun row => row.map fun p => (itemOfCore p.1, p.2)⟩

/-- row `q` of `genTableL` for a grammar, automaton and lookahead table given in the array model's
    types, with the mirror `Core.pairWinner` of the implementation's resolution -/
def genRowCore (g : Core.Gram) (a : Core.Auto) (t : Core.LATab) (q : Nat) : List Int :=
  genRowL Core.pairWinner (gramOfCore g) g.nSyms (precOfCore g) (autoOfCore a) (laOfCore t) q

/-- all rows at once (the conversions are done once) -/
def genTableCore (g : Core.Gram) (a : Core.Auto) (t : Core.LATab) : List (List Int) :=
  genTableL Core.pairWinner (gramOfCore g) g.nSyms (precOfCore g) (autoOfCore a) (laOfCore t)

end Y.GT
