"""The core sweep shared by C01–C06, C09: generate cases, dump the implementation's stages, run the
Lean model (mirror + certificates + driver runs on the implementation's table), and digest."""
import random

import cfg
import common
import gen


def make_cases(tier, rng, want_expr=True, n_random=None, n_tiny=None, big=None):
    cases = []
    for name, src in gen.CORPUS.items():
        cases.append({"id": "corpus:" + name, "src": src, "kind": "corpus"})
    # grammars whose known defect depended on the map iteration order of one build: built several times per run
    for name in ("reads_cycle", "mixed_conflicts", "rr_equal_prec"):
        if name in gen.CORPUS:
            for k in range(6):
                cases.append({"id": "corpus:%s#%d" % (name, k), "src": gen.CORPUS[name], "kind": "corpus"})
    if n_random is None:
        n_random = 300 if tier == "quick" else 4000
    if n_tiny is None:
        n_tiny = 250 if tier == "quick" else None
    if big is None:
        big = 10 if tier == "quick" else 150
    tiny = list(gen.enum_tiny(max_rules=3 if tier == "quick" else 3, max_len=2))
    if n_tiny is not None and len(tiny) > n_tiny:
        tiny = rng.sample(tiny, n_tiny)
    for i, sp in enumerate(tiny):
        cases.append({"id": "tiny:%d" % i, "src": gen.render(sp), "kind": "tiny", "spec": sp})
    for i in range(n_random):
        knobs = rng.choice([{}, {"p_prec": 0.9}, {"max_alt": 4, "max_len": 3}, {"max_t": 3, "max_n": 3},
                            {"p_lit": 0.6}, {"max_len": 5, "max_n": 2}])
        sp = gen.rand_grammar(rng, **knobs)
        if i % 5 == 3:
            sp = dict(sp, eof_token=True)      # `%token EOF -1`: the documented alias of the end marker, not a symbol of the grammar
        cases.append({"id": "rand:%d" % i, "src": gen.render(sp), "kind": "rand", "spec": sp})
    for i in range(big):
        sp = gen.rand_grammar(rng, big=True, max_alt=3, max_len=4)
        cases.append({"id": "big:%d" % i, "src": gen.render(sp), "kind": "big", "spec": sp})
    for i in range(1 if tier == "quick" else 6):
        sp = gen.keyword_grammar(rng, nwords=64 + 10 * i)
        cases.append({"id": "kw:%d" % i, "src": gen.render(sp), "kind": "kw", "spec": sp})
    for i in range(60 if tier == "quick" else 1500):
        sp = gen.nullable_web(rng)
        cases.append({"id": "null:%d" % i, "src": gen.render(sp), "kind": "null", "spec": sp})
    if want_expr:
        for i in range(30 if tier == "quick" else 300):
            sp = gen.expr_grammar(rng)
            if i % 4 == 1:
                # named operator tokens (sorting after EOF) next to the end-marker alias
                ren = {l: "OP%d" % k for k, l in enumerate(sp["lits"]) if l not in ("'('", "')'")}
                sub = lambda x: ren.get(x, x)
                sp = dict(sp, tokens=sp["tokens"] + [ren[l] for l in sp["lits"] if l in ren], lits=[l for l in sp["lits"] if l not in ren],
                          prec=[(k, [sub(x) for x in ss]) for k, ss in sp["prec"]],
                          rules=[dict(r, rhs=[sub(x) for x in r["rhs"]], prec=sub(r["prec"]) if r.get("prec") else r.get("prec")) for r in sp["rules"]],
                          eof_token=True)
            cases.append({"id": "expr:%d" % i, "src": gen.render(sp), "kind": "expr", "spec": sp})
    return cases


class CaseResult:
    def __init__(self, case, rec):
        self.case = case
        self.id = case["id"]
        self.impl = rec["impl"]
        self.M, self.V = common.split_model(rec["model"])
        self.raw_model = rec["model"]
        self.runs = [l.split() for l in rec["model"] if l.startswith("R ")]
        self.inputs = rec.get("inputs", [])
        self.refused = None
        for l in self.impl:
            if l.startswith("REFUSE "):
                self.refused = l.split()[1:]
        self.g = cfg.G(self.impl) if self.refused is None else None

    def rows(self):
        return [[int(x) for x in l.split()[2:]] for l in self.impl if l.startswith("ROW ")]

    def states(self):
        return [l.split()[3:] for l in self.impl if l.startswith("STATE ")]

    def gotos(self):
        return [tuple(int(x) for x in l.split()[1:]) for l in self.impl if l.startswith("GOTO ")]

    def las(self):
        return [(int(f[1]), int(f[2]), [int(x) for x in f[3:]]) for f in (l.split() for l in self.impl) if f[0] == "LA"]

    def warns(self):
        return [(int(f[1]), int(f[2]), f[3], f[4]) for f in (l.split() for l in self.impl) if f[0] == "WARN"]

    def warn_any(self):
        """number of output lines that look like a conflict warning, whatever their wording (None: old dump)"""
        for l in self.impl:
            if l.startswith("WARNANY "):
                return int(l.split()[1])
        return None

    def codes(self):
        """(error code, accept code) as the implementation emits them"""
        for l in self.impl:
            f = l.split()
            if f[0] == "CODES":
                return int(f[1]), int(f[2])
        n = len(self.rows())
        return n + 100, n + 200

    def packed(self):
        return any(l.startswith("PACKED 1") for l in self.impl)

    def conflict_free_table(self):
        return len(self.warns()) == 0 and not self.warn_any()


def default_inputs(rng, max_len=4, n_sent=6, cap=400):
    def fn(cid, impl_lines):
        if any(l.startswith("REFUSE") for l in impl_lines):
            return []
        g = cfg.G(impl_lines)
        ins = []
        if cid.startswith("kw:"):
            # many-state grammars: every statement, every truncated statement, and pairs
            stmts = [r[1] for r in g.rules[3:]]
            for st in stmts:
                ins.append(st)
                for k in range(1, len(st)):
                    ins.append(st[:k])
                ins.append(st + st[:3])
            for _ in range(40):
                a, b = rng.choice(stmts), rng.choice(stmts)
                ins.append(a + b)
                ins.append(a + b[:rng.randint(1, len(b) - 1)])
            return ins
        k = max_len
        # the hand-picked corpus grammars are explored exhaustively one length further
        cap_here = cap * 8 if cid.startswith("corpus") else cap
        while k > 0 and (len(g.terms) + 1) ** k > cap_here:
            k -= 1
        ins.extend(g.strings_upto(k))
        # the hand-picked corpus grammars get many more sampled sentences (their defects need particular ones)
        for _ in range(n_sent * 8 if cid.startswith("corpus") else n_sent):
            s = g.sample_sentence(rng)
            if s is not None:
                ins.append(s)
                # a mutated sentence as well
                if s:
                    m = list(s)
                    i = rng.randrange(len(m))
                    op = rng.randrange(3)
                    if op == 0:
                        del m[i]
                    elif op == 1:
                        m.insert(i, rng.choice(g.terms + [0]))
                    else:
                        m[i] = rng.choice(g.terms + [0])
                    ins.append(m)
        return ins
    return fn


def run(tier, rng, inputs=True, **kw):
    cases = make_cases(tier, rng, **kw)
    fn = default_inputs(rng, max_len=4 if tier == "quick" else 5, n_sent=6 if tier == "quick" else 12,
                        cap=400 if tier == "quick" else 1500) if inputs else None
    res = common.run_core([{"id": c["id"], "src": c["src"]} for c in cases], inputs_fn=fn)
    out = []
    for c in cases:
        if c["id"] in res:
            out.append(CaseResult(c, res[c["id"]]))
    return out


def distribution(results):
    d = {"cases": len(results), "refused": 0, "accepted": 0, "states_hist": {}, "with_conflict_warning": 0,
         "packed": 0, "by_kind": {}}
    canon = set()
    for r in results:
        d["by_kind"][r.case["kind"]] = d["by_kind"].get(r.case["kind"], 0) + 1
        if r.refused is not None:
            d["refused"] += 1
            continue
        d["accepted"] += 1
        n = len(r.rows())
        b = "1-5" if n <= 5 else "6-15" if n <= 15 else "16-40" if n <= 40 else ">40"
        d["states_hist"][b] = d["states_hist"].get(b, 0) + 1
        if r.warns():
            d["with_conflict_warning"] += 1
        if r.packed():
            d["packed"] += 1
        canon.add(tuple(l for l in r.impl if l.startswith("RULE")))
    d["distinct_rule_sets"] = len(canon)
    return d
