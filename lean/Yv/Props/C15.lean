import Yv.Props.C08
/-! # C15 — re-initialisation and several parser contexts

* `C15_reinit_global`: `ParserInit` of the Go global template / `initialize` of the TypeScript
  template discards the prior array and pointer, whatever they were.
* `C15_reinit_ctx`: `ParserInit` of the Go context template APPENDS the bottom entry and resets the
  pointer to 1.  On a context whose array is empty or still has the bottom entry at index 0
  (`BottomIntact`) the following run is — under `absCfg` — the run of a fresh context: the stale
  entries above the pointer are overwritten before they are read.
* `bottomIntact_preserved`, `bottomIntact_alast`, `bottomIntact_after_parses`: `BottomIntact` is an
  invariant of the loop (index 0 is never written once `sp ≥ 1`), so it holds after any number of
  earlier parses on the same context, whether they ended by accept, syntax error, crash or were
  cut off; `C15_reinit_ctx_after_parses` combines the two.
* `C15_contexts`: a system of `k` contexts stepped by an arbitrary interleaving projects on every
  context to that context's solo run. -/
namespace Y.Props
open Y Y.D Y.AD

/-! ### global template / TypeScript -/

theorem C15_reinit_global {V : Type} (P : Params V) (σ : AStack V) (w : List (Sym × V))
    (fuel : Nat) (bv : V) :
    arun P fuel (ainit (reinitGlobal σ bv) w) = arun P fuel (ainit (initGlobal bv) w) ∧
    absOutcome (arun P fuel (ainit (reinitGlobal σ bv) w)) = some (D.run P fuel (D.init bv w)) :=
  ⟨rfl, C08_global P w fuel bv⟩

/-! ### context template -/

theorem ctxBottom_of_intact {V : Type} (σ : AStack V) (bv : V) (h : BottomIntact σ bv) :
    ctxBottom σ bv = bottom bv := by
  unfold ctxBottom
  rcases h with h | h
  · rw [h]
  · cases hs : σ.a with
    | nil => rfl
    | cons x xs => rw [hs] at h; simpa using h

theorem absCfg_initCtx {V : Type} (σ : AStack V) (bv : V) (w : List (Sym × V))
    (h : BottomIntact σ bv) : absCfg (ainit (initCtx σ bv) w) = D.init bv w := by
  unfold absCfg ainit D.init
  simp only [abs_initCtx, ctxBottom_of_intact σ bv h]
  rfl

/-- the run after `ParserInit` on a used context whose bottom slot is intact is the list driver's
    run from the pristine state -/
theorem C15_reinit_ctx_run {V : Type} (P : Params V) (σ : AStack V) (w : List (Sym × V))
    (fuel : Nat) (bv : V) (h : BottomIntact σ bv) :
    absOutcome (arun P fuel (ainit (initCtx σ bv) w)) = some (D.run P fuel (D.init bv w)) := by
  rw [arun_refines P fuel _ (good_initCtx σ bv w), absCfg_initCtx σ bv w h]

theorem C15_reinit_ctx {V : Type} (P : Params V) (σ : AStack V) (w : List (Sym × V))
    (fuel : Nat) (bv : V) (h : BottomIntact σ bv) :
    absOutcome (arun P fuel (ainit (initCtx σ bv) w)) =
      absOutcome (arun P fuel (ainit (initCtx emptyStack bv) w)) ∧
    absOutcome (arun P fuel (ainit (initCtx σ bv) w)) = some (D.run P fuel (D.init bv w)) ∧
    arun P fuel (ainit (initCtx σ bv) w) ≠ .nil := by
  refine ⟨?_, C15_reinit_ctx_run P σ w fuel bv h, arun_ne_nil P fuel _ (good_initCtx σ bv w)⟩
  rw [C15_reinit_ctx_run P σ w fuel bv h, C15_reinit_ctx_run P emptyStack w fuel bv (Or.inl rfl)]

/-- `BottomIntact` is an invariant of the loop -/
theorem bottomIntact_preserved {V : Type} (P : Params V) (c c' : ACfg V) (bv : V) (hG : Good c)
    (hB : BottomIntact c.stack bv) (h : astep P c = .next c') :
    Good c' ∧ BottomIntact c'.stack bv := by
  refine ⟨astep_good P c c' hG h, ?_⟩
  have hne : c.stack.a ≠ [] := by
    intro h0
    have := hG.1; unfold AStack.Inv at this
    have := hG.2
    rw [h0] at *; simp at *; omega
  rcases hB with hB | hB
  · exact absurd hB hne
  · exact Or.inr (by rw [astep_get_zero P c c' hG h]; exact hB)

/-- … hence of any number of iterations, however the loop ends -/
theorem bottomIntact_alast {V : Type} (P : Params V) (fuel : Nat) (c : ACfg V) (bv : V) (hG : Good c)
    (hB : BottomIntact c.stack bv) :
    Good (alast P fuel c) ∧ BottomIntact (alast P fuel c).stack bv := by
  induction fuel generalizing c with
  | zero => exact ⟨hG, hB⟩
  | succ k ih =>
    simp only [alast]
    cases hs : astep P c with
    | next c' =>
      obtain ⟨hG', hB'⟩ := bottomIntact_preserved P c c' bv hG hB hs
      exact ih c' hG' hB'
    | acc v c' => exact ⟨hG, hB⟩
    | err c' => exact ⟨hG, hB⟩
    | crash => exact ⟨hG, hB⟩
    | nil => exact ⟨hG, hB⟩

theorem bottomIntact_initCtx {V : Type} (σ : AStack V) (bv : V) (h : BottomIntact σ bv) :
    BottomIntact (initCtx σ bv) bv := by
  unfold BottomIntact initCtx at *
  rcases h with h | h
  · right; simp [h]
  · right
    cases hs : σ.a with
    | nil => simp
    | cons x xs => rw [hs] at h; simpa using h

/-- the array of a context after a sequence of parses `(input, number of iterations)`, each started
    by `ParserInit`, beginning with a new context.  (A crash inside `ReduceFunc` leaves the pointer
    popped; `initCtx` does not look at the pointer, and `PopStateSym` does not touch the array.) -/
def ctxAfter {V : Type} (P : Params V) (bv : V) (jobs : List (List (Sym × V) × Nat)) : AStack V :=
  jobs.foldl (fun σ j => (alast P j.2 (ainit (initCtx σ bv) j.1)).stack) emptyStack

theorem bottomIntact_foldl {V : Type} (P : Params V) (bv : V) (jobs : List (List (Sym × V) × Nat))
    (σ : AStack V) (h : BottomIntact σ bv) :
    BottomIntact
      (jobs.foldl (fun σ j => (alast P j.2 (ainit (initCtx σ bv) j.1)).stack) σ) bv := by
  induction jobs generalizing σ with
  | nil => exact h
  | cons j js ih =>
    simp only [List.foldl_cons]
    exact ih _ (bottomIntact_alast P j.2 _ bv (good_initCtx σ bv j.1) (bottomIntact_initCtx σ bv h)).2

theorem bottomIntact_after_parses {V : Type} (P : Params V) (bv : V)
    (jobs : List (List (Sym × V) × Nat)) : BottomIntact (ctxAfter P bv jobs) bv :=
  bottomIntact_foldl P bv jobs emptyStack (Or.inl rfl)

/-- a context can be reused after any number of earlier parses, successful or failed -/
theorem C15_reinit_ctx_after_parses {V : Type} (P : Params V) (bv : V)
    (jobs : List (List (Sym × V) × Nat)) (w : List (Sym × V)) (fuel : Nat) :
    absOutcome (arun P fuel (ainit (initCtx (ctxAfter P bv jobs) bv) w)) =
      some (D.run P fuel (D.init bv w)) :=
  C15_reinit_ctx_run P _ w fuel bv (bottomIntact_after_parses P bv jobs)

/-! ### several contexts -/

theorem soloSteps_done {V : Type} (P : Params V) (n : Nat) (o : AOutcome V) :
    soloSteps P n (.done o) = .done o := by
  induction n with
  | zero => rfl
  | succ k ih => simp only [soloSteps, ctxStep]; exact ih

/-- `soloSteps` is `arun` with the state of the loop kept -/
theorem soloSteps_outcome {V : Type} (P : Params V) (n : Nat) (c : ACfg V) :
    (soloSteps P n (.running c)).outcome = arun P n c := by
  induction n generalizing c with
  | zero => rfl
  | succ k ih =>
    simp only [soloSteps, ctxStep, arun]
    cases hs : astep P c with
    | next c' => exact ih c'
    | acc v c' => simp only [soloSteps_done]; rfl
    | err c' => simp only [soloSteps_done]; rfl
    | crash => simp only [soloSteps_done]; rfl
    | nil => simp only [soloSteps_done]; rfl

theorem sysStep_self {V : Type} {k : Nat} (P : Params V) (S : Fin k → CtxSt V) (i : Fin k) :
    sysStep P S i i = ctxStep P (S i) := by simp [sysStep]

theorem sysStep_other {V : Type} {k : Nat} (P : Params V) (S : Fin k → CtxSt V) (i j : Fin k)
    (h : j ≠ i) : sysStep P S i j = S j := by simp [sysStep, h]

/-- under any schedule, context `i` ends where its solo run ends after as many iterations as the
    schedule gives it -/
theorem C15_contexts {V : Type} {k : Nat} (P : Params V) (S : Fin k → CtxSt V)
    (sched : List (Fin k)) (i : Fin k) :
    sysRun P S sched i = soloSteps P (sched.count i) (S i) := by
  induction sched generalizing S with
  | nil => rfl
  | cons j js ih =>
    simp only [sysRun]
    rw [ih, List.count_cons]
    by_cases h : j = i
    · subst h
      simp only [beq_self_eq_true, if_true, sysStep_self]
      rfl
    · have h' : (j == i) = false := by simpa using h
      simp only [h', Bool.false_eq_true, if_false, Nat.add_zero]
      rw [sysStep_other P S j i (fun e => h e.symm)]

/-- … so every initialised context of the system reports what the list driver reports on its own
    input, independently of the other contexts and of the schedule -/
theorem C15_contexts_run {V : Type} {k : Nat} (P : Params V) (σ : Fin k → AStack V)
    (w : Fin k → List (Sym × V)) (bv : V) (hσ : ∀ i, BottomIntact (σ i) bv)
    (sched : List (Fin k)) (i : Fin k) :
    absOutcome (sysRun P (fun j => .running (ainit (initCtx (σ j) bv) (w j))) sched i).outcome =
      some (D.run P (sched.count i) (D.init bv (w i))) := by
  rw [C15_contexts, soloSteps_outcome]
  exact C15_reinit_ctx_run P (σ i) (w i) _ bv (hσ i)

/-! ### non-vacuity -/

/-- a used context: stale entries above the pointer, bottom intact -/
def usedStack : AStack Nat := ⟨[bottom 0, ⟨9, 9, 9⟩, ⟨8, 8, 8⟩, ⟨7, 7, 7⟩], 3⟩

example : BottomIntact usedStack 0 := Or.inr rfl

/-- `ParserInit` of the context template grows the array by one each time -/
example : (initCtx usedStack 0).a.length = 5 ∧ (initCtx usedStack 0).sp = 1 := by decide

example : verdict (arun tinyP 10 (ainit (initCtx usedStack 0) [(3, 7)])) =
    (0, some 107, [1], 2, [.shift 2 2, .reduce 1 1 2, .shift 3 1]) := by decide

/-- the hypothesis of `C15_reinit_ctx` is needed: with a foreign entry at index 0 (state 1 instead
    of state 0) the same input is rejected -/
def brokenStack : AStack Nat := ⟨[⟨1, 3, 0⟩], 1⟩

example : verdict (arun tinyP 10 (ainit (initCtx brokenStack 0) [(3, 7)])) =
    (1, none, [], 1, []) := by decide

/-- the context's array after an accepted parse, a syntax error and a crash: three bottoms appended,
    slot 0 intact -/
example : ((ctxAfter tinyP 0 [([(3, 7)], 10), ([(3, 7), (3, 8)], 10), ([(5, 1)], 10)]).a.map
    (fun e => (e.st, e.sym))) = [(0, 1), (1, 3), (0, 1), (0, 1)] := by decide

/-- two contexts, interleaved: each accepts its own input with its own value -/
def twoCtx : Fin 2 → CtxSt Nat
  | ⟨0, _⟩ => .running (ainit (initCtx emptyStack 0) [(3, 7)])
  | ⟨_ + 1, _⟩ => .running (ainit (initCtx usedStack 0) [(3, 40)])

example : verdict (sysRun tinyP twoCtx [0, 1, 1, 0, 0, 1, 0, 1] 0).outcome =
    (0, some 107, [1], 2, [.shift 2 2, .reduce 1 1 2, .shift 3 1]) := by decide

example : verdict (sysRun tinyP twoCtx [0, 1, 1, 0, 0, 1, 0, 1] 1).outcome =
    (0, some 140, [1], 2, [.shift 2 2, .reduce 1 1 2, .shift 3 1]) := by decide

end Y.Props
