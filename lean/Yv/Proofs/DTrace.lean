import Yv.Proofs.DSound
/-! The trace of the driver model replayed against the LR automaton (C17).

`replayStep` consumes one trace event on a pair (state stack, remaining input symbols):
  * `shift X p`   — the top state must have the edge `X → p`; a terminal `X` must be the next input
                    symbol and is consumed; `p` is pushed;
  * `reduce la r g` — `la` must be the current lookahead (next input symbol, or the end marker `1`),
                    rule `r` exists, its right-hand side is popped, and the uncovered state must have
                    the edge `lhs r → g` (the push itself is the `shift` event that follows).
`TInv` says: replaying the whole trace so far from `([0], w)` succeeds and ends exactly in the
driver's current stack of states and remaining input; the `reduce` events, in order, are the
reductions performed. -/
namespace Y.D
open Y
variable {V : Type}

def replayStep (G : Grammar) (A : Auto) : Option (List Nat × List Sym) → Ev → Option (List Nat × List Sym)
  | none, _ => none
  | some (st, inp), .shift X p =>
    match st with
    | [] => none
    | q :: _ =>
      if A.goto q X = some p then
        if G.isT X then
          match inp with
          | a :: inp' => if a = X then some (p :: st, inp') else none
          | [] => none
        else some (p :: st, inp)
      else none
  | some (st, inp), .reduce la r g =>
    match G.rules[r]? with
    | none => none
    | some rl =>
      if la = inp.headD 1 ∧ rl.rhs.length < st.length ∧
          A.goto (stTopN (st.drop rl.rhs.length)) rl.lhs = some g then
        some (st.drop rl.rhs.length, inp)
      else none
where
  stTopN : List Nat → Nat
    | [] => 0
    | q :: _ => q

def replay (G : Grammar) (A : Auto) (evs : List Ev) (s0 : List Nat × List Sym) : Option (List Nat × List Sym) :=
  evs.foldl (replayStep G A) (some s0)

theorem replay_snoc (G : Grammar) (A : Auto) (evs : List Ev) (e : Ev) (s0 : List Nat × List Sym) :
    replay G A (evs ++ [e]) s0 = replayStep G A (replay G A evs s0) e := by
  simp [replay, List.foldl_append]

def ruleOf : Ev → Option Nat
  | .reduce _ r _ => some r
  | .shift _ _ => none

structure TInv (G : Grammar) (A : Auto) (w : List Sym) (c : Cfg V) : Prop where
  rep : replay G A c.trace.reverse ([0], w) = some (c.stack.map Entry.st, c.rest.map Prod.fst)
  reds : c.trace.reverse.filterMap ruleOf = c.reds.reverse

theorem tinv_init (G : Grammar) (A : Auto) (bv : V) (w : List (Sym × V)) :
    TInv G A (w.map Prod.fst) (init bv w) := by
  constructor <;> simp [init, replay]

theorem stTopN_map (st : List (Entry V)) : replayStep.stTopN (st.map Entry.st) = stTop st := by
  cases st <;> rfl

/-- One step keeps the trace invariant (on a certified table, from an invariant configuration). -/
theorem step_tinv {G : Grammar} {nS : Nat} {A : Auto} {T : Dense} {w : List Sym}
    (sem : Nat → List V → V) (eofVal : V)
    (hG : GOK G nS) (hA : AOK G A) (hT : TOK G nS A T) {c c' : Cfg V} (h : Inv G A w c)
    (ht : TInv G A w c) (hs : step (dparams G T A.n sem eofVal) c = .next c') : TInv G A w c' := by
  obtain ⟨hpath, hterm, _, _⟩ := h
  obtain ⟨hrep, hreds⟩ := ht
  cases hst : c.stack with
  | nil => exact absurd hst hpath.ne_nil
  | cons top below =>
  rw [hst] at hpath
  have hq : top.st < A.n := hpath.top_lt hA
  unfold step at hs
  rw [hst] at hs
  simp only [dparams] at hs
  generalize hlook : look eofVal c = lk at hs
  have hale : lk.1 ≤ G.nT := by
    rw [← hlook]
    cases hr : c.rest with
    | nil => rw [look_nil hr]; exact hG.nT1
    | cons x xs => rw [look_cons hr]; exact (hterm x (by simp [hr])).1
  cases hv : cell T top.st lk.1 with
  | none => simp [hv] at hs
  | some v =>
  simp only [hv] at hs
  by_cases he : v = errCode A.n
  · simp [he] at hs
  by_cases hacc : v = accCode A.n
  · have hne : accCode A.n ≠ errCode A.n := by unfold accCode errCode; omega
    subst hacc
    simp [hne] at hs
  by_cases hpos : 0 < v
  · -- shift
    simp only [he, hacc, hpos, if_false, if_true] at hs
    cases hs
    obtain ⟨ha1, hgoto⟩ := hT.shift _ _ _ hv he hacc hpos
    have ha0 : lk.1 ≠ 0 := by
      intro h0; rw [h0] at hv; exact he (hT.col0 _ _ hv)
    have haT : G.isT lk.1 = true := isT_of hale ha0
    cases hr : c.rest with
    | nil => rw [look_nil hr] at hlook; rw [← hlook] at ha1; exact absurd rfl ha1
    | cons x xs =>
      rw [look_cons hr] at hlook
      subst hlook
      constructor
      · simp only [List.reverse_cons, replay_snoc, hrep, hst, hr]
        simp [replayStep, hgoto, haT]
      · simp only [List.reverse_cons, List.filterMap_append, hreds]
        simp [ruleOf]
  · -- reduce
    simp only [he, hacc, hpos, if_false] at hs
    obtain ⟨hr1, hrlt, _, hit⟩ := hT.red _ _ _ hv he hacc hpos
    have hrne : (-v).toNat ≠ 0 := by omega
    obtain ⟨rl, hrl⟩ : ∃ rl, G.rules[(-v).toNat]? = some rl := ⟨G.rules[(-v).toNat], by simp [hrlt]⟩
    rw [rhsOf_eq hrl] at hit
    obtain ⟨hlen, _, hpd, hr0⟩ := handle hA rl.rhs.length (top :: below) _ hpath (by simpa [stTop] using hit)
    have hnb : rl.rhs.length ≤ below.length := by simp at hlen; omega
    simp only [hrne, hrl, Option.map_some, hnb, if_true, if_false] at hs
    cases hdrop : (top :: below).drop rl.rhs.length with
    | nil => rw [hdrop] at hpd; exact absurd rfl hpd.ne_nil
    | cons under rest' =>
    rw [hdrop] at hpd hr0
    simp only [hdrop] at hs
    have hqu : under.st < A.n := hpd.top_lt hA
    obtain ⟨jt, hj, hjx⟩ := hA.just _ hqu _ hr0 rfl hrne
    rw [lhsOf_eq hrl] at hjx
    obtain ⟨p, hgp, _⟩ := hA.gotoC _ hqu _ hj _ hjx
    have hnt := hG.lhsNT _ _ hrl hr1
    have hcell := hT.ntEdge _ hqu _ _ hgp hnt
    simp only [hcell] at hs
    have hnn : ¬ ((p : Int) < 0) := by omega
    simp only [hnn, if_false, Int.toNat_natCast] at hs
    cases hs
    have hlk : lk.1 = (c.rest.map Prod.fst).headD 1 := by
      rw [← hlook]
      cases hr : c.rest with
      | nil => rw [look_nil hr]; rfl
      | cons x xs => rw [look_cons hr]; rfl
    have hdropst : (List.map Entry.st (top :: below)).drop rl.rhs.length = under.st :: rest'.map Entry.st := by
      rw [← List.map_drop, hdrop]; rfl
    constructor
    · simp only [List.reverse_cons, List.append_assoc, List.cons_append, List.nil_append]
      rw [show c.trace.reverse ++ [Ev.reduce lk.1 (-v).toNat p, Ev.shift rl.lhs p] =
            (c.trace.reverse ++ [Ev.reduce lk.1 (-v).toNat p]) ++ [Ev.shift rl.lhs p] by simp]
      rw [replay_snoc, replay_snoc, hrep, hst]
      have hlen' : rl.rhs.length < (List.map Entry.st (top :: below)).length := by simp; omega
      simp only [replayStep, hrl, hlk, hlen', hdropst, replayStep.stTopN, hgp, and_self, if_true, true_and, hnt]
      simp
    · simp only [List.reverse_cons, List.filterMap_append, List.append_assoc]
      simp [ruleOf, hreds]

end Y.D
