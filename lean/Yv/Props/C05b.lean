import Yv.Model.SplitA
import Yv.Props.C05
import Yv.Props.C01
/-! C05, second half: looking up any (state, symbol) through the packed arrays with their
    default-action and default-goto vectors returns exactly the entry of the uncompressed table.

    Composition proved: `TrySplitTable` (`PackX.trySplit`, or `trySplitWith choose` for an arbitrary
    default choice) ; `PackTable` (the verified `PackA.packA`) ; generated lookup (`lookupA`).

    * `C05_split_lookup`      : the statement for `PackX.trySplit`, under `DenseWF`.
    * `C05_split_lookup_any`  : the same for every default-choice function (tie-break independence).
    * `denseWF_of_simple`     : `DenseSimple` (a condition on the dense table alone) implies `DenseWFWith`
                                 for every choice function; `C05_split_lookup_simple` combines the two.
    The only fact used about the packing beyond `C05_pack_roundtrip` is `packA_hit_ne_zero`:
    a slot that passes the check-vector test holds a non-zero value. -/
namespace SplitA
open PackX

/-- `PackX.trySplit` is the instance of `trySplitWith` at the first-maximum choice -/
theorem trySplit_eq : PackX.trySplit = trySplitWith PackX.findMax := rfl

theorem zip_map_self {α β γ : Type} (f : α → β) (g : α → β → γ) (l : List α) :
    ((l.zip (l.map f)).map fun (x : α × β) => g x.1 x.2) = l.map fun r => g r (f r) := by
  induction l with
  | nil => rfl
  | cons x xs ih => simp [ih]

theorem getD_blank (r : List Int) (d : Int) (i : Nat) :
    (blank r d).getD i 0 = if r.getD i 0 = d then 0 else r.getD i 0 := by
  unfold blank
  simp only [List.getD_eq_getElem?_getD, List.getElem?_map]
  cases h : r[i]? with
  | none => simp
  | some v => simp

theorem getD_append_left (l l' : List Int) (n : Nat) (h : n < l.length) :
    (l ++ l').getD n 0 = l.getD n 0 := by
  simp [List.getD_eq_getElem?_getD, List.getElem?_append_left h]

theorem getD_append_right (l l' : List Int) (n : Nat) (h : l.length ≤ n) :
    (l ++ l').getD n 0 = l'.getD (n - l.length) 0 := by
  simp [List.getD_eq_getElem?_getD, List.getElem?_append_right h]

theorem getD_take (l : List Int) (n i : Nat) (h : i < n) : (l.take n).getD i 0 = l.getD i 0 := by
  simp [List.getD_eq_getElem?_getD, h]

theorem length_blank (r : List Int) (d : Int) : (blank r d).length = r.length := by
  simp [blank]

/-- column `k` of the goto part -/
def gcol (T : List (List Int)) (nT k : Nat) : List Int := (T.map (·.drop (nT + 1))).map fun r => r.getD k 0

theorem tab_eq (choose : List Int → Int) (T : List (List Int)) (nT : Nat) :
    (trySplitWith choose T nT).tab =
      ((T.map fun r => blank (r.take (nT + 1)) (choose (r.take (nT + 1)))).zip
        ((List.range T.length).map fun i =>
          ((List.range ((T.headD []).length - nT - 1)).map fun k =>
            blank (gcol T nT k) (choose (gcol T nT k))).map fun c => c.getD i 0)).map
        fun x => x.1 ++ x.2 := by
  unfold trySplitWith
  simp only [transpose]
  rw [zip_map_self choose blank, zip_map_self choose blank]
  simp only [List.map_map, gcol]
  rfl

theorem getD_zip_row {α β γ δ : Type} (l : List α) (f : α → β) (g : Nat → γ) (h : β × γ → δ) (q : Nat)
    (hq : q < l.length) (dl : α) (dd : δ) :
    (((l.map f).zip ((List.range l.length).map g)).map h).getD q dd = h (f (l.getD q dl), g q) := by
  simp [List.getD_eq_getElem?_getD, hq]

theorem length_tab (choose : List Int → Int) (T : List (List Int)) (nT : Nat) :
    (trySplitWith choose T nT).tab.length = T.length := by
  rw [tab_eq]; simp

theorem headD_length (T : List (List Int)) (nS : Nat) (hrect : ∀ r ∈ T, r.length = nS) (h : T ≠ []) :
    (T.headD []).length = nS := by
  cases T with
  | nil => exact absurd rfl h
  | cons x xs => exact hrect x (List.mem_cons_self ..)

theorem row_eq (choose : List Int → Int) (T : List (List Int)) (nT q : Nat) (hq : q < T.length) :
    (trySplitWith choose T nT).tab.getD q [] =
      blank ((T.getD q []).take (nT + 1)) (choose ((T.getD q []).take (nT + 1))) ++
        (List.range ((T.headD []).length - nT - 1)).map fun k =>
          (blank (gcol T nT k) (choose (gcol T nT k))).getD q 0 := by
  rw [tab_eq, getD_zip_row _ _ _ _ q hq []]
  simp

theorem row_length (T : List (List Int)) (nS : Nat) (hrect : ∀ r ∈ T, r.length = nS) (q : Nat)
    (hq : q < T.length) : (T.getD q []).length = nS := by
  apply hrect
  rw [List.getD_eq_getElem?_getD, List.getElem?_eq_getElem hq]
  exact List.getElem_mem hq

theorem tab_rect (choose : List Int → Int) (T : List (List Int)) (nT nS : Nat)
    (hrect : ∀ r ∈ T, r.length = nS) (hnT : nT < nS) :
    ∀ r ∈ (trySplitWith choose T nT).tab, r.length = nS := by
  intro r hr
  obtain ⟨q, hq, rfl⟩ := List.getElem_of_mem hr
  have hq' : q < T.length := by rw [length_tab] at hq; exact hq
  have hne : T ≠ [] := by intro h; rw [h] at hq'; simp at hq'
  have : (trySplitWith choose T nT).tab[q] = (trySplitWith choose T nT).tab.getD q [] := by
    rw [List.getD_eq_getElem?_getD, List.getElem?_eq_getElem hq]; rfl
  rw [this, row_eq choose T nT q hq', List.length_append, length_blank, List.length_take,
    row_length T nS hrect q hq', headD_length T nS hrect hne, List.length_map, List.length_range]
  omega

theorem gcol_getD (T : List (List Int)) (nT k q : Nat) (hq : q < T.length) :
    (gcol T nT k).getD q 0 = (T.getD q []).getD (nT + 1 + k) 0 := by
  unfold gcol
  simp [List.getD_eq_getElem?_getD, hq]

theorem actdef_getD (choose : List Int → Int) (T : List (List Int)) (nT q : Nat) (hq : q < T.length) :
    (trySplitWith choose T nT).actdef.getD q 0 = choose ((T.getD q []).take (nT + 1)) := by
  unfold trySplitWith
  simp [List.getD_eq_getElem?_getD, hq]

theorem gtdef_getD (choose : List Int → Int) (T : List (List Int)) (nT k : Nat)
    (hk : k < (T.headD []).length - nT - 1) :
    (trySplitWith choose T nT).gtdef.getD k 0 = choose (gcol T nT k) := by
  unfold trySplitWith
  simp only [transpose, List.map_map]
  rw [PackA.getD_map_range, if_pos hk]
  simp [gcol]

/-- every cell of the split table: 0 if the dense cell equals its default, else the dense cell -/
theorem tab_cell (choose : List Int → Int) (T : List (List Int)) (nT nS : Nat)
    (hrect : ∀ r ∈ T, r.length = nS) (hnT : nT < nS) (q a : Nat) (hq : q < T.length) (ha : a < nS) :
    ((trySplitWith choose T nT).tab.getD q []).getD a 0 =
      if (T.getD q []).getD a 0 = dflt (trySplitWith choose T nT) nT q a then 0
      else (T.getD q []).getD a 0 := by
  have hne : T ≠ [] := by intro h; rw [h] at hq; simp at hq
  have hh := headD_length T nS hrect hne
  have hl := row_length T nS hrect q hq
  rw [row_eq choose T nT q hq]
  unfold dflt
  by_cases hc : a > nT
  · rw [if_pos hc, gtdef_getD choose T nT (a - nT - 1) (by omega)]
    rw [getD_append_right _ _ _ (by rw [length_blank, List.length_take]; omega)]
    rw [length_blank, List.length_take, hl, PackA.getD_map_range, if_pos (by omega), getD_blank,
      gcol_getD T nT _ q hq]
    have : nT + 1 + (a - min (nT + 1) nS) = a := by omega
    have h2 : a - min (nT + 1) nS = a - nT - 1 := by omega
    rw [this, h2]
  · rw [if_neg hc, actdef_getD choose T nT q hq]
    rw [getD_append_left _ _ _ (by rw [length_blank, List.length_take]; omega), getD_blank,
      getD_take _ _ _ (by omega)]

/-! ### the packing fact behind the check vector: a slot that passes the check holds a non-zero value -/

open PackA PackP in
theorem packA_hit_ne_zero (tab : List (List Int)) (i j : Nat) (hi : i < tab.length)
    (hh : ¬ ((packA tab).off.getD i 0 + (j : Int) < 0 ∨
      ((packA tab).check.length : Int) ≤ (packA tab).off.getD i 0 + (j : Int) ∨
      (packA tab).check.getD ((packA tab).off.getD i 0 + (j : Int)).toNat (-1) ≠ (i : Int))) :
    unpackLookup (packA tab) i j ≠ 0 := by
  obtain ⟨d, hm⟩ := place_mem tab i hi
  have hinv := place_inv tab
  show unpackLookup (packOf tab (place tab)) i j ≠ 0
  rw [unpackLookup_eq_lookup tab (place tab) hinv i d j hm hi]
  unfold PackP.lookup
  by_cases ho : slotOwner tab (place tab) (d + j) = some i
  · rw [if_pos ho]
    cases hx : owner tab (place tab) (d + j) with
    | none => unfold slotOwner at ho; rw [hx] at ho; simp at ho
    | some x => exact slotVal_ne_zero hx
  · exfalso
    apply hh
    show (packOf tab (place tab)).off.getD i 0 + (j : Int) < 0 ∨
      ((packOf tab (place tab)).check.length : Int) ≤ (packOf tab (place tab)).off.getD i 0 + (j : Int) ∨
      (packOf tab (place tab)).check.getD ((packOf tab (place tab)).off.getD i 0 + (j : Int)).toNat (-1) ≠ (i : Int)
    rw [off_getD tab _ i hi, dispOf_eq hinv hm, check_length]
    by_cases h1 : (d : Int) - (trimK tab (place tab) : Int) + (j : Int) < 0
    · exact Or.inl h1
    by_cases h2 : ((maxIndex tab (place tab) + 1 - trimK tab (place tab) : Nat) : Int) ≤
        (d : Int) - (trimK tab (place tab) : Int) + (j : Int)
    · exact Or.inr (Or.inl h2)
    refine Or.inr (Or.inr ?_)
    have hnat : ((d : Int) - (trimK tab (place tab) : Int) + (j : Int)).toNat =
        d + j - trimK tab (place tab) := by omega
    have hp : trimK tab (place tab) + (d + j - trimK tab (place tab)) = d + j := by omega
    rw [hnat, check_getD tab _ _ (by omega), hp]
    intro hc
    exact ho ((chkVal_eq_iff tab (place tab) (d + j) i).mp hc)

theorem cellOK_of_wf (choose : List Int → Int) (T : List (List Int)) (nT nS : Nat) (err : Int)
    (hwf : DenseWFWith choose T nT nS err = true) (q a : Nat) (hq : q < T.length) (ha : a < nS) :
    cellOK (PackA.packA (trySplitWith choose T nT).tab) (trySplitWith choose T nT) nT err T q a = true := by
  unfold DenseWFWith at hwf
  simp only [List.all_eq_true, List.mem_range] at hwf
  exact hwf q hq a ha

theorem C05_split_lookup_any (choose : List Int → Int) (T : List (List Int)) (nT nS : Nat) (err : Int)
    (hrect : ∀ r ∈ T, r.length = nS) (hnT : nT < nS) (hwf : DenseWFWith choose T nT nS err = true)
    (q a : Nat) (hq : q < T.length) (ha : a < nS) :
    lookupA (PackA.packA (trySplitWith choose T nT).tab) (trySplitWith choose T nT) nT err q a
      = (T.getD q []).getD a 0 := by
  have hc := cellOK_of_wf choose T nT nS err hwf q a hq ha
  unfold cellOK at hc
  simp only [Bool.and_eq_true, Bool.or_eq_true, bne_iff_ne, ne_eq, beq_iff_eq, decide_eq_true_eq] at hc
  obtain ⟨h1, h2⟩ := hc
  have hq' : q < (trySplitWith choose T nT).tab.length := by rw [length_tab]; exact hq
  have hrt := PackA.C05_pack_roundtrip (trySplitWith choose T nT).tab
    (tab_rect choose T nT nS hrect hnT) q a hq' ha
  rw [tab_cell choose T nT nS hrect hnT q a hq ha] at hrt
  have hnz := packA_hit_ne_zero (trySplitWith choose T nT).tab q a hq'
  unfold PackA.unpackLookup at hrt hnz
  unfold lookupA
  show (if _ then _ else if _ then dflt (trySplitWith choose T nT) nT q a else _) = _
  generalize dflt (trySplitWith choose T nT) nT q a = d at *
  generalize (T.getD q []).getD a 0 = v at *
  generalize (PackA.packA (trySplitWith choose T nT).tab).off.getD q 0 + (a : Int) = o at *
  generalize (PackA.packA (trySplitWith choose T nT).tab).check.length = L at *
  generalize (PackA.packA (trySplitWith choose T nT).tab).check.getD o.toNat (-1) = c at *
  generalize (PackA.packA (trySplitWith choose T nT).tab).act.getD o.toNat 0 = x at *
  grind

theorem C05_split_lookup (T : List (List Int)) (nT nS : Nat) (err : Int)
    (hrect : ∀ r ∈ T, r.length = nS) (hnT : nT < nS) (hwf : DenseWF T nT nS err = true)
    (q a : Nat) (hq : q < T.length) (ha : a < nS) :
    lookupA (PackA.packA (PackX.trySplit T nT).tab) (PackX.trySplit T nT) nT err q a
      = (T.getD q []).getD a 0 :=
  C05_split_lookup_any PackX.findMax T nT nS err hrect hnT hwf q a hq ha

/-! ### the sufficient criterion on the dense table alone -/

/-- a non-blank cell of the split table has a non-negative slot index -/
theorem nonblank_off (choose : List Int → Int) (T : List (List Int)) (nT nS : Nat)
    (hrect : ∀ r ∈ T, r.length = nS) (hnT : nT < nS) (q a : Nat) (hq : q < T.length) (ha : a < nS)
    (hnb : ((trySplitWith choose T nT).tab.getD q []).getD a 0 ≠ 0) :
    0 ≤ (PackA.packA (trySplitWith choose T nT).tab).off.getD q 0 + (a : Int) := by
  have hq' : q < (trySplitWith choose T nT).tab.length := by rw [length_tab]; exact hq
  have hrt := PackA.C05_pack_roundtrip (trySplitWith choose T nT).tab
    (tab_rect choose T nT nS hrect hnT) q a hq' ha
  rw [← hrt] at hnb
  unfold PackA.unpackLookup at hnb
  grind

theorem getElem_eq_getD (r : List Int) (i : Nat) (h : i < r.length) : r[i] = r.getD i 0 := by
  simp [List.getD_eq_getElem?_getD, h]

theorem getD_mem (r : List Int) (a : Nat) (ha : a < r.length) : r.getD a 0 ∈ r := by
  rw [List.getD_eq_getElem?_getD, List.getElem?_eq_getElem ha]
  exact List.getElem_mem ha

theorem denseWF_of_simple (choose : List Int → Int) (T : List (List Int)) (nT nS : Nat) (err : Int)
    (hrect : ∀ r ∈ T, r.length = nS) (hnT : nT < nS) (hs : DenseSimple T nT err = true) :
    DenseWFWith choose T nT nS err = true := by
  unfold DenseWFWith
  simp only [List.all_eq_true, List.mem_range]
  intro q hq a ha
  have hl := row_length T nS hrect q hq
  have hmem : T.getD q [] ∈ T := by
    rw [List.getD_eq_getElem?_getD, List.getElem?_eq_getElem hq]; exact List.getElem_mem hq
  unfold DenseSimple at hs
  simp only [List.all_eq_true, Bool.and_eq_true, bne_iff_ne, ne_eq, beq_iff_eq, List.any_eq_true] at hs
  obtain ⟨⟨hz, h0⟩, x, hx, hxe⟩ := hs _ hmem
  have hv : ∀ b, b < nS → (T.getD q []).getD b 0 ≠ 0 := fun b hb => hz _ (getD_mem _ b (by omega))
  unfold cellOK
  simp only [Bool.and_eq_true, Bool.or_eq_true, bne_iff_ne, ne_eq, beq_iff_eq, decide_eq_true_eq]
  refine ⟨Or.inl (hv a ha), ?_⟩
  by_cases ho : 0 ≤ (PackA.packA (trySplitWith choose T nT).tab).off.getD q 0 + (a : Int)
  · exact Or.inl ho
  right
  have had : ∀ b, b ≤ nT → dflt (trySplitWith choose T nT) nT q b =
      choose ((T.getD q []).take (nT + 1)) := by
    intro b hb
    unfold dflt
    rw [if_neg (by omega), actdef_getD choose T nT q hq]
  by_cases hd : choose ((T.getD q []).take (nT + 1)) = err
  · -- the action default is err: some action cell a0 is not err, hence non-blank
    obtain ⟨a0, ha0, rfl⟩ := List.getElem_of_mem hx
    have ha0' : a0 < min (nT + 1) nS := by rw [List.length_take, hl] at ha0; exact ha0
    have hx0 : ((T.getD q []).take (nT + 1))[a0] = (T.getD q []).getD a0 0 := by
      have : a0 < (T.getD q []).length := by omega
      rw [List.getElem_take]
      exact getElem_eq_getD _ _ this
    rw [hx0] at hxe
    have hnb : ((trySplitWith choose T nT).tab.getD q []).getD a0 0 ≠ 0 := by
      rw [tab_cell choose T nT nS hrect hnT q a0 hq (by omega), had a0 (by omega), hd, if_neg hxe]
      exact hv a0 (by omega)
    have := nonblank_off choose T nT nS hrect hnT q a0 hq (by omega) hnb
    rw [had a (by omega), hd]
  · -- the action default is not err: column 0 (= err) is non-blank, so no index is negative
    exfalso
    have hnb : ((trySplitWith choose T nT).tab.getD q []).getD 0 0 ≠ 0 := by
      rw [tab_cell choose T nT nS hrect hnT q 0 hq (by omega), had 0 (by omega), h0,
        if_neg (fun h => hd h.symm)]
      rw [← h0]; exact hv 0 (by omega)
    have := nonblank_off choose T nT nS hrect hnT q 0 hq (by omega) hnb
    omega

/-- the theorem under the criterion that looks at the dense table only, for ANY default choice -/
theorem C05_split_lookup_simple (choose : List Int → Int) (T : List (List Int)) (nT nS : Nat) (err : Int)
    (hrect : ∀ r ∈ T, r.length = nS) (hnT : nT < nS) (hs : DenseSimple T nT err = true)
    (q a : Nat) (hq : q < T.length) (ha : a < nS) :
    lookupA (PackA.packA (trySplitWith choose T nT).tab) (trySplitWith choose T nT) nT err q a
      = (T.getD q []).getD a 0 :=
  C05_split_lookup_any choose T nT nS err hrect hnT
    (denseWF_of_simple choose T nT nS err hrect hnT hs) q a hq ha

/-! ### non-vacuity -/
open Y.Props

/-- the split of the sample table of `Yv/Props/C01.lean` (5 states, nT = 3, one nonterminal) -/
theorem ex_tab : (PackX.trySplit exT 3).tab =
    [[0, 0, 2, 3, 1], [0, 205, 0, 0, 0], [0, 0, 2, 3, 4], [0, -2, 0, 0, 0], [0, -1, 0, 0, 0]] := by decide

example : (PackX.trySplit exT 3).actdef = [105, 105, 105, 105, 105] ∧
    (PackX.trySplit exT 3).gtdef = [105] := by decide

abbrev exTab : List (List Int) :=
  [[0, 0, 2, 3, 1], [0, 205, 0, 0, 0], [0, 0, 2, 3, 4], [0, -2, 0, 0, 0], [0, -1, 0, 0, 0]]

theorem ex_order : PackA.order exTab = [0, 2, 1, 3, 4] := by
  have c0 : PackA.cnt exTab 0 = 3 := by decide
  have c1 : PackA.cnt exTab 1 = 1 := by decide
  have c2 : PackA.cnt exTab 2 = 3 := by decide
  have c3 : PackA.cnt exTab 3 = 1 := by decide
  have c4 : PackA.cnt exTab 4 = 1 := by decide
  simp [PackA.order, List.mergeSort, List.range, List.range.loop, List.MergeSort.Internal.splitInTwo,
    c0, c1, c2, c3, c4]

theorem ex_packed : PackA.packA (PackX.trySplit exT 3).tab =
    { act := [205, 2, 3, 1, 2, 3, 4, -2, -1], off := [-1, -1, 2, 6, 7],
      check := [1, 0, 0, 0, 2, 2, 2, 3, 4] } := by
  rw [ex_tab]; unfold PackA.packA PackA.place; rw [ex_order]; decide

/-- the sample table is well-formed: evaluated directly ... -/
example : DenseWF exT 3 5 105 = true := by
  unfold DenseWF DenseWFWith
  rw [← trySplit_eq]
  simp only [ex_packed]
  decide

/-- ... and through the criterion on the dense table alone (no packing evaluated) -/
example : DenseSimple exT 3 105 = true := by decide

example : DenseWF exT 3 5 105 = true :=
  denseWF_of_simple PackX.findMax exT 3 5 105 (by decide) (by decide) (by decide)

/-- the generated lookup reproduces the whole dense table (direct evaluation).  Rows 0 and 1 have
    displacement -1 after the trim, so cells (0,0) and (1,0) go through the `off[q]+a < 0` branch. -/
example : ((List.range 5).map fun q => (List.range 5).map fun a =>
    lookupA (PackA.packA (PackX.trySplit exT 3).tab) (PackX.trySplit exT 3) 3 105 q a) = exT := by
  simp only [ex_packed]
  decide

/-- the general theorem instantiated: the `err` branch (cell (0,0)), a default action (cell (1,2)),
    a default goto (cell (1,4)), and a stored cell (cell (2,4)) -/
example : lookupA (PackA.packA (PackX.trySplit exT 3).tab) (PackX.trySplit exT 3) 3 105 0 0 = 105 :=
  C05_split_lookup exT 3 5 105 (by decide)
    (by decide) (denseWF_of_simple _ exT 3 5 105 (by decide) (by decide) (by decide)) 0 0 (by decide) (by decide)

example : lookupA (PackA.packA (PackX.trySplit exT 3).tab) (PackX.trySplit exT 3) 3 105 1 2 = 105 ∧
    lookupA (PackA.packA (PackX.trySplit exT 3).tab) (PackX.trySplit exT 3) 3 105 1 4 = 105 ∧
    lookupA (PackA.packA (PackX.trySplit exT 3).tab) (PackX.trySplit exT 3) 3 105 2 4 = 4 := by
  have h := C05_split_lookup exT 3 5 105 (by decide) (by decide)
    (denseWF_of_simple _ exT 3 5 105 (by decide) (by decide) (by decide))
  exact ⟨h 1 2 (by decide) (by decide), h 1 4 (by decide) (by decide), h 2 4 (by decide) (by decide)⟩

/-- tie-break independence, instantiated: a different default choice (always the first cell of the
    row / column) gives different arrays but the same answers -/
example (q a : Nat) (hq : q < 5) (ha : a < 5) :
    lookupA (PackA.packA (trySplitWith (fun r => r.getD 0 0) exT 3).tab)
      (trySplitWith (fun r => r.getD 0 0) exT 3) 3 105 q a = (exT.getD q []).getD a 0 :=
  C05_split_lookup_simple _ exT 3 5 105 (by decide) (by decide) (by decide) q a hq ha

example : (trySplitWith (fun r => r.getD 0 0) exT 3).gtdef = [1] ∧
    (PackX.trySplit exT 3).gtdef = [105] := by decide

/-! the two conditions of `DenseWF` are not superfluous -/

theorem order_single (r : List Int) : PackA.order [r] = [0] := by
  simp [PackA.order, List.range, List.range.loop]

/-- (1) a 0 cell whose default is not 0 is lost: `DenseWF` is false and cell (0,1) reads 5, not 0 -/
example : DenseWF [[5, 0, 7]] 1 3 5 = false ∧
    lookupA (PackA.packA (PackX.trySplit [[5, 0, 7]] 1).tab) (PackX.trySplit [[5, 0, 7]] 1) 1 5 0 1 = 5 := by
  have ht : (PackX.trySplit [[5, 0, 7]] 1).tab = [[0, 0, 0]] := by decide
  have hp : PackA.packA (PackX.trySplit [[5, 0, 7]] 1).tab = { act := [], off := [-1], check := [] } := by
    rw [ht]; unfold PackA.packA PackA.place; rw [order_single]; decide
  unfold DenseWF DenseWFWith
  rw [← trySplit_eq]
  simp only [hp]
  decide

/-- (2) a negative slot index where the default is not `err`: `DenseWF` is false and cell (0,0)
    reads `err` = 5, not 7 -/
example : DenseWF [[7, 7, 9]] 1 3 5 = false ∧
    lookupA (PackA.packA (PackX.trySplit [[7, 7, 9]] 1).tab) (PackX.trySplit [[7, 7, 9]] 1) 1 5 0 0 = 5 := by
  have ht : (PackX.trySplit [[7, 7, 9]] 1).tab = [[0, 0, 0]] := by decide
  have hp : PackA.packA (PackX.trySplit [[7, 7, 9]] 1).tab = { act := [], off := [-1], check := [] } := by
    rw [ht]; unfold PackA.packA PackA.place; rw [order_single]; decide
  unfold DenseWF DenseWFWith
  rw [← trySplit_eq]
  simp only [hp]
  decide

end SplitA

#print axioms SplitA.C05_split_lookup
#print axioms SplitA.C05_split_lookup_any
#print axioms SplitA.C05_split_lookup_simple
#print axioms SplitA.denseWF_of_simple
#print axioms SplitA.trySplit_eq
