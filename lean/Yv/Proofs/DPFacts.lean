import Yv.Abs.DPRel
import Yv.Proofs.DPrefix
/-! Helper lemmas for C03b: the DeRemer–Pennello sets (declarative, `Yv/Abs/DPRel.lean`) are exactly
    the LALR(1) lookahead sets `LA`. -/
namespace Y.DP
open Y

/-! ## `walk` -/

theorem walk_nil (goto : Nat → Sym → Option Nat) (q : Nat) : walk goto q [] = some q := rfl

theorem walk_cons {goto : Nat → Sym → Option Nat} {q p : Nat} {X : Sym} (h : goto q X = some p)
    (γ : List Sym) : walk goto q (X :: γ) = walk goto p γ := by
  simp only [walk, h]

theorem walk_snoc {goto : Nat → Sym → Option Nat} : ∀ (γ : List Sym) {q p p' : Nat} {X : Sym},
    walk goto q γ = some p → goto p X = some p' → walk goto q (γ ++ [X]) = some p' := by
  intro γ
  induction γ with
  | nil =>
    intro q p p' X h hg
    cases h
    simp only [List.nil_append, walk, hg]
  | cons Y γ ih =>
    intro q p p' X h hg
    rw [List.cons_append]
    unfold walk at h ⊢
    split at h
    · cases h
    · exact ih h hg

/-! ## first sets -/

theorem genL_single_t {G : Grammar} (hN : ∀ (r : Nat) (rl : Rule), G.rules[r]? = some rl → G.isT rl.lhs = false)
    {b : Sym} (hb : G.isT b = true) {v : List Sym} (h : GenL G [b] v) : v = [b] := by
  cases h with
  | tm t γ v' _ h' => cases h'; rfl
  | nt r rl γ u v' hr _ _ =>
    rw [hN r rl hr] at hb; cases hb

theorem firstOf_snoc_cases {G : Grammar}
    (hN : ∀ (r : Nat) (rl : Rule), G.rules[r]? = some rl → G.isT rl.lhs = false)
    {η : List Sym} {b a : Sym} (hb : G.isT b = true) (h : FirstOf G (η ++ [b]) a) :
    FirstOf G η a ∨ (GenL G η [] ∧ a = b) := by
  obtain ⟨u, hu⟩ := h
  obtain ⟨u1, u2, he, h1, h2⟩ := GenL.split _ _ _ hu
  have := genL_single_t hN hb h2
  subst this
  cases u1 with
  | nil =>
    simp only [List.nil_append, List.cons.injEq] at he
    exact Or.inr ⟨h1, he.1⟩
  | cons x xs =>
    simp only [List.cons_append, List.cons.injEq] at he
    obtain ⟨rfl, _⟩ := he
    exact Or.inl ⟨xs, h1⟩

theorem firstOf_snoc_left {G : Grammar} {η : List Sym} {b a : Sym} (hb : G.isT b = true)
    (h : FirstOf G η a) : FirstOf G (η ++ [b]) a := by
  obtain ⟨u, hu⟩ := h
  exact ⟨u ++ [b], by simpa using hu.snocT b hb⟩

theorem firstOf_snoc_null {G : Grammar} {η : List Sym} {b : Sym} (hb : G.isT b = true)
    (h : GenL G η []) : FirstOf G (η ++ [b]) b :=
  ⟨[], by simpa using h.snocT b hb⟩

theorem firstOf_cons_null {G : Grammar} {C : Sym} {γ : List Sym} {a : Sym} (hC : GenL G [C] [])
    (h : FirstOf G γ a) : FirstOf G (C :: γ) a := by
  obtain ⟨u, hu⟩ := h
  exact ⟨u, by simpa using GenL.cons1 hC hu⟩

theorem firstOf_cons_first {G : Grammar} {X : Sym} {γ : List Sym} {a : Sym}
    (hγ : ∀ x ∈ γ, Productive G x) (h : FirstOf G [X] a) : FirstOf G (X :: γ) a := by
  obtain ⟨u, hu⟩ := h
  obtain ⟨y, hy⟩ := gen_of_all_prod γ hγ
  exact ⟨u ++ y, by simpa using GenL.cons1 hu hy⟩

theorem firstOf_rule {G : Grammar} {r : Nat} {rl : Rule} (hr : G.rules[r]? = some rl) {a : Sym}
    (h : FirstOf G rl.rhs a) : FirstOf G [rl.lhs] a := by
  obtain ⟨u, hu⟩ := h
  exact ⟨u, GenL.ofRule hr hu⟩

/-- some terminal begins a string derived from a productive sequence that ends with a terminal -/
theorem firstOf_exists {G : Grammar} {η : List Sym} {b : Sym} (hb : G.isT b = true)
    (hη : ∀ x ∈ η, Productive G x) : ∃ a, FirstOf G (η ++ [b]) a := by
  obtain ⟨y, hy⟩ := gen_of_all_prod η hη
  have h := hy.snocT b hb
  cases y with
  | nil => exact ⟨b, [], by simpa using h⟩
  | cons a y' => exact ⟨a, y' ++ [b], by simpa using h⟩

/-! ## what the certificates give -/

/-- the Prop-level content of the decidable hypotheses `gramWF`, `certA`, `certCanon`, `prodOK` -/
structure DPH (G : Grammar) (nS : Nat) (A : Auto) : Prop where
  gok : GOK G nS
  aok : AOK G A
  cok : CanonOK G A
  prod : GramProd G

theorem find_of_nodup : ∀ (l : List (Sym × Nat)) (X : Sym) (p : Nat), (l.map Prod.fst).Nodup →
    (X, p) ∈ l → (l.find? (fun e => e.1 == X)).map Prod.snd = some p := by
  intro l
  induction l with
  | nil => intro X p _ h; cases h
  | cons e l ih =>
    intro X p hn hm
    simp only [List.map_cons, List.nodup_cons] at hn
    simp only [List.find?_cons]
    cases he : (e.1 == X)
    · simp only
      rcases List.mem_cons.mp hm with h | h
      · rw [← h] at he; simp at he
      · exact ih X p hn.2 h
    · simp only [Option.map_some]
      rcases List.mem_cons.mp hm with h | h
      · rw [← h]
      · have hx : e.1 = X := by simpa using he
        exact absurd (List.mem_map.mpr ⟨(X, p), h, hx.symm⟩) hn.1

theorem goto_lt {A : Auto} {q : Nat} {X : Sym} {p : Nat} (h : A.goto q X = some p) :
    q < A.gotos.length := by
  rcases Nat.lt_or_ge q A.gotos.length with hlt | hge
  · exact hlt
  · have hm := Auto.goto_mem h
    unfold Auto.gts at hm
    rw [List.getD_eq_getElem?_getD, List.getElem?_eq_none hge] at hm
    cases hm

section Auto
variable {G : Grammar} {nS : Nat} {A : Auto}

theorem DPH.goto_n (h : DPH G nS A) {q : Nat} {X : Sym} {p : Nat} (hg : A.goto q X = some p) :
    q < A.n := by
  have := goto_lt hg
  rw [h.aok.glen] at this
  exact this

theorem DPH.goto_of_mem (h : DPH G nS A) {q : Nat} (hq : q < A.n) {X : Sym} {p : Nat}
    (hm : (X, p) ∈ A.gts q) : A.goto q X = some p :=
  find_of_nodup _ X p (h.cok.symsNodup q hq) hm

theorem DPH.lhsNT (h : DPH G nS A) {r : Nat} {rl : Rule} (hr : G.rules[r]? = some rl) :
    G.isT rl.lhs = false := by
  rcases Nat.eq_zero_or_pos r with h0 | h1
  · subst h0
    obtain ⟨rl0, hr0, hl, _⟩ := h.gok.r0
    rw [hr] at hr0; cases hr0
    rw [hl]; simp [Grammar.isT]
  · exact h.gok.lhsNT r rl hr h1

/-- a rule whose left-hand side occurs in a right-hand side is not rule 0 -/
theorem DPH.ne0_of_lhs (h : DPH G nS A) {r d r' : Nat} {rl rl' : Rule} (hr : G.rules[r]? = some rl)
    (hr' : G.rules[r']? = some rl') (hx : rl.rhs[d]? = some rl'.lhs) : r' ≠ 0 := by
  intro h0
  subst h0
  obtain ⟨rl0, hr0, hl, _⟩ := h.gok.r0
  rw [hr'] at hr0; cases hr0
  have := (h.gok.rhs_ok r rl hr rl'.lhs (List.mem_of_getElem? hx)).1
  rw [hl] at this
  exact absurd this (by decide)

theorem DPH.state_cl (h : DPH G nS A) {q : Nat} (hq : q < A.n) :
    ∃ K : Item → Prop, ∀ it, it ∈ A.its q ↔ Cl0 G K it := by
  by_cases h0 : q = 0
  · subst h0; exact ⟨_, h.cok.s0⟩
  · obtain ⟨q', hlt, X, hm⟩ := h.cok.reach q hq h0
    exact ⟨_, (h.cok.entry q' (Nat.lt_trans hlt hq) X q hm).2.2⟩

/-- closure completeness -/
theorem DPH.clC (h : DPH G nS A) {q : Nat} (hq : q < A.n) {r d r' : Nat} {rl rl' : Rule}
    (hit : (⟨r, d⟩ : Item) ∈ A.its q) (hr : G.rules[r]? = some rl) (hr' : G.rules[r']? = some rl')
    (hx : rl.rhs[d]? = some rl'.lhs) : (⟨r', 0⟩ : Item) ∈ A.its q := by
  obtain ⟨K, hK⟩ := h.state_cl hq
  exact (hK _).mpr (.step r d r' rl rl' ((hK _).mp hit) hr hr' hx)

/-- goto completeness -/
theorem DPH.gotoC (h : DPH G nS A) {q : Nat} (hq : q < A.n) {r d : Nat} {rl : Rule} {X : Sym}
    (hit : (⟨r, d⟩ : Item) ∈ A.its q) (hr : G.rules[r]? = some rl) (hx : rl.rhs[d]? = some X) :
    ∃ p, A.goto q X = some p ∧ p < A.n ∧ p ≠ 0 ∧ (⟨r, d + 1⟩ : Item) ∈ A.its p := by
  obtain ⟨p, hg, hm⟩ := h.aok.gotoC q hq ⟨r, d⟩ hit X (rhsOf_get.mpr ⟨rl, hr, hx⟩)
  obtain ⟨hp, hp0, _⟩ := h.aok.edge q hq X p hg
  exact ⟨p, hg, hp, hp0, hm⟩

/-- a state with an item of a rule other than rule 0 at dot 0 has a transition on its left-hand side -/
theorem DPH.goto_lhs (h : DPH G nS A) {q : Nat} (hq : q < A.n) {r : Nat} (hr0 : r ≠ 0)
    (hit : (⟨r, 0⟩ : Item) ∈ A.its q) : ∃ p, A.goto q (G.lhsOf r) = some p := by
  obtain ⟨jt, hj, hx⟩ := h.aok.just q hq ⟨r, 0⟩ hit rfl hr0
  obtain ⟨p, hg, _⟩ := h.aok.gotoC q hq jt hj _ hx
  exact ⟨p, hg⟩

theorem DPH.clC' (h : DPH G nS A) {q : Nat} (hq : q < A.n) {r d r' : Nat} {rl' : Rule}
    (hit : (⟨r, d⟩ : Item) ∈ A.its q) (hx : (G.rhsOf r)[d]? = some rl'.lhs)
    (hr' : G.rules[r']? = some rl') : (⟨r', 0⟩ : Item) ∈ A.its q := by
  obtain ⟨rl, hr, hx'⟩ := rhsOf_get.mp hx
  exact h.clC hq hit hr hr' hx'

theorem DPH.gotoC' (h : DPH G nS A) {q : Nat} (hq : q < A.n) {r d : Nat} {X : Sym}
    (hit : (⟨r, d⟩ : Item) ∈ A.its q) (hx : (G.rhsOf r)[d]? = some X) :
    ∃ p, A.goto q X = some p ∧ p < A.n ∧ p ≠ 0 ∧ (⟨r, d + 1⟩ : Item) ∈ A.its p := by
  obtain ⟨rl, hr, hx'⟩ := rhsOf_get.mp hx
  exact h.gotoC hq hit hr hx'

theorem drop_eq_cons {α : Type} : ∀ {l : List α} {d : Nat} {x : α} {xs : List α},
    l.drop d = x :: xs → l[d]? = some x ∧ l.drop (d + 1) = xs := by
  intro l
  induction l with
  | nil => intro d x xs h; simp at h
  | cons y ys ih =>
    intro d x xs h
    cases d with
    | zero =>
      simp only [List.drop_zero, List.cons.injEq] at h
      obtain ⟨rfl, rfl⟩ := h
      exact ⟨rfl, rfl⟩
    | succ d =>
      simp only [List.drop_succ_cons] at h
      have := ih h
      exact ⟨by simpa using this.1, by simpa using this.2⟩

theorem drop_of_get {α : Type} : ∀ {l : List α} {d : Nat} {x : α},
    l[d]? = some x → l.drop d = x :: l.drop (d + 1) := by
  intro l
  induction l with
  | nil => intro d x h; simp at h
  | cons y ys ih =>
    intro d x h
    cases d with
    | zero =>
      simp only [List.getElem?_cons_zero, Option.some.injEq] at h
      subst h; rfl
    | succ d =>
      simp only [List.getElem?_cons_succ] at h
      simpa using ih h

/-! ## reading: completeness -/

/-- state `s` can read `a`: via transitions on nullable nonterminals it reaches a state with a
    transition on the terminal `a` -/
inductive Rd (G : Grammar) (A : Auto) : Nat → Sym → Prop
  | base (s : Nat) (a : Sym) (s' : Nat) : G.isT a = true → A.goto s a = some s' → Rd G A s a
  | step (s : Nat) (C : Sym) (s' : Nat) (a : Sym) : G.isT C = false → GenL G [C] [] →
      A.goto s C = some s' → Rd G A s' a → Rd G A s a

theorem rd_inRead {p1 : Nat} {a : Sym} (hrd : Rd G A p1 a) :
    ∀ (p : Nat) (B : Sym), G.isT B = false → A.goto p B = some p1 → InRead G A p B a := by
  induction hrd with
  | base s a s' ha hg =>
    intro p B hB hp
    exact .dr p B a (.read p B s a s' hB hp ha hg)
  | step s C s' a hC hn hg _ ih =>
    intro p B hB hp
    exact .step p B s C a ⟨hp, hC, hn, s', hg⟩ (ih s C hC hg)

/-- an item `[.. · γ]` of state `s` with `a ∈ FIRST(γ)`: `s` can read `a` -/
theorem rd_of_first (h : DPH G nS A) : ∀ (γ w : List Sym), GenL G γ w → ∀ (a : Sym) (u : List Sym),
    w = a :: u → ∀ (s r d : Nat), s < A.n → (⟨r, d⟩ : Item) ∈ A.its s → (G.rhsOf r).drop d = γ →
    Rd G A s a := by
  intro γ w hg
  induction hg with
  | nil => intro a u hw; cases hw
  | tm t γ v ht _ _ =>
    intro a u hw s r d hs hit hd
    simp only [List.cons.injEq] at hw
    obtain ⟨rfl, _⟩ := hw
    obtain ⟨p, hp, _⟩ := h.gotoC' hs hit (drop_eq_cons hd).1
    exact .base s t p ht hp
  | nt r' rl γ u1 v hr' h1 _ ih1 ih2 =>
    intro a u hw s r d hs hit hd
    obtain ⟨hx, hd'⟩ := drop_eq_cons hd
    cases u1 with
    | nil =>
      simp only [List.nil_append] at hw
      obtain ⟨p, hp, hpn, _, hmem⟩ := h.gotoC' hs hit hx
      exact .step s rl.lhs p a (h.lhsNT hr') (GenL.ofRule hr' h1) hp
        (ih2 a u hw p r (d + 1) hpn hmem hd')
    | cons x xs =>
      simp only [List.cons_append, List.cons.injEq] at hw
      obtain ⟨rfl, _⟩ := hw
      have hmem := h.clC' hs hit hx hr'
      exact ih1 x xs rfl s r' 0 hs hmem (by rw [List.drop_zero, rhsOf_of_get hr'])

/-- `a ∈ FIRST(η)` for an item `[C → δ · B η]` of `p`: `a ∈ Read (p, B)` -/
theorem inRead_of_first (h : DPH G nS A) {p r d : Nat} {B a : Sym} (hp : p < A.n)
    (hit : (⟨r, d⟩ : Item) ∈ A.its p) (hx : (G.rhsOf r)[d]? = some B) (hB : G.isT B = false)
    (hf : FirstOf G ((G.rhsOf r).drop (d + 1)) a) : InRead G A p B a := by
  obtain ⟨u, hu⟩ := hf
  obtain ⟨p1, hg, hp1, _, hmem⟩ := h.gotoC' hp hit hx
  exact rd_inRead (rd_of_first h _ _ hu a u rfl p1 r (d + 1) hp1 hmem rfl) p B hB hg

/-! ## completeness: every LALR(1) lookahead is a DeRemer–Pennello lookahead -/

/-- invariant of an LALR(1) fact `[C → δ · γ], b` at `q`: the item was introduced at dot 0 in a state
    `p'` with `walk p' δ = q`, and `b ∈ Follow (p', C)` (or it is the start item's `$`) -/
def Inv (G : Grammar) (A : Auto) (q : Nat) (it : Item) (b : Sym) : Prop :=
  q < A.n ∧ it ∈ A.its q ∧ ∃ p', p' < A.n ∧
    walk A.goto p' ((G.rhsOf it.r).take it.d) = some q ∧ (⟨it.r, 0⟩ : Item) ∈ A.its p' ∧
    ((it.r = 0 ∧ p' = 0 ∧ b = 1) ∨ (it.r ≠ 0 ∧ InFollow G A p' (G.lhsOf it.r) b))

theorem inv_clos (h : DPH G nS A) {q r d : Nat} {b : Sym} {r' : Nat} {a : Sym}
    (hla : LA G A.goto q ⟨r, d⟩ b) (ih : Inv G A q ⟨r, d⟩ b) (hs : ClStep G r d b r' a) :
    Inv G A q ⟨r', 0⟩ a := by
  obtain ⟨hq, hit, p', hp', hw, hit0, hor⟩ := ih
  obtain ⟨rl, rl', hr, hr', hx, hF⟩ := hs
  have hx' : (G.rhsOf r)[d]? = some rl'.lhs := rhsOf_get.mpr ⟨rl, hr, hx⟩
  have hmem : (⟨r', 0⟩ : Item) ∈ A.its q := h.clC hq hit hr hr' hx
  have hne : r' ≠ 0 := h.ne0_of_lhs hr hr' hx
  have hbT : G.isT b = true := LA_isT h.prod.eofT hla
  refine ⟨hq, hmem, q, hq, by simp [walk], hmem, Or.inr ⟨hne, ?_⟩⟩
  simp only [lhsOf_of_get hr']
  rcases firstOf_snoc_cases (fun r rl hr => h.lhsNT hr) hbT hF with hf | ⟨hnull, rfl⟩
  · exact .rd _ _ _ (inRead_of_first h hq hit hx' (h.lhsNT hr') (by rw [rhsOf_of_get hr]; exact hf))
  · simp only at hor hw
    rcases hor with ⟨h0, hp0, hb1⟩ | ⟨hn0, hfol⟩
    · subst h0; subst hp0; subst hb1
      obtain ⟨rl0, hr0, _, hlen⟩ := h.gok.r0
      rw [hr] at hr0; cases hr0
      have hd : d = 0 := by
        have := (List.getElem?_eq_some_iff.mp hx).1
        omega
      subst hd
      simp only [List.take_zero, walk, Option.some.injEq] at hw
      subst hw
      exact .rd _ _ _ (.dr _ _ _ (.start _ hx'))
    · refine .inc q rl'.lhs p' (G.lhsOf r) a ?_ hfol
      refine ⟨r, rl, d, hr, (lhsOf_of_get hr).symm, hx, hnull, hp', ⟨⟨r, 0⟩, hit0, rfl⟩, ?_,
        h.goto_lhs hp' hn0 hit0⟩
      rw [← rhsOf_of_get hr]; exact hw

theorem inv_goto (h : DPH G nS A) {q r d : Nat} {b : Sym} {rl : Rule} {X : Sym} {p : Nat}
    (ih : Inv G A q ⟨r, d⟩ b) (hr : G.rules[r]? = some rl) (hx : rl.rhs[d]? = some X)
    (hg : A.goto q X = some p) : Inv G A p ⟨r, d + 1⟩ b := by
  obtain ⟨hq, hit, p', hp', hw, hit0, hor⟩ := ih
  obtain ⟨p2, hg2, hp2, _, hmem⟩ := h.gotoC hq hit hr hx
  rw [hg] at hg2; cases hg2
  refine ⟨hp2, hmem, p', hp', ?_, hit0, hor⟩
  simp only at hw ⊢
  rw [rhsOf_of_get hr] at hw ⊢
  rw [take_succ_of_get hx]
  exact walk_snoc _ hw hg

theorem LA_inv (h : DPH G nS A) {q : Nat} {it : Item} {b : Sym} (hla : LA G A.goto q it b) :
    Inv G A q it b := by
  induction hla with
  | init =>
    exact ⟨h.aok.npos, h.aok.s0_start, 0, h.aok.npos, by simp [walk], h.aok.s0_start,
      Or.inl ⟨rfl, rfl, rfl⟩⟩
  | clos q r d b r' a hla hs ih => exact inv_clos h hla ih hs
  | goto q r d b rl X p _ hr hx hg ih => exact inv_goto h ih hr hx hg

/-- completeness of the DeRemer–Pennello sets -/
theorem LA_inLA (h : DPH G nS A) {q r : Nat} {a : Sym}
    (hla : LA G A.goto q ⟨r, (G.rhsOf r).length⟩ a) : InLA G A q r a := by
  obtain ⟨_, _, p', hp', hw, hit0, hor⟩ := LA_inv h hla
  simp only [List.take_length] at hw hor hit0
  rcases hor with ⟨h0, _, hb⟩ | ⟨hn0, hfol⟩
  · exact Or.inl ⟨h0, hb⟩
  · exact Or.inr ⟨hn0, p', ⟨hw, h.goto_lhs hp' hn0 hit0⟩, hfol⟩

/-! ## soundness: every DeRemer–Pennello lookahead is an LALR(1) lookahead -/

theorem DPH.prod_rhsOf (h : DPH G nS A) (r : Nat) : ∀ x ∈ G.rhsOf r, Productive G x := by
  intro x hx
  unfold Grammar.rhsOf at hx
  split at hx
  · rename_i rl hr
    exact h.prod.rhsP rl (List.mem_of_getElem? hr) x hx
  · cases hx

theorem DPH.prod_drop (h : DPH G nS A) (r d : Nat) : ∀ x ∈ (G.rhsOf r).drop d, Productive G x :=
  fun x hx => h.prod_rhsOf r x (List.mem_of_mem_drop hx)

theorem live_cl (h : DPH G nS A) {q : Nat} {K : Item → Prop}
    (hK : ∀ it, K it → ∃ b, LA G A.goto q it b) : ∀ it, Cl0 G K it → ∃ b, LA G A.goto q it b := by
  intro it hcl
  induction hcl with
  | base it hk => exact hK it hk
  | step r d r' rl rl' _ hr hr' hx ih =>
    obtain ⟨b, hb⟩ := ih
    have hbT : G.isT b = true := LA_isT h.prod.eofT hb
    obtain ⟨a, ha⟩ := firstOf_exists (η := rl.rhs.drop (d + 1)) hbT
      (fun x hx => h.prod.rhsP rl (List.mem_of_getElem? hr) x (List.mem_of_mem_drop hx))
    exact ⟨a, LA.clos q r d b r' a hb ⟨rl, rl', hr, hr', hx, ha⟩⟩

/-- every item of every state carries at least one LALR(1) lookahead (all states are reachable) -/
theorem live (h : DPH G nS A) : ∀ q, q < A.n → ∀ it ∈ A.its q, ∃ b, LA G A.goto q it b := by
  intro q
  induction q using Nat.strongRecOn with
  | _ q ih =>
    intro hq it hit
    by_cases h0 : q = 0
    · subst h0
      refine live_cl h (K := fun x => x = ⟨0, 0⟩) ?_ it ((h.cok.s0 it).mp hit)
      intro jt hj
      subst hj
      exact ⟨1, LA.init⟩
    · obtain ⟨q', hlt, X, hm⟩ := h.cok.reach q hq h0
      have hq' : q' < A.n := Nat.lt_trans hlt hq
      have hg : A.goto q' X = some q := h.goto_of_mem hq' hm
      refine live_cl h ?_ it (((h.cok.entry q' hq' X q hm).2.2 it).mp hit)
      intro jt hj
      obtain ⟨r, d, rl, rfl, hr, hx, hmem⟩ := hj
      obtain ⟨b, hb⟩ := ih q' hlt hq' ⟨r, d⟩ hmem
      exact ⟨b, LA.goto q' r d b rl X q hb hr hx hg⟩

theorem first_to_kernel (h : DPH G nS A) {K : Item → Prop} : ∀ it, Cl0 G K it → ∀ a,
    FirstOf G ((G.rhsOf it.r).drop it.d) a → ∃ k, K k ∧ FirstOf G ((G.rhsOf k.r).drop k.d) a := by
  intro it hcl
  induction hcl with
  | base it hk => intro a hf; exact ⟨it, hk, hf⟩
  | step r d r' rl rl' _ hr hr' hx ih =>
    intro a hf
    simp only [List.drop_zero, rhsOf_of_get hr'] at hf
    refine ih a ?_
    simp only [rhsOf_of_get hr, drop_of_get hx]
    refine firstOf_cons_first ?_ (firstOf_rule hr' hf)
    intro x hx'
    exact h.prod.rhsP rl (List.mem_of_getElem? hr) x (List.mem_of_mem_drop hx')

/-- an item of the target of an edge that can begin with `a` stems from an item of the source
    with the edge's symbol after the dot and `a ∈ FIRST` of the rest -/
theorem edge_first (h : DPH G nS A) {q : Nat} {X : Sym} {s : Nat} (hg : A.goto q X = some s)
    {it : Item} (hit : it ∈ A.its s) {a : Sym} (hf : FirstOf G ((G.rhsOf it.r).drop it.d) a) :
    ∃ r d, (⟨r, d⟩ : Item) ∈ A.its q ∧ (G.rhsOf r)[d]? = some X ∧
      FirstOf G ((G.rhsOf r).drop (d + 1)) a := by
  have hq := h.goto_n hg
  have hcl := ((h.cok.entry q hq X s (Auto.goto_mem hg)).2.2 it).mp hit
  obtain ⟨k, hk, hfk⟩ := first_to_kernel h it hcl a hf
  obtain ⟨r, d, rl, rfl, hr, hx, hmem⟩ := hk
  exact ⟨r, d, hmem, rhsOf_get.mpr ⟨rl, hr, hx⟩, hfk⟩

theorem rd_sound (h : DPH G nS A) {s : Nat} {a : Sym} (hrd : Rd G A s a) :
    ∀ (q : Nat) (X : Sym), A.goto q X = some s → ∃ r d, (⟨r, d⟩ : Item) ∈ A.its q ∧
      (G.rhsOf r)[d]? = some X ∧ FirstOf G ((G.rhsOf r).drop (d + 1)) a := by
  induction hrd with
  | base s a s' ha hg =>
    intro q X hq
    obtain ⟨⟨it, hit, hx⟩, _, _⟩ := h.cok.entry s (h.goto_n hg) a s' (Auto.goto_mem hg)
    refine edge_first h hq hit ?_
    rw [drop_of_get hx]
    exact firstOf_cons_first (h.prod_drop _ _) ⟨[], GenL.term1 ha⟩
  | step s C s' a hC hn hg _ ih =>
    intro q X hq
    obtain ⟨r, d, hit, hx, hf⟩ := ih s C hg
    refine edge_first h hq hit ?_
    simp only
    rw [drop_of_get hx]
    exact firstOf_cons_null hn hf

theorem inRead_cases (h : DPH G nS A) {p : Nat} {B a : Sym} (hr : InRead G A p B a) :
    (p = 0 ∧ (G.rhsOf 0)[0]? = some B ∧ a = 1) ∨ ∃ p1, A.goto p B = some p1 ∧ Rd G A p1 a := by
  induction hr with
  | dr p B a hdr =>
    match hdr with
    | .read _ _ p1 _ p2 _ hg ha hg2 => exact Or.inr ⟨p1, hg, .base _ _ _ ha hg2⟩
    | .start _ hS => exact Or.inl ⟨rfl, hS, rfl⟩
  | step p B p1 C a hreads _ ih =>
    obtain ⟨hg, hC, hn, p2, hg2⟩ := hreads
    rcases ih with ⟨h0, _, _⟩ | ⟨s, hgs, hrd⟩
    · exact absurd h0 (h.aok.edge p (h.goto_n hg) B p1 hg).2.1
    · exact Or.inr ⟨p1, hg, .step p1 C s a hC hn hgs hrd⟩

/-- the lookaheads that the LR(1) closure hands to the `B`-items of state `p` -/
def Fol (G : Grammar) (A : Auto) (p : Nat) (B a : Sym) : Prop :=
  ∃ r d b rl, G.rules[r]? = some rl ∧ rl.rhs[d]? = some B ∧ LA G A.goto p ⟨r, d⟩ b ∧
    FirstOf G (rl.rhs.drop (d + 1) ++ [b]) a

theorem inRead_fol (h : DPH G nS A) {p : Nat} {B a : Sym} (hr : InRead G A p B a) :
    Fol G A p B a := by
  rcases inRead_cases h hr with ⟨rfl, hS, rfl⟩ | ⟨p1, hg, hrd⟩
  · obtain ⟨rl0, hr0, _, hlen⟩ := h.gok.r0
    obtain ⟨rl, hrl, hx⟩ := rhsOf_get.mp hS
    rw [hr0] at hrl; cases hrl
    refine ⟨0, 0, 1, rl0, hr0, hx, LA.init, firstOf_snoc_null h.prod.eofT ?_⟩
    rw [List.drop_eq_nil_of_le (by omega)]
    exact .nil
  · obtain ⟨r, d, hit, hx, hf⟩ := rd_sound h hrd p B hg
    obtain ⟨b, hb⟩ := live h p (h.goto_n hg) _ hit
    obtain ⟨rl, hrl, hx'⟩ := rhsOf_get.mp hx
    rw [rhsOf_of_get hrl] at hf
    exact ⟨r, d, b, rl, hrl, hx', hb, firstOf_snoc_left (LA_isT h.prod.eofT hb) hf⟩

theorem walk_snoc_inv {goto : Nat → Sym → Option Nat} : ∀ (γ : List Sym) {q p' : Nat} {X : Sym},
    walk goto q (γ ++ [X]) = some p' → ∃ m, walk goto q γ = some m ∧ goto m X = some p' := by
  intro γ
  induction γ with
  | nil =>
    intro q p' X h
    simp only [List.nil_append] at h
    unfold walk at h
    split at h
    · cases h
    · rename_i m hm
      simp only [walk, Option.some.injEq] at h
      subst h
      exact ⟨q, rfl, hm⟩
  | cons Y γ ih =>
    intro q p' X h
    rw [List.cons_append] at h
    unfold walk at h ⊢
    split at h
    · cases h
    · exact ih h

theorem LA_walk {r : Nat} {rl : Rule} (hr : G.rules[r]? = some rl) {p' : Nat} {a : Sym}
    (hla : LA G A.goto p' ⟨r, 0⟩ a) : ∀ (d : Nat), d ≤ rl.rhs.length → ∀ q,
    walk A.goto p' (rl.rhs.take d) = some q → LA G A.goto q ⟨r, d⟩ a := by
  intro d
  induction d with
  | zero =>
    intro _ q hw
    simp only [List.take_zero, walk, Option.some.injEq] at hw
    subst hw; exact hla
  | succ d ih =>
    intro hd q hw
    have hx : rl.rhs[d]? = some rl.rhs[d] := List.getElem?_eq_getElem (by omega)
    rw [take_succ_of_get hx] at hw
    obtain ⟨m, hm, hg⟩ := walk_snoc_inv _ hw
    exact LA.goto m r d a rl _ q (ih (by omega) m hm) hr hx hg

theorem inFollow_fol (h : DPH G nS A) {p : Nat} {B a : Sym} (hf : InFollow G A p B a) :
    Fol G A p B a := by
  induction hf with
  | rd p B a hr => exact inRead_fol h hr
  | inc p B p' C a hinc _ ih =>
    obtain ⟨r, rl, d, hr, hl, hx, hnull, _, _, hw, _⟩ := hinc
    obtain ⟨r2, d2, b2, rl2, hr2, hx2, hla2, hf2⟩ := ih
    have hla0 : LA G A.goto p' ⟨r, 0⟩ a :=
      LA.clos p' r2 d2 b2 r a hla2 ⟨rl2, rl, hr2, hr, by rw [hl]; exact hx2, hf2⟩
    have hd : d ≤ rl.rhs.length := Nat.le_of_lt (List.getElem?_eq_some_iff.mp hx).1
    have hla : LA G A.goto p ⟨r, d⟩ a := LA_walk hr hla0 d hd p hw
    exact ⟨r, d, a, rl, hr, hx, hla, firstOf_snoc_null (LA_isT h.prod.eofT hla) hnull⟩

theorem LA_rule0 (h : DPH G nS A) {q : Nat} {it : Item} {b : Sym} (hla : LA G A.goto q it b) :
    it.r = 0 → b = 1 := by
  induction hla with
  | init => intro _; rfl
  | clos q r d b r' a _ hs _ =>
    intro h0
    obtain ⟨rl, rl', hr, hr', hx, _⟩ := hs
    exact absurd h0 (h.ne0_of_lhs hr hr' hx)
  | goto q r d b rl X p _ _ _ _ ih => exact ih

/-- soundness of the DeRemer–Pennello sets -/
theorem inLA_LA (h : DPH G nS A) {q r : Nat} {a : Sym} (hq : q < A.n)
    (hit : (⟨r, (G.rhsOf r).length⟩ : Item) ∈ A.its q) (hin : InLA G A q r a) :
    LA G A.goto q ⟨r, (G.rhsOf r).length⟩ a := by
  rcases hin with ⟨rfl, rfl⟩ | ⟨_, p, ⟨hw, _⟩, hfol⟩
  · obtain ⟨b, hb⟩ := live h q hq _ hit
    have := LA_rule0 h hb rfl
    subst this; exact hb
  · obtain ⟨rl, hr⟩ := rule_of_lt (h.aok.item_ok q hq _ hit).1
    obtain ⟨r2, d2, b2, rl2, hr2, hx2, hla2, hf2⟩ := inFollow_fol h hfol
    rw [lhsOf_of_get hr] at hx2
    have hla0 : LA G A.goto p ⟨r, 0⟩ a := LA.clos p r2 d2 b2 r a hla2 ⟨rl2, rl, hr2, hr, hx2, hf2⟩
    rw [rhsOf_of_get hr] at hw ⊢
    refine LA_walk hr hla0 _ (Nat.le_refl _) q ?_
    rw [List.take_length]; exact hw

/-- the classical DeRemer–Pennello theorem, on the declarative sets -/
theorem inLA_iff_LA (h : DPH G nS A) {q r : Nat} (hq : q < A.n)
    (hit : (⟨r, (G.rhsOf r).length⟩ : Item) ∈ A.its q) (a : Sym) :
    InLA G A q r a ↔ LA G A.goto q ⟨r, (G.rhsOf r).length⟩ a :=
  ⟨inLA_LA h hq hit, LA_inLA h⟩

end Auto

end Y.DP
