#!/usr/bin/env python3
"""Regenerates MANIFEST.json from the table below (kept as code so it is always schema-valid)."""
import json
import os
import subprocess

VERIF = os.path.dirname(os.path.dirname(os.path.abspath(__file__)))

CHECKS = json.load(open(os.path.join(VERIF, "lib", "manifest_checks.json")))

NOT_YET = {
}


def main():
    hooks = subprocess.run(["git", "-C", "/repo", "log", "--format=%H %s"], stdout=subprocess.PIPE).stdout.decode().split("\n")
    hook_commits = [l.split()[0] for l in hooks if l and l.split(" ", 1)[1].startswith("verif:")]
    props = [json.loads(l)["id"] for l in open(os.path.join(VERIF, "properties.jsonl"))]
    m = {
        "version": 1,
        "setup_cmd": "./bin/setup",
        "hooks": {
            "guard": "verif",
            "enable": "go build -tags verif (the harness module replaces github.com/acekingke/yaccgo with /repo)",
            "baseline_off_cmd": json.load(open("/root/.vp/BASELINE.json"))["cmd"] if os.path.exists("/root/.vp/BASELINE.json") else "cd /repo && go test -vet=off -count=1 ./...",
            "source_commits": hook_commits,
            "add_only": True,
        },
        "engines": [
            {"name": "lean", "path": "lean", "serves_properties": sorted(CHECKS), "kind_free_text": "Lean 4.33 project: models, certificates, theorems; core-only executable ymodel"},
            {"name": "harness", "path": "harness", "serves_properties": sorted(CHECKS), "kind_free_text": "Go harness calling the real packages in-process (build tag verif)"},
            {"name": "orchestrator", "path": "bin/check", "serves_properties": sorted(CHECKS), "kind_free_text": "Python 3 stdlib orchestrator, generators, reference oracles"},
        ],
        "checks": [],
        "not_applicable": [],
        "notes": "See DESIGN.md. Every check: regenerate translated Lean fragments, lake build + axiom audit (proof_ok), rebuild harness against /repo's working tree, correspondence + certificates (tie_ok), property predicate on the implementation (prop_ok).",
    }
    for pid in props:
        if pid in CHECKS:
            c = CHECKS[pid]
            m["checks"].append({
                "property_id": pid,
                "quick_cmd": "./bin/check %s --tier quick" % pid,
                "thorough_cmd": "./bin/check %s --tier thorough" % pid,
                "evidence_file": "evidence/%s.json" % pid,
                "replay_cmd_template": "./bin/check %s --replay {path}" % pid,
                "engine": "lean",
                "level_claimed": {"category": c["cat"], "text": c["text"], "design_ref": c["ref"]},
                "level_note": c["note"],
                "technique": c["technique"],
            })
        else:
            m["not_applicable"].append({"property_id": pid, "reason": NOT_YET.get(pid, "check not built yet (work in progress; the design claims it, see DESIGN.md §5)")})
    with open(os.path.join(VERIF, "MANIFEST.json"), "w") as f:
        json.dump(m, f, indent=1)
    print("MANIFEST: %d checks, %d not claimed" % (len(m["checks"]), len(m["not_applicable"])))


if __name__ == "__main__":
    main()
