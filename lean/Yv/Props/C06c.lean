import Yv.Proofs.TermFacts
import Yv.Props.C01
import Yv.Props.C06
/-! # C06c — the driver terminates (on every table that passes the termination certificate)

`C06_safe` says the driver never crashes on certified tables, for every fuel; it does not say that
the fuel is ever enough.  In general it is not: a table for `S' → A ; A → A | x` whose conflict was
resolved in favour of `A → A` reduces for ever (`C06_conflict_table_can_loop`).  Termination is
therefore proved from a decidable certificate on the table alone, `Y.Term.certTerm G T n F`
(`Yv/Model/Term.lean`, evaluated per table by `ymodel`; `certTermFast` is the array-backed
evaluator, `certTermFast_eq`):

* the reduce-only simulation (`rstep`) from `[0]` and from every pair `[q, p]` such that `q` is a
  non-negative value in row `p` reaches, under every lookahead, within `F` moves either a
  non-reduce (`stop`) or a reduction that needs states below the simulated ones (`under`);
* no row shifts the end marker (column 1) — without this the driver can shift `$` for ever once
  the input is exhausted, whatever the reduce moves do.

`C06_terminates` needs no other hypothesis (no `gramWF`/`certA`/`certT`; arbitrary tokens), and the
fuel is bounded by the closed form `termBound F |w| = (|w|+1)·(1+|w|·F)·F`. -/
namespace Y.Props
open Y Y.D Y.Term

theorem C06_terminates_bound {V : Type} (G : Grammar) (T : Dense) (n : Nat)
    (sem : Nat → List V → V) (eofVal bv : V) (F : Nat)
    (h : certTerm G T n F = true) (w : List (Sym × V)) :
    ∃ fuel, fuel ≤ termBound F w.length ∧
      run (dparams G T n sem eofVal) fuel (init bv w) ≠ .outOfFuel :=
  ⟨termBound F w.length, Nat.le_refl _,
    halts_of_ok (dparams G T n sem eofVal) F (certTerm_ok h sem eofVal) w.length 1 (init bv w)
      Good.base (Nat.le_refl _) (Nat.le_refl _)⟩

theorem C06_terminates {V : Type} (G : Grammar) (T : Dense) (n : Nat)
    (sem : Nat → List V → V) (eofVal bv : V) (F : Nat)
    (h : certTerm G T n F = true) (w : List (Sym × V)) :
    ∃ fuel, run (dparams G T n sem eofVal) fuel (init bv w) ≠ .outOfFuel := by
  obtain ⟨fuel, -, hf⟩ := C06_terminates_bound G T n sem eofVal bv F h w
  exact ⟨fuel, hf⟩

/-- once the driver has halted, more fuel does not change the outcome -/
theorem C06_terminates_mono {V : Type} (P : Params V) (fuel : Nat) (c : D.Cfg V)
    (h : run P fuel c ≠ .outOfFuel) (fuel' : Nat) (hf : fuel ≤ fuel') :
    run P fuel' c = run P fuel c :=
  run_mono P fuel c h fuel' hf

/-- an input that is not a sentence (no rightmost derivation of it from the body of rule 0) is
    rejected through the error channel after finitely many steps, with nothing requested from the
    lexer after the offending token -/
theorem C06_nonsentence_rejected {V : Type} (G : Grammar) (nS : Nat) (A : Auto) (T : Dense)
    (sem : Nat → List V → V) (eofVal bv : V) (F : Nat)
    (hG : gramWF G nS = true) (hA : certA G A = true) (hT : certT G nS A T = true)
    (hF : certTerm G T A.n F = true)
    (w : List (Sym × V)) (hw : ∀ t ∈ w, t.1 ≤ G.nT ∧ t.1 ≠ 1)
    (hns : ¬ ∃ rl0 reds, G.rules[0]? = some rl0 ∧ RmDer G rl0.rhs reds (w.map Prod.fst)) :
    ∃ fuel c', run (dparams G T A.n sem eofVal) fuel (init bv w) = .syntaxError c' ∧
      c'.req + c'.rest.length = w.length + 1 := by
  obtain ⟨fuel, hfuel⟩ := C06_terminates G T A.n sem eofVal bv F hF w
  have hs := C06_safe G nS A T sem eofVal bv hG hA hT w hw fuel
  cases hrun : run (dparams G T A.n sem eofVal) fuel (init bv w) with
  | accept v c' =>
    obtain ⟨rl0, h0, -, hd, -⟩ := C01_sound G nS A T sem eofVal bv hG hA hT w hw fuel v c' hrun
    exact absurd ⟨rl0, c'.reds, h0, hd⟩ hns
  | syntaxError c' => exact ⟨fuel, c', hrun, hs.2 c' hrun⟩
  | crash => exact absurd hrun hs.1
  | outOfFuel => exact absurd hrun hfuel

/-! ## Non-vacuity: the table of the C01 example (`S' → S ; S → a S | b`) passes the certificate
    (3 moves suffice), also through the array-backed evaluator. -/

example : certTerm exG exT exA.n 3 = true := by decide
example : certTermFast exG exT exA.n 3 = true := by rw [certTermFast_eq]; decide

example : ∀ w : List (Sym × Unit), ∃ fuel, fuel ≤ termBound 3 w.length ∧
    run (dparams exG exT exA.n (fun _ _ => ()) ()) fuel (init () w) ≠ .outOfFuel :=
  C06_terminates_bound exG exT exA.n _ _ _ 3 (by decide)

/-! ## The certificate is needed: `S' → A ; A → A | x` (`$`=1, `x`=2, `A`=3).  State 1 holds
    `S' → A ·` and `A → A ·`; the table below resolves that conflict on `$` in favour of the
    reduction `A → A`, so after `x` has been reduced to `A` the driver pops state 1, goes to state 1
    and never stops.  The table passes no `certTerm`. -/

def loopG : Grammar := { nT := 2, rules := [⟨0, [3]⟩, ⟨3, [3]⟩, ⟨3, [2]⟩] }
def loopT : Dense := [[103, 103, 2, 1], [103, -1, 103, 103], [103, -2, 103, 103]]

theorem loop_spin (sem : Nat → List Unit → Unit) : ∀ (fuel : Nat) (c : D.Cfg Unit), c.rest = [] →
    sts c.stack = [1, 0] → run (dparams loopG loopT 3 sem ()) fuel c = .outOfFuel
  | 0, _, _, _ => rfl
  | fuel + 1, c, hr, hs => by
    have hl : (look () c).1 = 1 := by unfold look; rw [hr]
    obtain ⟨c', hc', hr', hs', -⟩ :=
      sim_next (dparams loopG loopT 3 sem ()) c [1, 0] [] [1, 0] (by simpa using hs)
        (by show rstep _ _ _ _ (look () c).1 _ = _; rw [hl]
            show rstep (tparams loopG loopT 3).L (tparams loopG loopT 3).errC (tparams loopG loopT 3).accC
              (tparams loopG loopT 3).rule 1 [1, 0] = .next [1, 0]
            decide)
    unfold run
    rw [hc']
    exact loop_spin sem fuel c' (by rw [hr', hr]) (by simpa using hs')

theorem C06_conflict_table_can_loop :
    (∀ F, certTerm loopG loopT 3 F = false) ∧
    ∀ fuel, run (dparams loopG loopT 3 (fun _ _ => ()) ()) fuel (init () [(2, ())]) = .outOfFuel := by
  have hloop : ∀ fuel, run (dparams loopG loopT 3 (fun _ _ => ()) ()) fuel (init () [(2, ())])
      = .outOfFuel := by
    intro fuel
    match fuel with
    | 0 => rfl
    | 1 => rfl
    | fuel + 2 =>
      obtain ⟨c2, h2, hr, hs⟩ : ∃ c2 : D.Cfg Unit,
          run (dparams loopG loopT 3 (fun _ _ => ()) ()) (fuel + 2) (init () [(2, ())]) =
            run (dparams loopG loopT 3 (fun _ _ => ()) ()) fuel c2 ∧
          c2.rest = [] ∧ sts c2.stack = [1, 0] := ⟨_, rfl, rfl, rfl⟩
      rw [h2]
      exact loop_spin _ fuel c2 hr hs
  refine ⟨?_, hloop⟩
  intro F
  cases hc : certTerm loopG loopT 3 F with
  | false => rfl
  | true =>
    obtain ⟨fuel, hf⟩ := C06_terminates loopG loopT 3 (fun _ _ => ()) () () F hc [(2, ())]
    exact absurd (hloop fuel) hf

example : certTerm loopG loopT 3 8 = false := by decide

end Y.Props
